#!/bin/sh
# Offline set-up: install the third-party harness dependencies from the local
# wheelhouse into /verif/.deps (git-ignored). Nothing is fetched.
HERE="$(cd "$(dirname "$0")" && pwd)"
PY="${VERIF_PYTHON:-/venv/bin/python}"
mkdir -p "$HERE/.deps" "$HERE/out" "$HERE/evidence"
PIP_NO_INDEX=1 "$PY" -m pip install --quiet --no-index --find-links /opt/veriftools/wheels \
  --target "$HERE/.deps" --upgrade jsonschema hypothesis atheris 2>&1 | tail -3
PYTHONPATH="$HERE/.deps" "$PY" -c "import hypothesis, jsonschema; print('deps ok', hypothesis.__version__)" || exit 1
PYTHONPATH="$HERE/.deps" "$PY" -c "import atheris" 2>/dev/null || echo "note: atheris not importable (fuzz tiers will be skipped)"
exit 0
