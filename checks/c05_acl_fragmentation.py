"""
C05 - L2CAP PDUs of any size cross the ACL link intact for any buffer geometry.

Four harnesses, all on the virtual-time loop:

* pdus : World of 2..3 full devices (LE or BR/EDR) with generated controller buffer geometry on
         every node; generated sequences of `host.send_l2cap_pdu` in both directions; the
         receiver's Host 'l2cap_pdu' events are compared with what was sent, the sender's
         host->controller HCI stream is checked fragment by fragment.
* iso  : a CIS set up through the real commands (as tests/device_test.py::test_cis), generated
         ISO buffer geometry, `host.send_iso_sdu`; the harness plays the ISO data sink of the
         controller (returns credits) and checks every ISO fragment on the HCI stream.
* raw  : a RawPeer sends well-formed PDUs (host-fragmented or hand-cut) with malformed fragment
         sequences in between; the device under test must receive exactly the well-formed PDUs.
* asm  : the same scripts fed directly to hci.HCI_AclDataPacketAssembler / to a bare Host.
"""

from __future__ import annotations

import asyncio
import hashlib
import struct

from hypothesis import strategies as st

from bumble import hci
from vlib import vloop, world
from vlib.runner import HarnessError

PROPERTY = 'C05'
LEVEL = 'exploration'
RULE = (
    'pdus: worlds of 2..3 devices (LE, LE sharing the BR/EDR buffers, BR/EDR) with per-node ACL data '
    'length F in {5..9, 27, 251, 1021, 65535, random} and packet count in {1,2,3,64,random}, order-preserving '
    'HCI delays, 1..6 PDUs in both directions with payload lengths biased to k*F-4+{-1,0,+1}, 0..3 and '
    '65531..65535; non-trivial = some PDU needs >=2 fragments or has length+4 = -1,0,+1 mod F. '
    'iso: ISO data length in {5..8,12,16,64,251,960,4095,random} x count x SDU length sequences (1..4095, biased '
    'to the fragment boundaries) x starting sequence number (wrap); non-trivial = >=2 fragments or boundary. '
    'raw/asm: scripts of well-formed PDUs (host-fragmented or cut at generated offsets) and malformed '
    'sequences (continuation without start, start without end, data beyond the announced length, start '
    'shorter than 4 bytes) through a RawPeer, the bare assembler and a bare Host; non-trivial = a malformed '
    'sequence precedes a well-formed PDU. distinct by (geometry, transport, length/step sequence).'
)
ASSUMPTIONS = [
    'ACL data lengths below 5 and ISO data lengths below 5 are not generated (a start fragment could not hold '
    'the L2CAP basic header / ISO lengths start at 5 in the Core specification); LE packet counts <= 255',
    'PB flag of a first host->controller fragment may be 0b00 or 0b10',
    'the virtual controller does not consume ISO data, so the harness returns the ISO credits '
    '(Number Of Completed Packets for the CIS handle) itself; the first ISO sequence number is set by writing '
    'IsoLink.packet_sequence_number to reach the 16-bit wrap',
    'a malformed fragment may raise inside the assembler; only its after-effects are judged. A PDU that a '
    'by-the-book reassembler would legitimately build from the injected fragments may be delivered or not',
    'ISO SDU lengths 1..4095 only (0 emits no fragment, the length field has 12 bits)',
    'delivery is decided at quiescence of the HCI taps within a virtual-time limit proportional to the number '
    'of fragments',
]
SHRINK_KEYS = ('sends', 'sdus', 'script')

H2C, C2H = world.H2C, world.C2H
TOP = (65531, 65532, 65533, 65534, 65535)


# ---------------------------------------------------------------------------
# helpers (harness-side encoders/decoders, independent of bumble's)
# ---------------------------------------------------------------------------
def u16(b: bytes, off: int) -> int:
    return b[off] | (b[off + 1] << 8)


def pattern(tag, n: int) -> bytes:
    """Deterministic, aperiodic payload of n bytes."""
    if n == 0:
        return b''
    return hashlib.shake_128(repr(tag).encode()).digest(n)


def frame(cid: int, payload: bytes) -> bytes:
    return struct.pack('<HH', len(payload), cid) + payload


def site_of(exc) -> str:
    tb = exc.__traceback__
    site = '?'
    while tb is not None:
        fn = tb.tb_frame.f_code.co_filename
        if '/bumble/' in fn:
            site = f'{fn.split("/bumble/")[-1]}:{tb.tb_frame.f_code.co_name}'
        tb = tb.tb_next
    return f'{site}:{type(exc).__name__}'


def advertised(log) -> dict:
    """Buffer geometry the controller returned, read from the tapped Command Complete events."""
    out = {}
    for _t, d, p in log:
        if d != C2H or len(p) < 7 or p[0] != 0x04 or p[1] != 0x0E:
            continue
        op = u16(p, 4)
        rp = p[6:]
        if not rp or rp[0] != 0:
            continue
        if op == hci.HCI_READ_BUFFER_SIZE_COMMAND and len(rp) >= 8:
            out['acl'] = (u16(rp, 1), u16(rp, 4))
        elif op == hci.HCI_LE_READ_BUFFER_SIZE_COMMAND and len(rp) >= 4:
            out['le'] = (u16(rp, 1), rp[3])
        elif op == hci.HCI_LE_READ_BUFFER_SIZE_V2_COMMAND and len(rp) >= 7:
            out['le'] = (u16(rp, 1), rp[3])
            out['iso'] = (u16(rp, 4), rp[6])
    return out


def acl_geometry(adv: dict, classic: bool):
    if not classic and adv.get('le') and adv['le'][0] and adv['le'][1]:
        return adv['le']
    return adv.get('acl')


def make_order_preserving(tap) -> None:
    """vlib.world.Tap schedules one timer per packet; two timers for the same instant are not
    guaranteed to fire in scheduling order (heap of equal keys), which would let the tap itself
    reorder packets. Keep a FIFO per direction: every timer delivers the oldest undelivered packet."""
    import collections

    queues = {H2C: collections.deque(), C2H: collections.deque()}

    def pump(direction):
        tap._deliver(direction, queues[direction].popleft())

    def forward(direction, packet):
        now = tap.loop.time()
        d = next(tap._delays[direction]) * tap.unit
        when = max(tap._last[direction], now + d)
        tap._last[direction] = when
        queues[direction].append(packet)
        if when <= now:
            tap.loop.call_soon(pump, direction)
        else:
            tap.loop.call_at(when, pump, direction)

    tap._forward = forward


class Recorder:
    """Sits between a Host and its tap: records what the host emits, in emission order, and keeps
    the number of data packets handed to the controller and not yet reported complete."""

    def __init__(self, node_or_peer):
        make_order_preserving(node_or_peer.tap)
        self.down = node_or_peer.tap.to_controller
        self.sent: list[bytes] = []
        self.inflight: dict[tuple[int, int], int] = {}  # (packet type, handle) -> count
        self.peak = {2: 0, 5: 0}
        node_or_peer.host.set_packet_sink(self)
        node_or_peer.tap.listeners.append(self._listen)

    def on_packet(self, packet) -> None:
        packet = bytes(packet)
        self.sent.append(packet)
        if packet[0] in (2, 5) and len(packet) >= 3:
            key = (packet[0], u16(packet, 1) & 0xFFF)
            self.inflight[key] = self.inflight.get(key, 0) + 1
            total = sum(v for (t, _h), v in self.inflight.items() if t == packet[0])
            self.peak[packet[0]] = max(self.peak[packet[0]], total)
        self.down.on_packet(packet)

    def _listen(self, direction, p) -> None:
        if direction != C2H or len(p) < 4 or p[0] != 0x04 or p[1] != hci.HCI_NUMBER_OF_COMPLETED_PACKETS_EVENT:
            return
        n = p[3]
        if n == 1 and len(p) >= 8:
            pairs = [(u16(p, 4), u16(p, 6))]
        else:
            ev = hci.HCI_Packet.from_bytes(p)
            pairs = list(zip(ev.connection_handles, ev.num_completed_packets))
        for handle, count in pairs:
            for t in (2, 5):
                if (t, handle) in self.inflight:
                    self.inflight[(t, handle)] = max(0, self.inflight[(t, handle)] - count)

    def data_packets(self, ptype: int, start: int = 0):
        return [p for p in self.sent[start:] if p[0] == ptype]


def compare_delivery(expected, delivered):
    """expected/delivered: lists of (cid, payload), expected entries unique.
    Returns None when equal, else (kind, text)."""
    if delivered == expected:
        return None
    index = {e: i for i, e in enumerate(expected)}
    foreign = [d for d in delivered if d not in index]
    if foreign:
        cid, payload = foreign[0]
        near = [e for e in expected if e[0] == cid]
        hint = ''
        if near:
            hint = f' (sent on that CID: {len(near[0][1])} bytes)'
        return 'corrupt', f'received a PDU that was never sent: cid=0x{cid:04X}, {len(payload)} bytes{hint}'
    seen = set()
    for d in delivered:
        if d in seen:
            return 'duplicate', f'PDU cid=0x{d[0]:04X} ({len(d[1])} bytes) delivered more than once'
        seen.add(d)
    order = [index[d] for d in delivered]
    if order != sorted(order):
        return 'order', f'PDUs delivered in order {order}, sent in order {sorted(order)}'
    missing = [e for e in expected if e not in seen]
    size = 'pdu_over_65535' if all(len(m[1]) + 4 > 65535 for m in missing) else 'any_size'
    return f'lost/{size}', (
        f'{len(missing)} of {len(expected)} PDU(s) never delivered; first missing: cid=0x{missing[0][0]:04X}, '
        f'payload {len(missing[0][1])} bytes'
    )


# ---------------------------------------------------------------------------
# pdus: full devices, generated geometry
# ---------------------------------------------------------------------------
F_VALUES = [5, 6, 7, 8, 9, 27, 27, 251, 1021, 65535]


def geometry_strategy(classic: bool):
    f = st.one_of(st.sampled_from(F_VALUES), st.integers(5, 300), st.integers(5, 65535))
    n = st.one_of(st.sampled_from([1, 1, 2, 3, 64]), st.integers(1, 255))
    if classic:
        return st.tuples(f, n).map(lambda t: ('classic', t[0], t[1]))
    return st.tuples(f, n, st.integers(0, 7)).map(lambda t: ('le_shared' if t[2] == 0 else 'le', t[0], t[1]))


def geometry_dict(g) -> dict:
    kind, f, n = g
    if kind == 'classic':
        return {'acl_data_packet_length': f, 'total_num_acl_data_packets': n}
    if kind == 'le_shared':
        return {'le_acl_data_packet_length': 0, 'total_num_le_acl_data_packets': 0,
                'acl_data_packet_length': f, 'total_num_acl_data_packets': n}
    return {'le_acl_data_packet_length': f, 'total_num_le_acl_data_packets': n}


def length_strategy(f: int, cap: int, top: bool):
    kmax = max(1, min(cap // f, 40))
    boundary = st.tuples(st.integers(1, kmax), st.sampled_from([-1, 0, 1])).map(
        lambda t: min(65535, max(0, t[0] * f - 4 + t[1]))
    )
    options = [boundary, boundary, boundary, st.sampled_from([0, 1, 2, 3]), st.integers(0, cap)]
    if top:
        options.append(st.sampled_from(TOP))
    return st.one_of(*options)


@st.composite
def pdus_case(draw, cap: int, budget: int, top: bool):
    classic = draw(st.sampled_from([False, False, True]))
    nodes = draw(st.sampled_from([2, 2, 2, 3]))
    geos = [draw(geometry_strategy(classic)) for _ in range(nodes)]
    delays = [draw(st.lists(st.sampled_from([0, 0, 0, 1, 7, 50]), min_size=0, max_size=4)) for _ in range(nodes)]
    pairs = [(0, 1), (1, 0)] + ([(0, 2), (2, 0)] if nodes == 3 else [])
    count = draw(st.integers(1, 6))
    sends = []
    used = set()
    frags = 0
    for _ in range(count):
        src, dst = draw(st.sampled_from(pairs))
        f = geos[src][1]
        n = draw(length_strategy(f, cap, top))
        # fragment budget of a case (cost), never changes the class of a length
        room = max(1, budget - frags)
        if (n + 4 + f - 1) // f > room:
            n = max(0, room * f - 4)
        frags += (n + 4 + f - 1) // f
        cid = draw(st.one_of(st.sampled_from([0x40, 0x41, 0x7F, 0x80, 0xFFFF]), st.integers(0x40, 0xFFFF)))
        while cid in used:
            cid = cid + 1 if cid < 0xFFFF else 0x40
        used.add(cid)
        gap = draw(st.sampled_from([0, 0, 0, 1, 20]))
        sends.append([src, dst, cid, n, gap])
    return {'kind': 'pdus', 'classic': classic, 'nodes': nodes, 'geometry': [list(g) for g in geos],
            'delays': delays, 'sends': sends}


def run_pdus_case(ctx, case) -> None:
    classic = bool(case['classic'])
    nodes = int(case['nodes'])
    geos = [tuple(g) for g in case['geometry']]
    delays = [list(d) for d in case['delays']]
    sends = [tuple(s) for s in case['sends']]
    loop = vloop.new_loop()
    state: dict = {'phase': 'setup'}
    got: dict[int, list] = {i: [] for i in range(nodes)}

    def fail(sig, what):
        ctx.fail(sig, what, dict(case))

    payloads = [pattern(('p', k, cid, n), n) for k, (_s, _d, cid, n, _g) in enumerate(sends)]
    total_frags = sum((len(p) + 4 + geos[s[0]][1] - 1) // geos[s[0]][1] for p, s in zip(payloads, sends))
    limit = 30.0 + 0.25 * total_frags

    async def main():
        w = world.World(nodes, classic=classic, geometry=[geometry_dict(g) for g in geos],
                        delays=[d or [0] for d in delays])
        recs = [Recorder(node) for node in w.nodes]
        await w.power_on()
        handles = {}
        for peer in range(1, nodes):
            if classic:
                c0, cp = await w.connect_classic(0, peer)
            else:
                c0, cp = await w.connect_le(0, peer)
            handles[(0, peer)] = c0.handle
            handles[(peer, 0)] = cp.handle
        await asyncio.sleep(1.0)
        for i, node in enumerate(w.nodes):
            node.host.on('l2cap_pdu', lambda h, cid, p, i=i: got[i].append((h, cid, bytes(p))))
        state.update(world=w, recs=recs, handles=handles, marks=[len(r.sent) for r in recs], phase='send')
        for (src, dst, cid, _n, gap), payload in zip(sends, payloads):
            w[src].host.send_l2cap_pdu(handles[(src, dst)], cid, payload)
            if gap:
                await asyncio.sleep(gap / 1000.0)
        state['phase'] = 'deliver'
        t_end = loop.time() + limit
        idle = 0
        last = None
        while loop.time() < t_end and idle < 3:
            await asyncio.sleep(0.5)
            now = tuple(len(n.tap.log) for n in w.nodes)
            idle = idle + 1 if now == last else 0
            last = now
        state['phase'] = 'done'

    outcome = None
    try:
        loop.complete(main(), horizon=limit + 600.0)
    except (vloop.Stalled, vloop.HorizonExceeded) as e:
        outcome = type(e).__name__
    except vloop.BudgetExceeded:
        outcome = 'budget'
    except Exception as e:  # noqa: BLE001
        if state['phase'] == 'setup':
            loop.shutdown()
            raise HarnessError(f'C05 pdus set-up failed for {case!r}: {e!r}')
        outcome = f'raised:{site_of(e)}'

    try:
        labels = set()
        labels.add('classic' if classic else 'le')
        if nodes == 3:
            labels.add('three_nodes')
        if any(any(d) for d in delays):
            labels.add('delayed')
        nontrivial = False
        for (src, _dst, _cid, n, _g) in sends:
            kind, f, cnt = geos[src]
            if kind == 'le_shared':
                labels.add('le_shared_buffers')
            if f <= 9:
                labels.add('tiny_F')
            if cnt == 1:
                labels.add('count_1')
            nfr = (n + 4 + f - 1) // f
            if nfr >= 2:
                labels.add('multi_fragment')
                nontrivial = True
            if nfr > cnt:
                labels.add('credits_exhausted')
            r = (n + 4) % f
            if r == f - 1:
                labels.add('boundary_-1')
                nontrivial = True
            elif r == 0:
                labels.add('boundary_0')
                nontrivial = True
            elif r == 1 and n + 4 > f:
                labels.add('boundary_+1')
                nontrivial = True
            if n == 0:
                labels.add('len_0')
            elif n == 1:
                labels.add('len_1')
            elif n >= 65531:
                labels.add('len_top')
            if n + 4 > 65535:
                labels.add('pdu_over_65535')
        if len({s[0] for s in sends}) >= 2:
            labels.add('both_directions')
        if outcome == 'budget':
            labels.add('iteration_budget_hit')
        elif outcome is not None and state['phase'] == 'setup':
            fail(f'setup/{outcome}', f'power-on/connection did not complete for geometry {geos}: {outcome}')
        elif outcome is not None:
            fail(f'hang/{state["phase"]}/{outcome}', f'phase {state["phase"]}: {outcome}')
        else:
            analyse_pdus(ctx, case, state, sends, payloads, geos, classic, got, loop, fail)
        ctx.case((classic, nodes, geos, delays, [s[:4] for s in sends]), nontrivial, labels,
                 sample={'classic': classic, 'geometry': geos, 'lengths': [s[3] for s in sends]})
    finally:
        loop.shutdown()


def analyse_pdus(ctx, case, state, sends, payloads, geos, classic, got, loop, fail) -> None:
    w = state['world']
    handles = state['handles']
    errors = [e['exception'] for e in loop.errors if e.get('exception') is not None]
    # ---- fragments emitted by every sender
    for i, node in enumerate(w.nodes):
        mine = [(s, p) for s, p in zip(sends, payloads) if s[0] == i]
        if not mine:
            continue
        adv = acl_geometry(advertised(node.tap.log), classic)
        if adv is None:
            raise HarnessError('no Read Buffer Size answer seen on the tap')
        f_adv, n_adv = adv
        if (f_adv, n_adv) != (geos[i][1], geos[i][2]):
            raise HarnessError(f'controller advertised {adv}, geometry was {geos[i]}')
        expect: dict[int, list[bytes]] = {}
        for (src, dst, cid, _n, _g), p in mine:
            expect.setdefault(handles[(src, dst)], []).append(frame(cid, p))
        rec = state['recs'][i]
        if not check_acl_fragments(rec.data_packets(2, state['marks'][i]), expect, f_adv, fail):
            return
        if rec.peak[2] > n_adv:
            fail('frag/over_credit', f'{rec.peak[2]} ACL packets in flight, controller advertised {n_adv}')
            return
    # ---- delivery
    for (src, dst) in sorted(handles):
        expected = [(s[2], p) for s, p in zip(sends, payloads) if (s[0], s[1]) == (src, dst)]
        h = handles[(dst, src)]
        delivered = [(cid, p) for (hh, cid, p) in got[dst] if hh == h]
        stray = [x for x in got[dst] if x[0] not in [handles[k] for k in handles if k[0] == dst]]
        if stray:
            fail('deliver/wrong_handle', f'PDU delivered on handle 0x{stray[0][0]:04X} which is no connection of node {dst}')
            return
        verdict = compare_delivery(expected, delivered)
        if verdict is None:
            continue
        kind, text = verdict
        if kind.startswith('lost/'):
            cause = site_of(errors[0]) if errors else 'silent'
            fail(f'deliver/{kind}/{cause}', f'{text}; {("escaped exception: " + repr(errors[0])) if errors else "no exception"}')
        else:
            fail(f'deliver/{kind}', text)
        return


def check_acl_fragments(packets, expect: dict, f_adv: int, fail) -> bool:
    """packets: host->controller ACL packets in emission order; expect: handle -> [l2cap frames]."""
    pos = {h: [0, 0] for h in expect}
    for pkt in packets:
        if len(pkt) < 5:
            fail('frag/short_packet', f'ACL packet of {len(pkt)} bytes')
            return False
        hdr = u16(pkt, 1)
        handle, pb, bc = hdr & 0xFFF, (hdr >> 12) & 3, hdr >> 14
        dlen = u16(pkt, 3)
        data = pkt[5:]
        if handle not in expect:
            fail('frag/unknown_handle', f'ACL packet for handle 0x{handle:04X} on which nothing was sent')
            return False
        if dlen != len(data):
            fail('frag/length_field', f'Data_Total_Length {dlen} but {len(data)} bytes follow')
            return False
        if len(data) > f_adv:
            fail('frag/too_long', f'ACL fragment of {len(data)} bytes, controller advertised {f_adv}')
            return False
        k, off = pos[handle]
        if k >= len(expect[handle]):
            fail('frag/concat', 'more ACL data emitted than the PDUs that were sent')
            return False
        pdu = expect[handle][k]
        if off == 0 and pb not in (0, 2):
            fail('frag/pb_flag/first', f'first fragment of a PDU carries PB={pb}')
            return False
        if off > 0 and pb != 1:
            fail('frag/pb_flag/continuation', f'fragment at offset {off} of a PDU carries PB={pb}')
            return False
        if bc != 0:
            fail('frag/bc_flag', f'BC flag {bc} on a point-to-point fragment')
            return False
        if not data or data != pdu[off : off + len(data)] or off + len(data) > len(pdu):
            fail('frag/concat', f'fragment at offset {off} ({len(data)} bytes) is not the next slice of the '
                                f'{len(pdu)}-byte PDU (L2CAP header + payload)')
            return False
        off += len(data)
        if off == len(pdu):
            pos[handle] = [k + 1, 0]
        else:
            pos[handle] = [k, off]
    for handle, (k, off) in pos.items():
        if k != len(expect[handle]) or off:
            fail('frag/incomplete', f'only {k} of {len(expect[handle])} PDU(s) were completely handed to the '
                                    f'controller at quiescence (next one stopped at offset {off})')
            return False
    return True


# ---------------------------------------------------------------------------
# iso
# ---------------------------------------------------------------------------
ISO_F = [5, 6, 7, 8, 12, 16, 64, 251, 960, 4095]


@st.composite
def iso_case(draw):
    f = draw(st.one_of(st.sampled_from(ISO_F), st.integers(5, 4095), st.integers(5, 64)))
    n = draw(st.one_of(st.sampled_from([1, 2, 3, 64]), st.integers(1, 255)))
    kmax = max(1, min(4095 // f, 30))
    boundary = st.tuples(st.integers(0, kmax), st.sampled_from([-1, 0, 1])).map(
        lambda t: min(4095, max(1, f - 4 + t[0] * f + t[1]))
    )
    length = st.one_of(boundary, boundary, st.sampled_from([1, 2, 4095]), st.integers(1, 4095), st.integers(1, 64))
    return {
        'kind': 'iso', 'iso_length': f, 'iso_count': n,
        'sender': draw(st.sampled_from([0, 0, 1])),
        'start_seq': draw(st.sampled_from([None, None, 0xFFFF, 0xFFFE, 0xFFFD, 0x7FFF, 0x00FF])),
        'credit_delays': draw(st.lists(st.sampled_from([0, 0, 1, 5]), min_size=0, max_size=3)),
        'sdus': draw(st.lists(length, min_size=1, max_size=6)),
    }


def run_iso_case(ctx, case) -> None:
    from bumble.device import CigParameters

    f, n = int(case['iso_length']), int(case['iso_count'])
    sender = int(case['sender'])
    sdus = [int(x) for x in case['sdus']]
    start_seq = case['start_seq']
    credit_delays = list(case['credit_delays']) or [0]
    loop = vloop.new_loop()
    state: dict = {'phase': 'setup'}
    data = [pattern(('s', k, ln), ln) for k, ln in enumerate(sdus)]

    def fail(sig, what):
        ctx.fail(sig, what, dict(case))

    nfrag = sum(1 + max(0, (ln - (f - 4) + f - 1) // f) for ln in sdus)

    async def main():
        geo = {'iso_data_packet_length': f, 'total_num_iso_data_packets': n}
        w = world.World(2, geometry=[geo, geo])
        recs = [Recorder(node) for node in w.nodes]
        await w.power_on()
        c0, _c1 = await w.connect_le(0, 1)
        futs = {}
        p_handles = []

        def on_request(cis_link):
            cis_link.acl_connection.cancel_on_disconnection(w[1].device.accept_cis_request(cis_link))
            futs[cis_link.handle] = loop.create_future()
            p_handles.append(cis_link.handle)

        w[1].device.on('cis_request', on_request)
        w[1].device.on('cis_establishment', lambda link: futs[link.handle].set_result(None))
        c_handles = await w[0].device.setup_cig(
            CigParameters(cig_id=1, cis_parameters=[CigParameters.CisParameters(cis_id=2)],
                          sdu_interval_c_to_p=0, sdu_interval_p_to_c=0)
        )
        await w[0].device.create_cis([(c_handles[0], c0)])
        await asyncio.gather(*futs.values())
        node = w[sender]
        handle = c_handles[0] if sender == 0 else p_handles[0]
        if handle not in node.host.cis_links:
            raise HarnessError('CIS handle not known to the sending host')
        if start_seq is not None:
            node.host.cis_links[handle].packet_sequence_number = int(start_seq)
        first_seq = node.host.cis_links[handle].packet_sequence_number
        rec = recs[sender]
        k = [0]

        def give_credit(h):
            node.tap.to_host.on_packet(
                b'\x04\x13\x05\x01' + struct.pack('<HH', h, 1)
            )

        def sink(direction, pkt):
            # the harness is the controller's ISO data sink: one credit back per packet
            if direction == H2C and pkt[0] == 5:
                d = credit_delays[k[0] % len(credit_delays)]
                k[0] += 1
                loop.call_later(d / 1000.0, give_credit, u16(pkt, 1) & 0xFFF)

        node.tap.listeners.append(sink)
        state.update(world=w, node=node, rec=rec, handle=handle, first_seq=first_seq, mark=len(rec.sent), phase='send')
        for sdu in data:
            node.host.send_iso_sdu(handle, sdu)
        idle = 0
        last = None
        t_end = loop.time() + 30.0 + 0.05 * nfrag
        while loop.time() < t_end and idle < 3:
            await asyncio.sleep(0.5)
            now = len(node.tap.log)
            idle = idle + 1 if now == last else 0
            last = now
        state['phase'] = 'done'

    outcome = None
    try:
        loop.complete(main(), horizon=2000.0)
    except (vloop.Stalled, vloop.HorizonExceeded) as e:
        outcome = type(e).__name__
    except vloop.BudgetExceeded:
        outcome = 'budget'
    except HarnessError:
        loop.shutdown()
        raise
    except Exception as e:  # noqa: BLE001
        if state['phase'] == 'setup':
            loop.shutdown()
            raise HarnessError(f'C05 iso set-up failed for {case!r}: {e!r}')
        outcome = f'raised:{site_of(e)}'

    try:
        labels = {'iso'}
        nontrivial = False
        for ln in sdus:
            if ln > f - 4:
                labels.add('iso_multi_fragment')
                nontrivial = True
            else:
                labels.add('iso_single_fragment')
            r = (ln - (f - 4)) % f
            if ln >= f - 5 and r in (0, 1, f - 1):
                labels.add('iso_boundary')
                nontrivial = True
        if f <= 8:
            labels.add('iso_tiny_F')
        if nfrag > n:
            labels.add('iso_credits_exhausted')
        if start_seq is not None and int(start_seq) + len(sdus) > 0xFFFF:
            labels.add('iso_seq_wrap')
        if outcome == 'budget':
            labels.add('iteration_budget_hit')
        elif outcome is not None:
            fail(f'iso/hang/{state["phase"]}/{outcome}', f'phase {state["phase"]}: {outcome}')
        else:
            analyse_iso(state, data, f, n, fail)
        ctx.case(('iso', f, n, sender, start_seq, credit_delays, sdus), nontrivial, labels,
                 sample={'iso_length': f, 'iso_count': n, 'sdus': sdus, 'start_seq': start_seq})
    finally:
        loop.shutdown()


def analyse_iso(state, data, f, n, fail) -> None:
    rec = state['rec']
    adv = advertised(state['node'].tap.log).get('iso')
    if adv is None:
        raise HarnessError('no LE Read Buffer Size [v2] answer seen on the tap')
    if adv != (f, n):
        raise HarnessError(f'controller advertised ISO {adv}, geometry was {(f, n)}')
    handle = state['handle']
    seq = state['first_seq']
    k = 0  # SDU index
    off = None  # None = expecting the first fragment of SDU k
    for pkt in rec.data_packets(5, state['mark']):
        if len(pkt) < 5:
            fail('iso/short_packet', f'ISO packet of {len(pkt)} bytes')
            return
        hdr = u16(pkt, 1)
        h, pb, ts = hdr & 0xFFF, (hdr >> 12) & 3, (hdr >> 14) & 1
        dlen = u16(pkt, 3) & 0x3FFF
        rest = pkt[5:]
        if h != handle:
            fail('iso/unknown_handle', f'ISO packet for handle 0x{h:04X}, CIS handle is 0x{handle:04X}')
            return
        if dlen != len(rest):
            fail('iso/length_field', f'ISO_Data_Load_Length {dlen} but {len(rest)} bytes follow')
            return
        if dlen > f:
            fail('iso/too_long', f'ISO data load of {dlen} bytes, controller advertised {f}')
            return
        if k >= len(data):
            fail('iso/concat', 'more ISO data emitted than the SDUs that were sent')
            return
        sdu = data[k]
        if off is None:
            if pb not in (0b00, 0b10):
                fail('iso/pb_flag/first', f'first fragment of an SDU carries PB={pb:02b}')
                return
            p = 0
            if ts:
                p += 4
            if len(rest) < p + 4:
                fail('iso/sdu_header', 'first fragment too short for the SDU header')
                return
            got_seq = u16(rest, p)
            sdu_len = u16(rest, p + 2) & 0xFFF
            frag = rest[p + 4 :]
            if sdu_len != len(sdu):
                fail('iso/sdu_length', f'ISO_SDU_Length {sdu_len} on the first fragment of a {len(sdu)}-byte SDU')
                return
            if got_seq != seq:
                fail('iso/sequence_number', f'SDU #{k} carries sequence number {got_seq}, expected {seq}')
                return
            complete = pb == 0b10
            off = 0
        else:
            if pb not in (0b01, 0b11):
                fail('iso/pb_flag/continuation', f'fragment at offset {off} of an SDU carries PB={pb:02b}')
                return
            if ts:
                fail('iso/ts_flag', 'time stamp flag on a continuation fragment')
                return
            frag = rest
            complete = pb == 0b11
        if frag != sdu[off : off + len(frag)] or off + len(frag) > len(sdu) or not frag:
            fail('iso/concat', f'fragment at offset {off} ({len(frag)} bytes) is not the next slice of the '
                               f'{len(sdu)}-byte SDU')
            return
        off += len(frag)
        if complete != (off == len(sdu)):
            fail('iso/pb_flag/last', f'PB={pb:02b} on a fragment that ends at offset {off} of a {len(sdu)}-byte SDU')
            return
        if complete:
            k += 1
            off = None
            seq = (seq + 1) & 0xFFFF
    if k != len(data) or off is not None:
        fail('iso/incomplete', f'only {k} of {len(data)} SDU(s) were completely handed to the controller at quiescence')
        return
    if rec.peak[5] > n:
        fail('iso/over_credit', f'{rec.peak[5]} ISO packets in flight, controller advertised {n}')


# ---------------------------------------------------------------------------
# raw / asm: malformed fragment sequences between well-formed PDUs
# ---------------------------------------------------------------------------
BAD_KINDS = ('cont_no_start', 'start_no_end', 'overflow', 'short_start')


def script_strategy(host_fragmented: bool):
    cid = st.integers(0x40, 0xFFFF)
    n = st.one_of(st.sampled_from([0, 1, 23, 24]), st.integers(0, 120))
    cuts = st.lists(st.integers(4, 130), max_size=4, unique=True).map(sorted)
    if host_fragmented:
        cuts = st.one_of(st.none(), cuts)
    pdu = st.tuples(st.just('pdu'), cid, n, cuts)
    bad = st.one_of(
        st.tuples(st.just('bad'), st.just('cont_no_start'), st.integers(1, 3), st.integers(0, 40), st.just(0)),
        st.tuples(st.just('bad'), st.just('start_no_end'), st.integers(1, 200), st.integers(0, 199), st.integers(0, 2)),
        st.tuples(st.just('bad'), st.just('overflow'), st.integers(0, 100), st.integers(0, 140), st.integers(1, 60)),
        st.tuples(st.just('bad'), st.just('short_start'), st.integers(0, 3), st.integers(0, 300), st.just(0)),
    )
    steps = st.lists(st.one_of(pdu, bad, bad), min_size=1, max_size=8)
    return st.tuples(steps, pdu).map(lambda t: [list(s) for s in t[0]] + [list(t[1])])


def raw_case_strategy():
    geo = st.tuples(st.sampled_from([27, 27, 9, 64, 251]), st.sampled_from([1, 1, 2, 3, 64]))
    return st.fixed_dictionaries({
        'kind': st.just('raw'), 'target': st.just('peer'), 'start_pb': st.just(0),
        'peer_geometry': geo.map(list), 'dut_geometry': geo.map(list),
        'script': script_strategy(True),
    })


def asm_case_strategy():
    return st.fixed_dictionaries({
        'kind': st.just('raw'), 'target': st.sampled_from(['asm', 'host']), 'start_pb': st.sampled_from([2, 2, 0]),
        'peer_geometry': st.just([27, 64]), 'dut_geometry': st.just([27, 64]),
        'script': script_strategy(False),
    })


def expand_script(script, start_pb: int):
    """-> list of items: ('host', cid, payload, step) | ('frag', pb, data, step, wellformed)."""
    items = []
    goods = []
    for si, step in enumerate(script):
        if step[0] == 'pdu':
            _k, cid, n, cuts = step
            payload = pattern(('g', si, cid, n), n)
            goods.append((si, (cid, payload)))
            if cuts is None:
                items.append(('host', cid, payload, si))
                continue
            pdu = frame(cid, payload)
            points = [0] + [c for c in cuts if 4 <= c < len(pdu)] + [len(pdu)]
            for a, b in zip(points, points[1:]):
                items.append(('frag', start_pb if a == 0 else 1, pdu[a:b], si, True))
        else:
            _k, kind, a, b, c = step
            junk = pattern(('j', si, kind, a, b, c), 600)
            jcid = 0x0666
            if kind == 'cont_no_start':
                for i in range(a):
                    items.append(('frag', 1, junk[i * b : (i + 1) * b], si, False))
            elif kind == 'start_no_end':
                length = a
                have = min(b, length - 1)
                items.append(('frag', start_pb, struct.pack('<HH', length, jcid) + junk[:have], si, False))
                room = length - have - 1  # bytes that may still follow without completing the PDU
                for i in range(c):
                    piece = room // (c - i) if c - i else 0
                    piece = min(piece, room)
                    items.append(('frag', 1, junk[200 + i * 50 : 200 + i * 50 + piece], si, False))
                    room -= piece
            elif kind == 'overflow':
                length = a
                if b > length:
                    items.append(('frag', start_pb, struct.pack('<HH', length, jcid) + junk[:b], si, False))
                else:
                    items.append(('frag', start_pb, struct.pack('<HH', length, jcid) + junk[:b], si, False))
                    if b == length:
                        # the start is a complete PDU by itself; make it one byte short instead
                        items[-1] = ('frag', start_pb, struct.pack('<HH', length + 1, jcid) + junk[:b], si, False)
                        items.append(('frag', 1, junk[300 : 300 + 1 + c], si, False))
                    else:
                        items.append(('frag', 1, junk[300 : 300 + (length - b) + c], si, False))
            elif kind == 'short_start':
                items.append(('frag', start_pb, struct.pack('<HH', b, jcid)[:a], si, False))
            else:
                raise HarnessError(f'unknown malformed kind {kind}')
    return items, goods


def reference_reassembly(frags):
    """By-the-book reassembler (harness model): what may legitimately be built from a fragment stream."""
    cur = None
    out = []
    for pb, data in frags:
        if pb in (0, 2):
            cur = bytes(data)
        elif pb == 1:
            if cur is None:
                continue
            cur += data
        else:
            continue
        if len(cur) >= 2:
            need = u16(cur, 0) + 4
            if len(cur) == need:
                out.append((u16(cur, 2), cur[4:]))
                cur = None
            elif len(cur) > need:
                cur = None
    return out


def run_raw_case(ctx, case) -> None:
    target = case['target']
    start_pb = int(case['start_pb'])
    script = [list(s) for s in case['script']]
    pg = tuple(case['peer_geometry'])
    dg = tuple(case['dut_geometry'])
    items, goods = expand_script(script, start_pb)
    delivered: list = []
    raised: list = []  # (item index, exception)
    loop = vloop.new_loop()
    state = {'phase': 'setup'}

    def fail(sig, what):
        ctx.fail(sig, what, dict(case))

    # model: fragments as they reach the assembler under test
    def model_frags(f_host: int):
        out = []
        for it in items:
            if it[0] == 'host':
                pdu = frame(it[1], it[2])
                for off in range(0, len(pdu), f_host):
                    out.append((0 if off == 0 else 1, pdu[off : off + f_host]))
            else:
                out.append((it[1], it[2]))
        return out

    outcome = None
    try:
        if target == 'asm':
            out: list = []
            asm = hci.HCI_AclDataPacketAssembler(out.append)
            for i, it in enumerate(items):
                pkt = hci.HCI_AclDataPacket(connection_handle=0x40, pb_flag=it[1], bc_flag=0,
                                            data_total_length=len(it[2]), data=it[2])
                try:
                    asm.feed_packet(pkt)
                except Exception as e:  # noqa: BLE001 - judged below
                    raised.append((i, e))
            for pdu in out:
                pdu = bytes(pdu)
                if len(pdu) < 4 or u16(pdu, 0) != len(pdu) - 4:
                    delivered.append((-1, pdu))
                else:
                    delivered.append((u16(pdu, 2), pdu[4:]))
        elif target == 'host':
            from bumble.host import DataPacketQueue, Host

            class Sink:
                def on_packet(self, packet):
                    pass

            host = Host()
            host.set_packet_sink(Sink())
            host.ready = True
            host.le_acl_packet_queue = DataPacketQueue(27, 64, host.send_hci_packet)
            host.acl_packet_queue = host.le_acl_packet_queue
            host.on_hci_le_connection_complete_event(
                hci.HCI_LE_Connection_Complete_Event(
                    status=0, connection_handle=0x40, role=0, peer_address_type=0,
                    peer_address=hci.Address('F0:F0:F0:F0:F0:F1'), connection_interval=6,
                    peripheral_latency=0, supervision_timeout=100, central_clock_accuracy=0,
                )
            )
            host.on('l2cap_pdu', lambda h, cid, p: delivered.append((cid if h == 0x40 else -2, bytes(p))))
            for i, it in enumerate(items):
                raw = struct.pack('<BHH', 2, 0x40 | (it[1] << 12), len(it[2])) + it[2]
                try:
                    host.on_packet(raw)
                except Exception as e:  # noqa: BLE001 - judged below
                    raised.append((i, e))
                loop.settle()
        else:
            async def main():
                w = world.World(1, geometry=[{'le_acl_data_packet_length': dg[0], 'total_num_le_acl_data_packets': dg[1]}])
                await w.power_on()
                peer = world.RawPeer(w, 9)
                peer.controller.le_acl_data_packet_length = pg[0]
                peer.controller.total_num_le_acl_data_packets = pg[1]
                await peer.start()
                conn = await peer.connect_to(w[0].device)
                await asyncio.sleep(1.0)
                w[0].host.on('l2cap_pdu', lambda h, cid, p: delivered.append((cid if h == conn.handle else -2, bytes(p))))
                queue = peer.host.connections[peer.handle].acl_packet_queue
                if queue.max_packet_size > pg[0]:
                    # the host fragments for a buffer larger than the one its controller advertised for this link
                    state['queue_geometry'] = (queue.max_packet_size, pg[0])
                    return
                state['f_host'] = queue.max_packet_size  # (smaller than advertised: fragments still fit; the model follows)
                state['phase'] = 'send'
                for it in items:
                    if it[0] == 'host':
                        peer.send(it[1], it[2])
                    else:
                        # through the host's flow-control queue, so that hand-made fragments keep their
                        # place between the fragments of the well-formed PDUs
                        queue.enqueue(
                            hci.HCI_AclDataPacket(connection_handle=peer.handle, pb_flag=it[1], bc_flag=0,
                                                  data_total_length=len(it[2]), data=it[2]),
                            peer.handle,
                        )
                idle = 0
                last = None
                t_end = loop.time() + 60.0
                while loop.time() < t_end and idle < 3:
                    await asyncio.sleep(0.5)
                    now = (len(peer.tap.log), len(w[0].tap.log))
                    idle = idle + 1 if now == last else 0
                    last = now
                state['phase'] = 'done'
                state['queue_pending'] = queue.pending

            try:
                loop.complete(main(), horizon=1000.0)
            except (vloop.Stalled, vloop.HorizonExceeded) as e:
                outcome = type(e).__name__
            except vloop.BudgetExceeded:
                outcome = 'budget'
            except HarnessError:
                raise
            except Exception as e:  # noqa: BLE001
                if state['phase'] == 'setup':
                    raise HarnessError(f'C05 raw set-up failed for {case!r}: {e!r}')
                outcome = f'raised:{site_of(e)}'
            for e in loop.errors:
                if e.get('exception') is not None:
                    raised.append((None, e['exception']))

        labels = {f'target:{target}'}
        bad_before_pdu = False
        pending_bad = False
        for step in script:
            if step[0] == 'bad':
                labels.add(f'mal:{step[1]}')
                if step[1] == 'short_start':
                    labels.add('mal:short_start_lt2' if step[2] < 2 else 'mal:short_start_2_3')
                pending_bad = True
            else:
                if pending_bad:
                    bad_before_pdu = True
                pending_bad = False
                if step[3] is None:
                    labels.add('host_fragmented_pdu')
                elif [c for c in step[3] if 4 <= c < step[2] + 4]:
                    labels.add('hand_cut_pdu')
        if raised:
            labels.add('exception_on_feed')
        if 'queue_geometry' in state:
            fail('frag/host_queue_geometry', f'the host fragments LE ACL data for packets of {state["queue_geometry"][0]} bytes, its '
                                             f'controller advertised an LE ACL data length of {state["queue_geometry"][1]}')
        elif outcome == 'budget':
            labels.add('iteration_budget_hit')
        elif outcome is not None:
            fail(f'malformed/hang/{target}/{outcome}', f'phase {state["phase"]}: {outcome}')
        else:
            judge_raw(script, items, goods, delivered, raised, model_frags(state.get('f_host', pg[0])), target, fail)
        ctx.case((target, start_pb, pg, dg, script), bad_before_pdu, labels,
                 sample={'target': target, 'script': script[:6]})
    finally:
        loop.shutdown()


def judge_raw(script, items, goods, delivered, raised, frags, target, fail) -> None:
    good_list = [g for _si, g in goods]
    reference = reference_reassembly(frags)
    # the generator must only produce scripts whose well-formed PDUs a by-the-book reassembler delivers
    ri = 0
    for g in good_list:
        while ri < len(reference) and reference[ri] != g:
            ri += 1
        if ri == len(reference):
            raise HarnessError(f'script generator: reference reassembly does not yield the well-formed PDUs: {script!r}')
        ri += 1
    allowed_extra = list(reference)
    for g in good_list:
        allowed_extra.remove(g)

    def bad_kinds_before(step_index: int) -> str:
        # the fault immediately before the PDU names the class (shrinking removes the others)
        j = step_index - 1
        if j < 0 or script[j][0] != 'bad':
            return 'no_fault'
        k = script[j][1]
        if k == 'short_start':
            k = 'short_start_lt2' if script[j][2] < 2 else 'short_start_2_3'
        return k

    def lost_cause(step_index: int) -> str:
        # root cause: the exception that escaped while the fragments were processed, else the fault kinds
        if raised:
            return site_of(raised[0][1])
        return bad_kinds_before(step_index)

    # exceptions while a well-formed fragment is fed
    for i, e in raised:
        if i is not None and items[i][0] == 'frag' and items[i][4]:
            fail(f'malformed/raises_on_wellformed/{target}/{site_of(e)}',
                 f'feeding a well-formed fragment of step {items[i][3]} raised {e!r}')
            return
    # walk what was delivered
    gi = 0
    extras = list(allowed_extra)
    for d in delivered:
        if gi < len(good_list) and d == good_list[gi]:
            gi += 1
            continue
        if d in extras:
            extras.remove(d)
            continue
        if d in good_list[:gi]:
            fail(f'malformed/duplicate/{target}', f'PDU cid=0x{d[0]:04X} ({len(d[1])} bytes) delivered twice')
            return
        if d in good_list[gi:]:
            # a later good PDU arrived while an earlier one is missing
            si = goods[gi][0]
            fail(f'malformed/next_pdu_lost/{target}/{lost_cause(si)}',
                 f'well-formed PDU of step {si} was not delivered (a later one was)')
            return
        si = goods[gi][0] if gi < len(goods) else len(script)
        fail(f'malformed/garbage_delivered/{target}/{bad_kinds_before(si)}',
             f'a PDU that was never sent was delivered: cid=0x{d[0] & 0xFFFF:04X}, {len(d[1])} bytes, before step {si}')
        return
    if gi < len(good_list):
        si = goods[gi][0]
        exc = f'; escaped: {raised[0][1]!r} at {site_of(raised[0][1])}' if raised else ''
        fail(f'malformed/next_pdu_lost/{target}/{lost_cause(si)}',
             f'well-formed PDU of step {si} ({len(good_list[gi][1])} bytes) after [{bad_kinds_before(si)}] '
             f'was never delivered{exc}')


# ---------------------------------------------------------------------------
def fixed_top_cases():
    """The fixed handful of 655xx-byte cases run in every tier."""
    out = []
    for classic, f, n in ((False, 251, 3), (True, 1021, 2), (False, 65535, 1), (True, 27, 64)):
        kind = 'classic' if classic else 'le'
        lens = TOP if f != 27 else (65531, 65535)
        out.append({'kind': 'pdus', 'classic': classic, 'nodes': 2, 'geometry': [[kind, f, n], [kind, 27, 64]],
                    'delays': [[], []],
                    'sends': [[0, 1, 0x40 + i, ln, 0] for i, ln in enumerate(lens)]})
    out.append({'kind': 'pdus', 'classic': False, 'nodes': 2, 'geometry': [['le', 8, 1], ['le', 5, 2]],
                'delays': [[], []], 'sends': [[0, 1, 0x40, 65535, 0], [1, 0, 0x41, 4, 0]]})
    return out


OVER_65535_PROBE = {'kind': 'pdus', 'classic': False, 'nodes': 2, 'geometry': [['le', 1021, 2], ['le', 251, 3]],
                    'delays': [[], []], 'sends': [[0, 1, 0x40, 65531, 0], [0, 1, 0x41, 65532, 0]]}


def run(ctx) -> None:
    vloop.selftest()
    # Medium probe (every shard): can a PDU longer than 65535 bytes cross the virtual link at all?
    # If not, that failure is recorded once here (VIOLATION or KNOWN-FINDING by its signature) and the
    # generated cases stay at payloads <= 65531 so that the search continues behind it.
    run_pdus_case(ctx, OVER_65535_PROBE)
    broken = any(sig.startswith('deliver/lost/pdu_over_65535/') for sig in ctx.failures)
    if ctx.shard == 0 and not broken:
        for case in fixed_top_cases():
            run_pdus_case(ctx, case)

    def run_pdus(case):
        if broken and any(s[3] > 65531 for s in case['sends']):
            case = dict(case, sends=[[s[0], s[1], s[2], min(s[3], 65531), s[4]] for s in case['sends']])
            ctx.exclude('payload 65532..65535 (L2CAP PDU longer than 65535 bytes) clipped to 65531')
        run_pdus_case(ctx, case)

    quick = ctx.quick
    ctx.hyp('pdus', run_pdus,
            pdus_case(cap=4096 if quick else 65535, budget=1200 if quick else 12000, top=not quick),
            max_examples=ctx.n(600, 16000))
    ctx.hyp('iso', lambda c: run_iso_case(ctx, c), iso_case(), max_examples=ctx.n(500, 24000))
    ctx.hyp('raw', lambda c: run_raw_case(ctx, c), raw_case_strategy(), max_examples=ctx.n(500, 24000))
    ctx.hyp('asm', lambda c: run_raw_case(ctx, c), asm_case_strategy(), max_examples=ctx.n(3000, 160000))
    for label, n in (
        ('multi_fragment', 50), ('boundary_-1', 20), ('boundary_0', 20), ('boundary_+1', 20), ('len_0', 5),
        ('len_1', 5), ('classic', 30), ('le', 30), ('le_shared_buffers', 5), ('tiny_F', 20), ('count_1', 20),
        ('credits_exhausted', 30), ('both_directions', 30), ('delayed', 30), ('three_nodes', 10),
        ('iso_multi_fragment', 50), ('iso_boundary', 30), ('iso_seq_wrap', 10), ('iso_credits_exhausted', 20),
        ('mal:cont_no_start', 50), ('mal:start_no_end', 50), ('mal:overflow', 50), ('mal:short_start_lt2', 20),
        ('mal:short_start_2_3', 20), ('target:peer', 50), ('target:asm', 50), ('target:host', 50),
        ('host_fragmented_pdu', 20), ('hand_cut_pdu', 20),
    ):
        ctx.floor(label, n)
    ctx.floor('len_top', 1)
    if ctx.shard == 0 and not broken:
        ctx.floor('len_top', 3)
        ctx.floor('pdu_over_65535', 3)


def replay(ctx, case) -> None:
    kind = case['kind']
    if kind == 'pdus':
        run_pdus_case(ctx, case)
    elif kind == 'iso':
        run_iso_case(ctx, case)
    elif kind == 'raw':
        run_raw_case(ctx, case)
    else:
        raise ValueError(kind)
