"""
C05 - L2CAP PDUs of any size cross the ACL link intact for any buffer geometry.

Four harnesses, all on the virtual-time loop:

* pdus : World of 2..3 full devices (LE or BR/EDR) with generated controller buffer geometry on
         every node; generated sequences of `host.send_l2cap_pdu` in both directions; the
         receiver's Host 'l2cap_pdu' events are compared with what was sent, the sender's
         host->controller HCI stream is checked fragment by fragment.
* iso  : a CIS set up through the real commands (as tests/device_test.py::test_cis), generated
         ISO buffer geometry, `host.send_iso_sdu`; the harness plays the ISO data sink of the
         controller (returns credits) and checks every ISO fragment on the HCI stream.
* raw  : a RawPeer sends well-formed PDUs (host-fragmented or hand-cut) with malformed fragment
         sequences in between; the device under test must receive exactly the well-formed PDUs.
* asm  : the same scripts fed directly to hci.HCI_AclDataPacketAssembler / to a bare Host.
* mux  : a bare Host with 2..3 connections (LE and BR/EDR): the fragment streams of the connections, each a
         raw/asm script, are interleaved fragment by fragment, with a stream for a handle that is no
         connection in between; connections are replaced (Disconnection Complete + Connection Complete for
         the same handle) in the middle of a PDU. Every connection is judged by itself.

The pdus harness also runs histories: a link is dropped (by either side; while fragments are queued in the
host, in the controller's assembler, or at quiescence) and set up again - the controller hands out the same
handle - and PDUs follow on the new connection; and dual-mode worlds in which node 0 has an LE link and a
BR/EDR link at the same time (two buffer pools of different geometry, or one shared pool). The iso harness
also runs two CIS of one CIG (one buffer pool, one sequence counter per CIS).
"""

from __future__ import annotations

import asyncio
import hashlib
import struct

from hypothesis import strategies as st

from bumble import hci
from vlib import vloop, world
from vlib.runner import HarnessError

PROPERTY = 'C05'
LEVEL = 'exploration'
RULE = (
    'pdus: worlds of 2..3 devices (LE, LE sharing the BR/EDR buffers, BR/EDR) with per-node ACL data '
    'length F in {5..9, 27, 251, 1021, 65535, random} and packet count in {1,2,3,64,random}, order-preserving '
    'HCI delays, 1..6 PDUs in both directions with payload lengths biased to k*F-4+{-1,0,+1}, 0..3 and '
    '65531..65535; non-trivial = some PDU needs >=2 fragments or has length+4 = -1,0,+1 mod F. '
    'iso: ISO data length in {5..8,12,16,64,251,960,4095,random} x count x SDU length sequences (1..4095, biased '
    'to the fragment boundaries) x starting sequence number (wrap); non-trivial = >=2 fragments or boundary. '
    'raw/asm: scripts of well-formed PDUs (host-fragmented or cut at generated offsets) and malformed '
    'sequences (continuation without start, start without end, data beyond the announced length, start '
    'shorter than 4 bytes) through a RawPeer, the bare assembler and a bare Host; non-trivial = a malformed '
    'sequence precedes a well-formed PDU. distinct by (geometry, transport, length/step sequence). '
    'reconnect: pdus worlds with small buffer counts in which a link is dropped once or twice (by the central or the '
    'peripheral; right after the sends, 3 ms later, or at quiescence) with a PDU of more fragments than buffers under '
    'way, set up again (same handle) and used again in one or both directions; what arrived of the cut PDUs must be '
    'intact, once, in order and on the old connection only, the emitted fragments a prefix of the fragment stream; '
    'everything sent afterwards is judged as usual; non-trivial = a PDU on a re-established link. '
    'mixed: 3 nodes, node 0 with an LE link to one peer and a BR/EDR link to the other, its controller with two '
    'different generated geometries (fragments judged against the length, in-flight packets against the count of the '
    'pool of their link) or one shared pool; both links loaded at once; one case in three also drops a link. '
    'iso2: two CIS in the CIG, SDUs dealt to the two links by a generated pattern, independent start sequence '
    'numbers, fragments judged per CIS handle, in-flight packets against the one ISO pool. '
    'mux: bare Host, 2..3 connections + optionally an unknown handle, one asm script per connection, merged by a '
    'generated order; steps may replace the connection; non-trivial = a fragment of another connection falls '
    'between two fragments of a well-formed PDU.'
)
ASSUMPTIONS = [
    'ACL data lengths below 5 and ISO data lengths below 5 are not generated (a start fragment could not hold '
    'the L2CAP basic header / ISO lengths start at 5 in the Core specification); LE packet counts <= 255',
    'PB flag of a first host->controller fragment may be 0b00 or 0b10',
    'the virtual controller does not consume ISO data, so the harness returns the ISO credits '
    '(Number Of Completed Packets for the CIS handle) itself; the first ISO sequence number is set by writing '
    'IsoLink.packet_sequence_number to reach the 16-bit wrap',
    'a malformed fragment may raise inside the assembler; only its after-effects are judged. A PDU that a '
    'by-the-book reassembler would legitimately build from the injected fragments may be delivered or not',
    'ISO SDU lengths 1..4095 only (0 emits no fragment, the length field has 12 bits)',
    'delivery is decided at quiescence of the HCI taps within a virtual-time limit proportional to the number '
    'of fragments',
    'a PDU that is under way when its link is dropped may be lost (the statement speaks of PDUs sent on a connection; '
    'the link is gone); PDUs sent before a disconnection that is issued at quiescence must all have arrived. The link is '
    'set up again only after the HCI taps are quiet, so that no packet of the old connection is still travelling to a '
    'controller that has already given the handle to the new one (that race exists on real HCI transports and is not '
    'what is judged here)',
    'packets in flight on a handle stop counting against the controller buffers when the Disconnection Complete event '
    'for that handle reaches the host (Core Vol 4 Part E 4.3)',
    'mux: fragments for a handle that is no connection of the host must not surface anywhere; a connection that is '
    'replaced starts with an empty reassembly buffer (a continuation first on the new connection completes nothing)',
]
SHRINK_KEYS = ('sends', 'sdus', 'script', 'cuts', 'order')

H2C, C2H = world.H2C, world.C2H
TOP = (65531, 65532, 65533, 65534, 65535)


# ---------------------------------------------------------------------------
# helpers (harness-side encoders/decoders, independent of bumble's)
# ---------------------------------------------------------------------------
def u16(b: bytes, off: int) -> int:
    return b[off] | (b[off + 1] << 8)


def pattern(tag, n: int) -> bytes:
    """Deterministic, aperiodic payload of n bytes."""
    if n == 0:
        return b''
    return hashlib.shake_128(repr(tag).encode()).digest(n)


def frame(cid: int, payload: bytes) -> bytes:
    return struct.pack('<HH', len(payload), cid) + payload


def site_of(exc) -> str:
    tb = exc.__traceback__
    site = '?'
    while tb is not None:
        fn = tb.tb_frame.f_code.co_filename
        if '/bumble/' in fn:
            site = f'{fn.split("/bumble/")[-1]}:{tb.tb_frame.f_code.co_name}'
        tb = tb.tb_next
    return f'{site}:{type(exc).__name__}'


def advertised(log) -> dict:
    """Buffer geometry the controller returned, read from the tapped Command Complete events."""
    out = {}
    for _t, d, p in log:
        if d != C2H or len(p) < 7 or p[0] != 0x04 or p[1] != 0x0E:
            continue
        op = u16(p, 4)
        rp = p[6:]
        if not rp or rp[0] != 0:
            continue
        if op == hci.HCI_READ_BUFFER_SIZE_COMMAND and len(rp) >= 8:
            out['acl'] = (u16(rp, 1), u16(rp, 4))
        elif op == hci.HCI_LE_READ_BUFFER_SIZE_COMMAND and len(rp) >= 4:
            out['le'] = (u16(rp, 1), rp[3])
        elif op == hci.HCI_LE_READ_BUFFER_SIZE_V2_COMMAND and len(rp) >= 7:
            out['le'] = (u16(rp, 1), rp[3])
            out['iso'] = (u16(rp, 4), rp[6])
    return out


def acl_geometry(adv: dict, classic: bool):
    if not classic and adv.get('le') and adv['le'][0] and adv['le'][1]:
        return adv['le']
    return adv.get('acl')


def make_order_preserving(tap) -> None:
    """vlib.world.Tap schedules one timer per packet; two timers for the same instant are not
    guaranteed to fire in scheduling order (heap of equal keys), which would let the tap itself
    reorder packets. Keep a FIFO per direction: every timer delivers the oldest undelivered packet."""
    import collections

    queues = {H2C: collections.deque(), C2H: collections.deque()}

    def pump(direction):
        tap._deliver(direction, queues[direction].popleft())

    def forward(direction, packet):
        now = tap.loop.time()
        d = next(tap._delays[direction]) * tap.unit
        when = max(tap._last[direction], now + d)
        tap._last[direction] = when
        queues[direction].append(packet)
        if when <= now:
            tap.loop.call_soon(pump, direction)
        else:
            tap.loop.call_at(when, pump, direction)

    tap._forward = forward


class Recorder:
    """Sits between a Host and its tap: records what the host emits, in emission order, and keeps
    the number of data packets handed to the controller and not yet reported complete."""

    def __init__(self, node_or_peer):
        make_order_preserving(node_or_peer.tap)
        self.down = node_or_peer.tap.to_controller
        self.sent: list[bytes] = []
        self.inflight: dict[tuple[int, int], int] = {}  # (packet type, handle) -> count
        self.peak = {2: 0, 5: 0}
        self.pool_of: dict[int, str] = {}  # ACL handle -> name of the controller buffer pool it draws from
        self.peak_pool: dict[str, int] = {}
        node_or_peer.host.set_packet_sink(self)
        node_or_peer.tap.listeners.append(self._listen)

    def on_packet(self, packet) -> None:
        packet = bytes(packet)
        self.sent.append(packet)
        if packet[0] in (2, 5) and len(packet) >= 3:
            key = (packet[0], u16(packet, 1) & 0xFFF)
            self.inflight[key] = self.inflight.get(key, 0) + 1
            total = sum(v for (t, _h), v in self.inflight.items() if t == packet[0])
            self.peak[packet[0]] = max(self.peak[packet[0]], total)
            if packet[0] == 2 and key[1] in self.pool_of:
                pool = self.pool_of[key[1]]
                total = sum(v for (t, h), v in self.inflight.items() if t == 2 and self.pool_of.get(h) == pool)
                self.peak_pool[pool] = max(self.peak_pool.get(pool, 0), total)
        self.down.on_packet(packet)

    def _listen(self, direction, p) -> None:
        if direction == C2H and len(p) >= 7 and p[0] == 0x04 and p[1] == hci.HCI_DISCONNECTION_COMPLETE_EVENT and p[3] == 0:
            # the link is gone: its packets are no longer in the controller's buffers (Core Vol 4 Part E 4.3)
            handle = u16(p, 4) & 0xFFF
            for t in (2, 5):
                self.inflight.pop((t, handle), None)
            return
        if direction != C2H or len(p) < 4 or p[0] != 0x04 or p[1] != hci.HCI_NUMBER_OF_COMPLETED_PACKETS_EVENT:
            return
        n = p[3]
        if n == 1 and len(p) >= 8:
            pairs = [(u16(p, 4), u16(p, 6))]
        else:
            ev = hci.HCI_Packet.from_bytes(p)
            pairs = list(zip(ev.connection_handles, ev.num_completed_packets))
        for handle, count in pairs:
            for t in (2, 5):
                if (t, handle) in self.inflight:
                    self.inflight[(t, handle)] = max(0, self.inflight[(t, handle)] - count)

    def data_packets(self, ptype: int, start: int = 0):
        return [p for p in self.sent[start:] if p[0] == ptype]


def compare_delivery(expected, delivered):
    """expected/delivered: lists of (cid, payload), expected entries unique.
    Returns None when equal, else (kind, text)."""
    if delivered == expected:
        return None
    index = {e: i for i, e in enumerate(expected)}
    foreign = [d for d in delivered if d not in index]
    if foreign:
        cid, payload = foreign[0]
        near = [e for e in expected if e[0] == cid]
        hint = ''
        if near:
            hint = f' (sent on that CID: {len(near[0][1])} bytes)'
        return 'corrupt', f'received a PDU that was never sent: cid=0x{cid:04X}, {len(payload)} bytes{hint}'
    seen = set()
    for d in delivered:
        if d in seen:
            return 'duplicate', f'PDU cid=0x{d[0]:04X} ({len(d[1])} bytes) delivered more than once'
        seen.add(d)
    order = [index[d] for d in delivered]
    if order != sorted(order):
        return 'order', f'PDUs delivered in order {order}, sent in order {sorted(order)}'
    missing = [e for e in expected if e not in seen]
    size = 'pdu_over_65535' if all(len(m[1]) + 4 > 65535 for m in missing) else 'any_size'
    return f'lost/{size}', (
        f'{len(missing)} of {len(expected)} PDU(s) never delivered; first missing: cid=0x{missing[0][0]:04X}, '
        f'payload {len(missing[0][1])} bytes'
    )


# ---------------------------------------------------------------------------
# pdus: full devices, generated geometry
# ---------------------------------------------------------------------------
F_VALUES = [5, 6, 7, 8, 9, 27, 27, 251, 1021, 65535]


def geometry_strategy(classic: bool):
    f = st.one_of(st.sampled_from(F_VALUES), st.integers(5, 300), st.integers(5, 65535))
    n = st.one_of(st.sampled_from([1, 1, 2, 3, 64]), st.integers(1, 255))
    if classic:
        return st.tuples(f, n).map(lambda t: ('classic', t[0], t[1]))
    return st.tuples(f, n, st.integers(0, 7)).map(lambda t: ('le_shared' if t[2] == 0 else 'le', t[0], t[1]))


def geometry_dict(g) -> dict:
    if g[0] == 'dual':
        # dual-mode controller with dedicated LE buffers: both geometries generated
        return {'le_acl_data_packet_length': g[1], 'total_num_le_acl_data_packets': g[2],
                'acl_data_packet_length': g[3], 'total_num_acl_data_packets': g[4]}
    kind, f, n = g
    if kind == 'classic':
        return {'acl_data_packet_length': f, 'total_num_acl_data_packets': n}
    if kind == 'le_shared':
        return {'le_acl_data_packet_length': 0, 'total_num_le_acl_data_packets': 0,
                'acl_data_packet_length': f, 'total_num_acl_data_packets': n}
    return {'le_acl_data_packet_length': f, 'total_num_le_acl_data_packets': n}


def link_geometry(g, classic_link: bool):
    """(ACL data length, packet count, pool name) that node geometry g gives a link of one transport."""
    kind = g[0]
    if kind == 'dual':
        return (g[3], g[4], 'acl') if classic_link else (g[1], g[2], 'le')
    if kind == 'le_shared':
        return (g[1], g[2], 'shared')
    if kind == 'classic':
        return (g[1], g[2], 'acl') if classic_link else (27, 64, 'le')
    return (27, 64, 'acl') if classic_link else (g[1], g[2], 'le')


def link_transports(case) -> list:
    """True = BR/EDR for the link between node 0 and node 1, 2, ..."""
    nodes = int(case['nodes'])
    if case.get('links'):
        return [t == 'classic' for t in case['links']][: nodes - 1]
    return [bool(case['classic'])] * (nodes - 1)


def length_strategy(f: int, cap: int, top: bool):
    kmax = max(1, min(cap // f, 40))
    boundary = st.tuples(st.integers(1, kmax), st.sampled_from([-1, 0, 1])).map(
        lambda t: min(65535, max(0, t[0] * f - 4 + t[1]))
    )
    options = [boundary, boundary, boundary, st.sampled_from([0, 1, 2, 3]), st.integers(0, cap)]
    if top:
        options.append(st.sampled_from(TOP))
    return st.one_of(*options)


@st.composite
def pdus_case(draw, cap: int, budget: int, top: bool):
    classic = draw(st.sampled_from([False, False, True]))
    nodes = draw(st.sampled_from([2, 2, 2, 3]))
    geos = [draw(geometry_strategy(classic)) for _ in range(nodes)]
    delays = [draw(st.lists(st.sampled_from([0, 0, 0, 1, 7, 50]), min_size=0, max_size=4)) for _ in range(nodes)]
    pairs = [(0, 1), (1, 0)] + ([(0, 2), (2, 0)] if nodes == 3 else [])
    count = draw(st.integers(1, 6))
    sends = []
    used = set()
    frags = 0
    for _ in range(count):
        src, dst = draw(st.sampled_from(pairs))
        f = geos[src][1]
        n = draw(length_strategy(f, cap, top))
        # fragment budget of a case (cost), never changes the class of a length
        room = max(1, budget - frags)
        if (n + 4 + f - 1) // f > room:
            n = max(0, room * f - 4)
        frags += (n + 4 + f - 1) // f
        cid = draw(st.one_of(st.sampled_from([0x40, 0x41, 0x7F, 0x80, 0xFFFF]), st.integers(0x40, 0xFFFF)))
        while cid in used:
            cid = cid + 1 if cid < 0xFFFF else 0x40
        used.add(cid)
        gap = draw(st.sampled_from([0, 0, 0, 1, 20]))
        sends.append([src, dst, cid, n, gap])
    return {'kind': 'pdus', 'classic': classic, 'nodes': nodes, 'geometry': [list(g) for g in geos],
            'delays': delays, 'sends': sends}


# ---------------------------------------------------------------------------
# pdus histories: links that are dropped and set up again (the controller hands out the same handle), and
# dual-mode nodes that run an LE and a BR/EDR link at the same time (two buffer pools, or one shared pool)
# ---------------------------------------------------------------------------
def hist_geometry(draw, classic_link: bool, shared_ok: bool = True):
    f = draw(st.one_of(st.sampled_from([5, 7, 9, 27, 27, 64, 251]), st.integers(5, 300)))
    n = draw(st.sampled_from([1, 1, 2, 3, 3, 5, 64]))
    if classic_link:
        return ('classic', f, n)
    return ('le_shared' if shared_ok and draw(st.integers(0, 5)) == 0 else 'le', f, n)


@st.composite
def history_case(draw, mixed: bool, cap: int, budget: int):
    if mixed:
        classic, nodes = True, 3
        links = draw(st.sampled_from([['le', 'classic'], ['classic', 'le']]))
        transports = [t == 'classic' for t in links]
        n_cuts = draw(st.sampled_from([0, 0, 1]))
    else:
        classic = draw(st.sampled_from([False, False, True]))
        nodes = draw(st.sampled_from([2, 2, 3]))
        links = None
        transports = [classic] * (nodes - 1)
        n_cuts = draw(st.sampled_from([1, 1, 1, 2]))
    geos = []
    for i in range(nodes):
        if mixed and i == 0:
            if draw(st.integers(0, 3)) == 0:
                g = hist_geometry(draw, True)
                geos.append(('le_shared', g[1], g[2]))  # one pool for both transports
            else:
                le = hist_geometry(draw, False, shared_ok=False)
                br = hist_geometry(draw, True)
                f_acl = br[1] if (br[1], br[2]) != (le[1], le[2]) else br[1] + 1
                geos.append(('dual', le[1], le[2], f_acl, br[2]))
        elif mixed:
            geos.append(hist_geometry(draw, transports[i - 1]))
        else:
            geos.append(hist_geometry(draw, classic))
    delays = [draw(st.lists(st.sampled_from([0, 0, 0, 1, 7, 50]), min_size=0, max_size=4)) for _ in range(nodes)]
    cuts = []
    for _ in range(n_cuts):
        peer = draw(st.integers(1, nodes - 1))
        cuts.append([peer, draw(st.sampled_from([0, peer])), draw(st.sampled_from(['now', 'now', 'now', 'gap', 'idle']))])
    pairs = [(0, 1), (1, 0)] + ([(0, 2), (2, 0)] if nodes == 3 else [])
    sends = []
    used = set()
    frags = 0

    def geo_of(src, dst):
        return link_geometry(geos[src], transports[max(src, dst) - 1])

    def add(src, dst, n, epoch):
        nonlocal frags
        f = geo_of(src, dst)[0]
        room = max(1, budget - frags)
        if (n + 4 + f - 1) // f > room:
            n = max(0, room * f - 4)
        frags += (n + 4 + f - 1) // f
        cid = draw(st.one_of(st.sampled_from([0x40, 0x41, 0x7F, 0x80, 0xFFFF]), st.integers(0x40, 0xFFFF)))
        while cid in used:
            cid = cid + 1 if cid < 0xFFFF else 0x40
        used.add(cid)
        sends.append([src, dst, cid, n, draw(st.sampled_from([0, 0, 0, 1, 20])), epoch])

    def long_length(src, dst):
        # more fragments than the controller has buffers: some are still waiting in the host when the link goes
        f, cnt, _pool = geo_of(src, dst)
        k = draw(st.integers(min(cnt, 8) + 1, min(cnt, 8) + 6))
        return min(cap, max(0, k * f - 4 + draw(st.sampled_from([-1, 0, 0, 1, -(f // 2)]))))

    for e in range(n_cuts + 1):
        forced = []
        if e > 0:
            # traffic on the link that was just set up again, in one or both directions
            p = cuts[e - 1][0]
            forced += draw(st.sampled_from([[(0, p)], [(p, 0)], [(0, p), (p, 0)]]))
        if e < n_cuts:
            # traffic that is under way when the link is dropped
            p = cuts[e][0]
            forced += draw(st.sampled_from([[(0, p)], [(p, 0)], [(0, p), (p, 0)]]))
        if mixed and e == 0:
            forced += [(0, 1), (0, 2)]  # both pools of node 0 busy at the same time
        for (src, dst) in forced:
            add(src, dst, long_length(src, dst), e)
        for _ in range(draw(st.integers(0, 3))):
            src, dst = draw(st.sampled_from(pairs))
            add(src, dst, draw(length_strategy(geo_of(src, dst)[0], cap, False)), e)
    case = {'kind': 'pdus', 'classic': classic, 'nodes': nodes, 'geometry': [list(g) for g in geos],
            'delays': delays, 'sends': sends, 'cuts': cuts}
    if links:
        case['links'] = links
    return case


def run_pdus_case(ctx, case) -> None:
    classic = bool(case['classic'])
    nodes = int(case['nodes'])
    geos = [tuple(g) for g in case['geometry']]
    delays = [list(d) for d in case['delays']]
    sends = [tuple(s) for s in case['sends']]  # (src, dst, cid, n, gap[, epoch])
    # histories: after the sends of epoch k the link 0-peer is dropped by node `who` and set up again
    cuts = []
    for peer, who, when in case.get('cuts', []):
        peer = min(max(1, int(peer)), nodes - 1)
        cuts.append((peer, 0 if int(who) == 0 else peer, when if when in ('now', 'gap', 'idle') else 'now'))
    n_epochs = len(cuts) + 1
    epoch_of = [min(int(s[5]), n_epochs - 1) if len(s) > 5 else 0 for s in sends]
    transports = link_transports(case)  # per peer: True = BR/EDR
    loop = vloop.new_loop()
    state: dict = {'phase': 'setup', 'epoch': 0, 'epochs': []}
    got: dict[int, list] = {i: [] for i in range(nodes)}

    def fail(sig, what):
        ctx.fail(sig, what, dict(case))

    def is_classic(a, b):
        return transports[max(a, b) - 1]

    def sender_geo(src, dst):
        return link_geometry(geos[src], is_classic(src, dst))

    payloads = [pattern(('p', k, s[2], s[3]), s[3]) for k, s in enumerate(sends)]
    total_frags = sum((len(p) + 4 + sender_geo(s[0], s[1])[0] - 1) // sender_geo(s[0], s[1])[0]
                      for p, s in zip(payloads, sends))
    limit = 30.0 + 0.25 * total_frags

    async def main():
        w = world.World(nodes, classic=classic, geometry=[geometry_dict(g) for g in geos],
                        delays=[d or [0] for d in delays])
        recs = [Recorder(node) for node in w.nodes]
        await w.power_on()
        handles = {}
        conns = {}

        async def connect(peer):
            if transports[peer - 1]:
                c0, cp = await w.connect_classic(0, peer)
            else:
                c0, cp = await w.connect_le(0, peer)
            handles[(0, peer)] = c0.handle
            handles[(peer, 0)] = cp.handle
            conns[(0, peer)] = c0
            conns[(peer, 0)] = cp
            recs[0].pool_of[c0.handle] = sender_geo(0, peer)[2]
            recs[peer].pool_of[cp.handle] = sender_geo(peer, 0)[2]

        async def quiesce():
            t_end = loop.time() + limit
            idle = 0
            last = None
            while loop.time() < t_end and idle < 3:
                await asyncio.sleep(0.5)
                now = tuple(len(n.tap.log) for n in w.nodes)
                idle = idle + 1 if now == last else 0
                last = now

        for peer in range(1, nodes):
            await connect(peer)
        await asyncio.sleep(1.0)
        for i, node in enumerate(w.nodes):
            node.host.on('l2cap_pdu', lambda h, cid, p, i=i: got[i].append((state['epoch'], h, cid, bytes(p))))
        state.update(world=w, recs=recs)
        for e in range(n_epochs):
            ep = {'handles': dict(handles), 'marks': [len(r.sent) for r in recs]}
            state['epochs'].append(ep)
            state['phase'] = 'send'
            for k, (s, payload) in enumerate(zip(sends, payloads)):
                if epoch_of[k] != e:
                    continue
                w[s[0]].host.send_l2cap_pdu(handles[(s[0], s[1])], s[2], payload)
                if s[4]:
                    await asyncio.sleep(s[4] / 1000.0)
            if e < len(cuts):
                peer, who, when = cuts[e]
                if when == 'idle':
                    state['phase'] = 'deliver'
                    await quiesce()
                elif when == 'gap':
                    await asyncio.sleep(0.003)
                state['phase'] = 'cut'
                await conns[(who, peer if who == 0 else 0)].disconnect()
                # everything that was under way on the HCI transports is delivered before the link is set up
                # again: what is judged afterwards is state that survived, not a race
                await quiesce()
                ep['ends'] = [len(r.sent) for r in recs]
                state['epoch'] = e + 1
                state['phase'] = 'reconnect'
                before = (handles[(0, peer)], handles[(peer, 0)])
                await connect(peer)
                ep['same_handles'] = before == (handles[(0, peer)], handles[(peer, 0)])
                await asyncio.sleep(1.0)
            else:
                state['phase'] = 'deliver'
                await quiesce()
                ep['ends'] = [len(r.sent) for r in recs]
        state['phase'] = 'done'

    outcome = None
    try:
        loop.complete(main(), horizon=(limit + 100.0) * 2 * n_epochs + 600.0)
    except (vloop.Stalled, vloop.HorizonExceeded) as e:
        outcome = type(e).__name__
    except vloop.BudgetExceeded:
        outcome = 'budget'
    except Exception as e:  # noqa: BLE001
        if state['phase'] in ('setup', 'reconnect'):
            loop.shutdown()
            raise HarnessError(f'C05 pdus set-up ({state["phase"]}) failed for {case!r}: {e!r}')
        outcome = f'raised:{site_of(e)}'

    try:
        labels = set()
        if any(transports):
            labels.add('classic')
        if not all(transports):
            labels.add('le')
        if any(transports) and not all(transports):
            labels.add('mixed_transports')
        if nodes == 3:
            labels.add('three_nodes')
        if any(any(d) for d in delays):
            labels.add('delayed')
        nontrivial = False
        for k, s in enumerate(sends):
            src, dst, n = s[0], s[1], s[3]
            kind = geos[src][0]
            f, cnt, pool = sender_geo(src, dst)
            if kind == 'le_shared':
                labels.add('le_shared_buffers')
            if kind == 'dual' and 'mixed_transports' in labels:
                labels.add('mixed_dual_pools')
            if kind == 'le_shared' and 'mixed_transports' in labels:
                labels.add('mixed_shared_pool')
            if f <= 9:
                labels.add('tiny_F')
            if cnt == 1:
                labels.add('count_1')
            nfr = (n + 4 + f - 1) // f
            if nfr >= 2:
                labels.add('multi_fragment')
                nontrivial = True
            if nfr > cnt:
                labels.add('credits_exhausted')
            r = (n + 4) % f
            if r == f - 1:
                labels.add('boundary_-1')
                nontrivial = True
            elif r == 0:
                labels.add('boundary_0')
                nontrivial = True
            elif r == 1 and n + 4 > f:
                labels.add('boundary_+1')
                nontrivial = True
            if n == 0:
                labels.add('len_0')
            elif n == 1:
                labels.add('len_1')
            elif n >= 65531:
                labels.add('len_top')
            if n + 4 > 65535:
                labels.add('pdu_over_65535')
            # a PDU on a link that was dropped and set up again before
            again = [c for c in cuts[: epoch_of[k]] if c[0] == max(src, dst)]
            if again:
                labels.add('pdu_after_reconnect')
                nontrivial = True
                if nfr >= 2:
                    labels.add('reconnect_multi_fragment')
                if nfr > cnt:
                    labels.add('reconnect_credits_exhausted')
        if len({s[0] for s in sends}) >= 2:
            labels.add('both_directions')
        for peer, who, when in cuts:
            labels.add('reconnect')
            labels.add(f'cut:{when}')
            labels.add('cut_by_central' if who == 0 else 'cut_by_peripheral')
            if nodes == 3:
                labels.add('cut_while_other_link_up')
        if outcome == 'budget':
            labels.add('iteration_budget_hit')
        elif outcome is not None and state['phase'] == 'setup':
            fail(f'setup/{outcome}', f'power-on/connection did not complete for geometry {geos}: {outcome}')
        elif outcome is not None and state['phase'] == 'reconnect':
            fail(f'reconnect/{outcome}', f'the link could not be set up again after the disconnection: {outcome}')
        elif outcome is not None:
            fail(f'hang/{state["phase"]}/{outcome}', f'phase {state["phase"]}: {outcome}')
        else:
            analyse_pdus(ctx, case, state, sends, payloads, geos, transports, epoch_of, cuts, got, loop, fail, labels)
        ctx.case((classic, nodes, geos, delays, [tuple(s[:4]) + (epoch_of[k],) for k, s in enumerate(sends)],
                  cuts, case.get('links')), nontrivial, labels,
                 sample={'classic': classic, 'geometry': geos, 'lengths': [s[3] for s in sends],
                         **({'cuts': cuts} if cuts else {}), **({'links': case['links']} if case.get('links') else {})})
    finally:
        loop.shutdown()


def analyse_pdus(ctx, case, state, sends, payloads, geos, transports, epoch_of, cuts, got, loop, fail, labels) -> None:
    w = state['world']
    nodes = len(w.nodes)
    errors = [e['exception'] for e in loop.errors if e.get('exception') is not None]

    def is_classic(a, b):
        return transports[max(a, b) - 1]

    # ---- what every sending controller advertised for the links that are used
    pools: dict[int, dict[str, int]] = {}
    for i, node in enumerate(w.nodes):
        adv = None
        for s in sends:
            if s[0] != i:
                continue
            if adv is None:
                adv = advertised(node.tap.log)
            f, n, pool = link_geometry(geos[i], is_classic(s[0], s[1]))
            seen = acl_geometry(adv, is_classic(s[0], s[1]))
            if seen is None:
                raise HarnessError('no Read Buffer Size answer seen on the tap')
            if tuple(seen) != (f, n):
                raise HarnessError(f'controller advertised {seen}, geometry was {geos[i]}')
            pools.setdefault(i, {})[pool] = n
    # ---- fragments emitted by every sender, epoch by epoch
    for e, ep in enumerate(state['epochs']):
        hs = ep['handles']
        cut_links = set()
        if e < len(cuts) and cuts[e][2] != 'idle':
            cut_links = {(0, cuts[e][0]), (cuts[e][0], 0)}
        if ep.get('same_handles'):
            labels.add('reconnect_same_handle')
        for i in range(nodes):
            mine = [(s, p) for k, (s, p) in enumerate(zip(sends, payloads)) if s[0] == i and epoch_of[k] == e]
            earlier = any(s[0] == i and epoch_of[k] < e for k, s in enumerate(sends))
            if not mine and not earlier:
                continue
            expect: dict[int, list[bytes]] = {}
            f_of: dict[int, int] = {}
            for s, p in mine:
                h = hs[(s[0], s[1])]
                expect.setdefault(h, []).append(frame(s[2], p))
                f_of[h] = link_geometry(geos[i], is_classic(s[0], s[1]))[0]
            partial = {hs[k] for k in cut_links if k[0] == i}
            rec = state['recs'][i]
            packets = [p for p in rec.sent[ep['marks'][i] : ep['ends'][i]] if p[0] == 2]
            progress: dict = {}
            if not check_acl_fragments(packets, expect, f_of, fail, partial_ok=partial, progress=progress):
                return
            for h in partial & set(expect):
                k, off = progress[h]
                if off:
                    labels.add('cut_mid_pdu')
                if k < len(expect[h]):
                    labels.add('cut_with_queued_fragments')
    for i, by_pool in pools.items():
        rec = state['recs'][i]
        for pool, n_adv in by_pool.items():
            peak = rec.peak_pool.get(pool, 0)
            if len(by_pool) == 1:
                peak = max(peak, rec.peak[2])
            if peak > n_adv:
                fail('frag/over_credit', f'{peak} ACL packets in flight, controller advertised {n_adv}'
                                         + (f' for its {pool} buffers' if len(by_pool) > 1 else ''))
                return
    # ---- delivery, epoch by epoch
    for e, ep in enumerate(state['epochs']):
        hs = ep['handles']
        cut_links = set()
        if e < len(cuts) and cuts[e][2] != 'idle':
            cut_links = {(0, cuts[e][0]), (cuts[e][0], 0)}
        for (src, dst) in sorted(hs):
            on_link = [(k, (s[2], p)) for k, (s, p) in enumerate(zip(sends, payloads)) if (s[0], s[1]) == (src, dst)]
            expected = [x for k, x in on_link if epoch_of[k] == e]
            before = [x for k, x in on_link if epoch_of[k] < e]
            h = hs[(dst, src)]
            delivered = [(cid, p) for (ee, hh, cid, p) in got[dst] if ee == e and hh == h]
            own = [hs[k] for k in hs if k[0] == dst]
            stray = [x for x in got[dst] if x[0] == e and x[1] not in own]
            if stray:
                fail('deliver/wrong_handle', f'PDU delivered on handle 0x{stray[0][1]:04X} which is no connection of node {dst}')
                return
            stale = [d for d in delivered if d in before and d not in expected]
            if stale:
                fail('deliver/stale_after_reconnect',
                     f'PDU cid=0x{stale[0][0]:04X} ({len(stale[0][1])} bytes) sent on the connection that was dropped '
                     f'was delivered on the connection that replaced it')
                return
            verdict = compare_delivery(expected, delivered)
            if verdict is not None and verdict[0].startswith('lost/') and (src, dst) in cut_links:
                # the link was dropped while these PDUs were under way: what arrived is intact, once and in
                # order (checked above by compare_delivery), the rest went with the link
                labels.add('cut_lost_pdus')
                verdict = None
            if verdict is None:
                continue
            kind, text = verdict
            where = f' (after {e} reconnection(s))' if e else ''
            if kind.startswith('lost/'):
                cause = site_of(errors[0]) if errors else 'silent'
                fail(f'deliver/{kind}/{cause}', f'{text}{where}; {("escaped exception: " + repr(errors[0])) if errors else "no exception"}')
            else:
                fail(f'deliver/{kind}', text + where)
            return


def check_acl_fragments(packets, expect: dict, f_adv, fail, partial_ok=(), progress=None) -> bool:
    """packets: host->controller ACL packets in emission order; expect: handle -> [l2cap frames];
    f_adv: advertised ACL data length (int, or handle -> int); partial_ok: handles of a link that was cut
    (what was emitted must be a prefix of the fragment stream, the rest may be missing);
    progress: dict filled with handle -> [PDU index, offset] reached."""
    pos = {h: [0, 0] for h in expect}
    if progress is not None:
        progress.update(pos)
    for pkt in packets:
        if len(pkt) < 5:
            fail('frag/short_packet', f'ACL packet of {len(pkt)} bytes')
            return False
        hdr = u16(pkt, 1)
        handle, pb, bc = hdr & 0xFFF, (hdr >> 12) & 3, hdr >> 14
        dlen = u16(pkt, 3)
        data = pkt[5:]
        if handle not in expect:
            fail('frag/unknown_handle', f'ACL packet for handle 0x{handle:04X} on which nothing was sent')
            return False
        if dlen != len(data):
            fail('frag/length_field', f'Data_Total_Length {dlen} but {len(data)} bytes follow')
            return False
        f_max = f_adv[handle] if isinstance(f_adv, dict) else f_adv
        if len(data) > f_max:
            fail('frag/too_long', f'ACL fragment of {len(data)} bytes, controller advertised {f_max}')
            return False
        k, off = pos[handle]
        if k >= len(expect[handle]):
            fail('frag/concat', 'more ACL data emitted than the PDUs that were sent')
            return False
        pdu = expect[handle][k]
        if off == 0 and pb not in (0, 2):
            fail('frag/pb_flag/first', f'first fragment of a PDU carries PB={pb}')
            return False
        if off > 0 and pb != 1:
            fail('frag/pb_flag/continuation', f'fragment at offset {off} of a PDU carries PB={pb}')
            return False
        if bc != 0:
            fail('frag/bc_flag', f'BC flag {bc} on a point-to-point fragment')
            return False
        if not data or data != pdu[off : off + len(data)] or off + len(data) > len(pdu):
            fail('frag/concat', f'fragment at offset {off} ({len(data)} bytes) is not the next slice of the '
                                f'{len(pdu)}-byte PDU (L2CAP header + payload)')
            return False
        off += len(data)
        if off == len(pdu):
            pos[handle] = [k + 1, 0]
        else:
            pos[handle] = [k, off]
        if progress is not None:
            progress[handle] = pos[handle]
    for handle, (k, off) in pos.items():
        if handle in partial_ok:
            continue
        if k != len(expect[handle]) or off:
            fail('frag/incomplete', f'only {k} of {len(expect[handle])} PDU(s) were completely handed to the '
                                    f'controller at quiescence (next one stopped at offset {off})')
            return False
    return True


# ---------------------------------------------------------------------------
# iso
# ---------------------------------------------------------------------------
ISO_F = [5, 6, 7, 8, 12, 16, 64, 251, 960, 4095]


@st.composite
def iso_case(draw):
    f = draw(st.one_of(st.sampled_from(ISO_F), st.integers(5, 4095), st.integers(5, 64)))
    n = draw(st.one_of(st.sampled_from([1, 2, 3, 64]), st.integers(1, 255)))
    kmax = max(1, min(4095 // f, 30))
    boundary = st.tuples(st.integers(0, kmax), st.sampled_from([-1, 0, 1])).map(
        lambda t: min(4095, max(1, f - 4 + t[0] * f + t[1]))
    )
    length = st.one_of(boundary, boundary, st.sampled_from([1, 2, 4095]), st.integers(1, 4095), st.integers(1, 64))
    return {
        'kind': 'iso', 'iso_length': f, 'iso_count': n,
        'sender': draw(st.sampled_from([0, 0, 1])),
        'start_seq': draw(st.sampled_from([None, None, 0xFFFF, 0xFFFE, 0xFFFD, 0x7FFF, 0x00FF])),
        'credit_delays': draw(st.lists(st.sampled_from([0, 0, 1, 5]), min_size=0, max_size=3)),
        'sdus': draw(st.lists(length, min_size=1, max_size=6)),
    }


@st.composite
def iso_two_links_case(draw):
    """Two CIS of one CIG: one ISO buffer pool, one sequence counter per CIS."""
    case = draw(iso_case())
    case['cis'] = 2
    case['sdus'] = case['sdus'] + draw(st.lists(st.sampled_from(case['sdus'] + [1, 2 * case['iso_length']]), min_size=1, max_size=3))
    case['sdus'] = [min(4095, x) for x in case['sdus']]
    case['sdu_links'] = draw(st.lists(st.sampled_from([0, 1]), min_size=2, max_size=6).filter(lambda x: len(set(x)) == 2))
    case['start_seq2'] = draw(st.sampled_from([None, None, 0xFFFF, 0xFFFE, 0x0100]))
    return case


def run_iso_case(ctx, case) -> None:
    from bumble.device import CigParameters

    f, n = int(case['iso_length']), int(case['iso_count'])
    sender = int(case['sender'])
    sdus = [int(x) for x in case['sdus']]
    start_seq = case['start_seq']
    credit_delays = list(case['credit_delays']) or [0]
    n_cis = 2 if int(case.get('cis', 1)) == 2 else 1
    sdu_links = [int(x) % n_cis for x in (case.get('sdu_links') or [0])]
    link_of = [sdu_links[k % len(sdu_links)] for k in range(len(sdus))]  # SDU k goes out on CIS link_of[k]
    start_seqs = [start_seq, case.get('start_seq2')][:n_cis]
    loop = vloop.new_loop()
    state: dict = {'phase': 'setup'}
    data = [pattern(('s', k, ln), ln) for k, ln in enumerate(sdus)]

    def fail(sig, what):
        ctx.fail(sig, what, dict(case))

    nfrag = sum(1 + max(0, (ln - (f - 4) + f - 1) // f) for ln in sdus)

    async def main():
        geo = {'iso_data_packet_length': f, 'total_num_iso_data_packets': n}
        w = world.World(2, geometry=[geo, geo])
        recs = [Recorder(node) for node in w.nodes]
        await w.power_on()
        c0, _c1 = await w.connect_le(0, 1)
        futs = {}
        p_handles = []

        def on_request(cis_link):
            cis_link.acl_connection.cancel_on_disconnection(w[1].device.accept_cis_request(cis_link))
            futs[cis_link.handle] = loop.create_future()
            p_handles.append(cis_link.handle)

        w[1].device.on('cis_request', on_request)
        w[1].device.on('cis_establishment', lambda link: futs[link.handle].set_result(None))
        c_handles = await w[0].device.setup_cig(
            CigParameters(cig_id=1, cis_parameters=[CigParameters.CisParameters(cis_id=2 + j) for j in range(n_cis)],
                          sdu_interval_c_to_p=0, sdu_interval_p_to_c=0)
        )
        await w[0].device.create_cis([(h, c0) for h in c_handles])
        await asyncio.gather(*futs.values())
        node = w[sender]
        link_handles = list(c_handles if sender == 0 else p_handles)
        if len(link_handles) != n_cis or len(set(link_handles)) != n_cis:
            raise HarnessError(f'expected {n_cis} CIS handle(s), got {link_handles}')
        first_seqs = []
        for h, sq in zip(link_handles, start_seqs):
            if h not in node.host.cis_links:
                raise HarnessError('CIS handle not known to the sending host')
            if sq is not None:
                node.host.cis_links[h].packet_sequence_number = int(sq)
            first_seqs.append(node.host.cis_links[h].packet_sequence_number)
        handle = link_handles[0]
        first_seq = first_seqs[0]
        rec = recs[sender]
        k = [0]

        def give_credit(h):
            node.tap.to_host.on_packet(
                b'\x04\x13\x05\x01' + struct.pack('<HH', h, 1)
            )

        def sink(direction, pkt):
            # the harness is the controller's ISO data sink: one credit back per packet
            if direction == H2C and pkt[0] == 5:
                d = credit_delays[k[0] % len(credit_delays)]
                k[0] += 1
                loop.call_later(d / 1000.0, give_credit, u16(pkt, 1) & 0xFFF)

        node.tap.listeners.append(sink)
        state.update(world=w, node=node, rec=rec, handle=handle, first_seq=first_seq, mark=len(rec.sent), phase='send',
                     link_handles=link_handles, first_seqs=first_seqs)
        for j, sdu in enumerate(data):
            node.host.send_iso_sdu(link_handles[link_of[j]], sdu)
        idle = 0
        last = None
        t_end = loop.time() + 30.0 + 0.05 * nfrag
        while loop.time() < t_end and idle < 3:
            await asyncio.sleep(0.5)
            now = len(node.tap.log)
            idle = idle + 1 if now == last else 0
            last = now
        state['phase'] = 'done'

    outcome = None
    try:
        loop.complete(main(), horizon=2000.0)
    except (vloop.Stalled, vloop.HorizonExceeded) as e:
        outcome = type(e).__name__
    except vloop.BudgetExceeded:
        outcome = 'budget'
    except HarnessError:
        loop.shutdown()
        raise
    except Exception as e:  # noqa: BLE001
        if state['phase'] == 'setup':
            loop.shutdown()
            raise HarnessError(f'C05 iso set-up failed for {case!r}: {e!r}')
        outcome = f'raised:{site_of(e)}'

    try:
        labels = {'iso'}
        nontrivial = False
        for ln in sdus:
            if ln > f - 4:
                labels.add('iso_multi_fragment')
                nontrivial = True
            else:
                labels.add('iso_single_fragment')
            r = (ln - (f - 4)) % f
            if ln >= f - 5 and r in (0, 1, f - 1):
                labels.add('iso_boundary')
                nontrivial = True
        if f <= 8:
            labels.add('iso_tiny_F')
        if nfrag > n:
            labels.add('iso_credits_exhausted')
        if start_seq is not None and int(start_seq) + link_of.count(0) > 0xFFFF:
            labels.add('iso_seq_wrap')
        if n_cis == 2:
            labels.add('iso_two_links')
            if 0 in link_of and 1 in link_of:
                labels.add('iso_two_links_both_used')
            if start_seqs[1] is not None and int(start_seqs[1]) + link_of.count(1) > 0xFFFF:
                labels.add('iso_seq_wrap')
        if outcome == 'budget':
            labels.add('iteration_budget_hit')
        elif outcome is not None:
            fail(f'iso/hang/{state["phase"]}/{outcome}', f'phase {state["phase"]}: {outcome}')
        else:
            analyse_iso(state, data, f, n, fail, link_of)
        ctx.case(('iso', f, n, sender, start_seq, credit_delays, sdus) + ((n_cis, link_of, start_seqs[1]) if n_cis == 2 else ()),
                 nontrivial, labels,
                 sample={'iso_length': f, 'iso_count': n, 'sdus': sdus, 'start_seq': start_seq,
                         **({'sdu_links': link_of} if n_cis == 2 else {})})
    finally:
        loop.shutdown()


def analyse_iso(state, data, f, n, fail, link_of=None) -> None:
    rec = state['rec']
    adv = advertised(state['node'].tap.log).get('iso')
    if adv is None:
        raise HarnessError('no LE Read Buffer Size [v2] answer seen on the tap')
    if adv != (f, n):
        raise HarnessError(f'controller advertised ISO {adv}, geometry was {(f, n)}')
    link_handles = state.get('link_handles') or [state['handle']]
    link_of = list(link_of) if link_of else [0] * len(data)
    all_data = data
    # one cursor per CIS: its SDUs in submission order, its own sequence counter
    cursors = {h: {'data': [d for d, j in zip(all_data, link_of) if j == i], 'seq': state['first_seqs'][i] if 'first_seqs' in state else state['first_seq'],
                   'k': 0, 'off': None} for i, h in enumerate(link_handles)}
    handle = link_handles[0]
    for pkt in rec.data_packets(5, state['mark']):
        if len(pkt) < 5:
            fail('iso/short_packet', f'ISO packet of {len(pkt)} bytes')
            return
        hdr = u16(pkt, 1)
        h, pb, ts = hdr & 0xFFF, (hdr >> 12) & 3, (hdr >> 14) & 1
        dlen = u16(pkt, 3) & 0x3FFF
        rest = pkt[5:]
        if h not in cursors:
            fail('iso/unknown_handle', f'ISO packet for handle 0x{h:04X}, CIS handle is 0x{handle:04X}')
            return
        cur = cursors[h]
        data, seq, k, off = cur['data'], cur['seq'], cur['k'], cur['off']
        if dlen != len(rest):
            fail('iso/length_field', f'ISO_Data_Load_Length {dlen} but {len(rest)} bytes follow')
            return
        if dlen > f:
            fail('iso/too_long', f'ISO data load of {dlen} bytes, controller advertised {f}')
            return
        if k >= len(data):
            fail('iso/concat', 'more ISO data emitted than the SDUs that were sent')
            return
        sdu = data[k]
        if off is None:
            if pb not in (0b00, 0b10):
                fail('iso/pb_flag/first', f'first fragment of an SDU carries PB={pb:02b}')
                return
            p = 0
            if ts:
                p += 4
            if len(rest) < p + 4:
                fail('iso/sdu_header', 'first fragment too short for the SDU header')
                return
            got_seq = u16(rest, p)
            sdu_len = u16(rest, p + 2) & 0xFFF
            frag = rest[p + 4 :]
            if sdu_len != len(sdu):
                fail('iso/sdu_length', f'ISO_SDU_Length {sdu_len} on the first fragment of a {len(sdu)}-byte SDU')
                return
            if got_seq != seq:
                fail('iso/sequence_number', f'SDU #{k} carries sequence number {got_seq}, expected {seq}')
                return
            complete = pb == 0b10
            off = 0
        else:
            if pb not in (0b01, 0b11):
                fail('iso/pb_flag/continuation', f'fragment at offset {off} of an SDU carries PB={pb:02b}')
                return
            if ts:
                fail('iso/ts_flag', 'time stamp flag on a continuation fragment')
                return
            frag = rest
            complete = pb == 0b11
        if frag != sdu[off : off + len(frag)] or off + len(frag) > len(sdu) or not frag:
            fail('iso/concat', f'fragment at offset {off} ({len(frag)} bytes) is not the next slice of the '
                               f'{len(sdu)}-byte SDU')
            return
        off += len(frag)
        if complete != (off == len(sdu)):
            fail('iso/pb_flag/last', f'PB={pb:02b} on a fragment that ends at offset {off} of a {len(sdu)}-byte SDU')
            return
        if complete:
            k += 1
            off = None
            seq = (seq + 1) & 0xFFFF
        cur['seq'], cur['k'], cur['off'] = seq, k, off
    for cur in cursors.values():
        if cur['k'] != len(cur['data']) or cur['off'] is not None:
            done = sum(c['k'] for c in cursors.values())
            fail('iso/incomplete', f'only {done} of {len(all_data)} SDU(s) were completely handed to the controller at quiescence')
            return
    if rec.peak[5] > n:
        fail('iso/over_credit', f'{rec.peak[5]} ISO packets in flight, controller advertised {n}')


# ---------------------------------------------------------------------------
# raw / asm: malformed fragment sequences between well-formed PDUs
# ---------------------------------------------------------------------------
BAD_KINDS = ('cont_no_start', 'start_no_end', 'overflow', 'short_start')


def script_strategy(host_fragmented: bool):
    cid = st.integers(0x40, 0xFFFF)
    n = st.one_of(st.sampled_from([0, 1, 23, 24]), st.integers(0, 120))
    cuts = st.lists(st.integers(4, 130), max_size=4, unique=True).map(sorted)
    if host_fragmented:
        cuts = st.one_of(st.none(), cuts)
    pdu = st.tuples(st.just('pdu'), cid, n, cuts)
    bad = st.one_of(
        st.tuples(st.just('bad'), st.just('cont_no_start'), st.integers(1, 3), st.integers(0, 40), st.just(0)),
        st.tuples(st.just('bad'), st.just('start_no_end'), st.integers(1, 200), st.integers(0, 199), st.integers(0, 2)),
        st.tuples(st.just('bad'), st.just('overflow'), st.integers(0, 100), st.integers(0, 140), st.integers(1, 60)),
        st.tuples(st.just('bad'), st.just('short_start'), st.integers(0, 3), st.integers(0, 300), st.just(0)),
    )
    steps = st.lists(st.one_of(pdu, bad, bad), min_size=1, max_size=8)
    return st.tuples(steps, pdu).map(lambda t: [list(s) for s in t[0]] + [list(t[1])])


def raw_case_strategy():
    geo = st.tuples(st.sampled_from([27, 27, 9, 64, 251]), st.sampled_from([1, 1, 2, 3, 64]))
    return st.fixed_dictionaries({
        'kind': st.just('raw'), 'target': st.just('peer'), 'start_pb': st.just(0),
        'peer_geometry': geo.map(list), 'dut_geometry': geo.map(list),
        'script': script_strategy(True),
    })


def asm_case_strategy():
    return st.fixed_dictionaries({
        'kind': st.just('raw'), 'target': st.sampled_from(['asm', 'host']), 'start_pb': st.sampled_from([2, 2, 0]),
        'peer_geometry': st.just([27, 64]), 'dut_geometry': st.just([27, 64]),
        'script': script_strategy(False),
    })


def expand_script(script, start_pb: int):
    """-> list of items: ('host', cid, payload, step) | ('frag', pb, data, step, wellformed)."""
    items = []
    goods = []
    for si, step in enumerate(script):
        if step[0] == 'pdu':
            _k, cid, n, cuts = step
            payload = pattern(('g', si, cid, n), n)
            goods.append((si, (cid, payload)))
            if cuts is None:
                items.append(('host', cid, payload, si))
                continue
            pdu = frame(cid, payload)
            points = [0] + [c for c in cuts if 4 <= c < len(pdu)] + [len(pdu)]
            for a, b in zip(points, points[1:]):
                items.append(('frag', start_pb if a == 0 else 1, pdu[a:b], si, True))
        elif step[0] == 'reset':
            items.append(('reset', None, b'', si, False))
        else:
            _k, kind, a, b, c = step
            junk = pattern(('j', si, kind, a, b, c), 600)
            jcid = 0x0666
            if kind == 'cont_no_start':
                for i in range(a):
                    items.append(('frag', 1, junk[i * b : (i + 1) * b], si, False))
            elif kind == 'start_no_end':
                length = a
                have = min(b, length - 1)
                items.append(('frag', start_pb, struct.pack('<HH', length, jcid) + junk[:have], si, False))
                room = length - have - 1  # bytes that may still follow without completing the PDU
                for i in range(c):
                    piece = room // (c - i) if c - i else 0
                    piece = min(piece, room)
                    items.append(('frag', 1, junk[200 + i * 50 : 200 + i * 50 + piece], si, False))
                    room -= piece
            elif kind == 'overflow':
                length = a
                if b > length:
                    items.append(('frag', start_pb, struct.pack('<HH', length, jcid) + junk[:b], si, False))
                else:
                    items.append(('frag', start_pb, struct.pack('<HH', length, jcid) + junk[:b], si, False))
                    if b == length:
                        # the start is a complete PDU by itself; make it one byte short instead
                        items[-1] = ('frag', start_pb, struct.pack('<HH', length + 1, jcid) + junk[:b], si, False)
                        items.append(('frag', 1, junk[300 : 300 + 1 + c], si, False))
                    else:
                        items.append(('frag', 1, junk[300 : 300 + (length - b) + c], si, False))
            elif kind == 'short_start':
                items.append(('frag', start_pb, struct.pack('<HH', b, jcid)[:a], si, False))
            else:
                raise HarnessError(f'unknown malformed kind {kind}')
    return items, goods


def reference_reassembly(frags):
    """By-the-book reassembler (harness model): what may legitimately be built from a fragment stream."""
    cur = None
    out = []
    for pb, data in frags:
        if pb is None:
            cur = None  # the connection was replaced by a new one: nothing of the old one may be completed
            continue
        if pb in (0, 2):
            cur = bytes(data)
        elif pb == 1:
            if cur is None:
                continue
            cur += data
        else:
            continue
        if len(cur) >= 2:
            need = u16(cur, 0) + 4
            if len(cur) == need:
                out.append((u16(cur, 2), cur[4:]))
                cur = None
            elif len(cur) > need:
                cur = None
    return out


def run_raw_case(ctx, case) -> None:
    target = case['target']
    start_pb = int(case['start_pb'])
    script = [list(s) for s in case['script']]
    pg = tuple(case['peer_geometry'])
    dg = tuple(case['dut_geometry'])
    items, goods = expand_script(script, start_pb)
    delivered: list = []
    raised: list = []  # (item index, exception)
    loop = vloop.new_loop()
    state = {'phase': 'setup'}

    def fail(sig, what):
        ctx.fail(sig, what, dict(case))

    # model: fragments as they reach the assembler under test
    def model_frags(f_host: int):
        out = []
        for it in items:
            if it[0] == 'host':
                pdu = frame(it[1], it[2])
                for off in range(0, len(pdu), f_host):
                    out.append((0 if off == 0 else 1, pdu[off : off + f_host]))
            else:
                out.append((it[1], it[2]))
        return out

    outcome = None
    try:
        if target == 'asm':
            out: list = []
            asm = hci.HCI_AclDataPacketAssembler(out.append)
            for i, it in enumerate(items):
                pkt = hci.HCI_AclDataPacket(connection_handle=0x40, pb_flag=it[1], bc_flag=0,
                                            data_total_length=len(it[2]), data=it[2])
                try:
                    asm.feed_packet(pkt)
                except Exception as e:  # noqa: BLE001 - judged below
                    raised.append((i, e))
            for pdu in out:
                pdu = bytes(pdu)
                if len(pdu) < 4 or u16(pdu, 0) != len(pdu) - 4:
                    delivered.append((-1, pdu))
                else:
                    delivered.append((u16(pdu, 2), pdu[4:]))
        elif target == 'host':
            from bumble.host import DataPacketQueue, Host

            class Sink:
                def on_packet(self, packet):
                    pass

            host = Host()
            host.set_packet_sink(Sink())
            host.ready = True
            host.le_acl_packet_queue = DataPacketQueue(27, 64, host.send_hci_packet)
            host.acl_packet_queue = host.le_acl_packet_queue
            host.on_hci_le_connection_complete_event(
                hci.HCI_LE_Connection_Complete_Event(
                    status=0, connection_handle=0x40, role=0, peer_address_type=0,
                    peer_address=hci.Address('F0:F0:F0:F0:F0:F1'), connection_interval=6,
                    peripheral_latency=0, supervision_timeout=100, central_clock_accuracy=0,
                )
            )
            host.on('l2cap_pdu', lambda h, cid, p: delivered.append((cid if h == 0x40 else -2, bytes(p))))
            for i, it in enumerate(items):
                raw = struct.pack('<BHH', 2, 0x40 | (it[1] << 12), len(it[2])) + it[2]
                try:
                    host.on_packet(raw)
                except Exception as e:  # noqa: BLE001 - judged below
                    raised.append((i, e))
                loop.settle()
        else:
            async def main():
                w = world.World(1, geometry=[{'le_acl_data_packet_length': dg[0], 'total_num_le_acl_data_packets': dg[1]}])
                await w.power_on()
                peer = world.RawPeer(w, 9)
                peer.controller.le_acl_data_packet_length = pg[0]
                peer.controller.total_num_le_acl_data_packets = pg[1]
                await peer.start()
                conn = await peer.connect_to(w[0].device)
                await asyncio.sleep(1.0)
                w[0].host.on('l2cap_pdu', lambda h, cid, p: delivered.append((cid if h == conn.handle else -2, bytes(p))))
                queue = peer.host.connections[peer.handle].acl_packet_queue
                if queue.max_packet_size > pg[0]:
                    # the host fragments for a buffer larger than the one its controller advertised for this link
                    state['queue_geometry'] = (queue.max_packet_size, pg[0])
                    return
                state['f_host'] = queue.max_packet_size  # (smaller than advertised: fragments still fit; the model follows)
                state['phase'] = 'send'
                for it in items:
                    if it[0] == 'host':
                        peer.send(it[1], it[2])
                    else:
                        # through the host's flow-control queue, so that hand-made fragments keep their
                        # place between the fragments of the well-formed PDUs
                        queue.enqueue(
                            hci.HCI_AclDataPacket(connection_handle=peer.handle, pb_flag=it[1], bc_flag=0,
                                                  data_total_length=len(it[2]), data=it[2]),
                            peer.handle,
                        )
                idle = 0
                last = None
                t_end = loop.time() + 60.0
                while loop.time() < t_end and idle < 3:
                    await asyncio.sleep(0.5)
                    now = (len(peer.tap.log), len(w[0].tap.log))
                    idle = idle + 1 if now == last else 0
                    last = now
                state['phase'] = 'done'
                state['queue_pending'] = queue.pending

            try:
                loop.complete(main(), horizon=1000.0)
            except (vloop.Stalled, vloop.HorizonExceeded) as e:
                outcome = type(e).__name__
            except vloop.BudgetExceeded:
                outcome = 'budget'
            except HarnessError:
                raise
            except Exception as e:  # noqa: BLE001
                if state['phase'] == 'setup':
                    raise HarnessError(f'C05 raw set-up failed for {case!r}: {e!r}')
                outcome = f'raised:{site_of(e)}'
            for e in loop.errors:
                if e.get('exception') is not None:
                    raised.append((None, e['exception']))

        labels = {f'target:{target}'}
        bad_before_pdu = False
        pending_bad = False
        for step in script:
            if step[0] == 'bad':
                labels.add(f'mal:{step[1]}')
                if step[1] == 'short_start':
                    labels.add('mal:short_start_lt2' if step[2] < 2 else 'mal:short_start_2_3')
                pending_bad = True
            else:
                if pending_bad:
                    bad_before_pdu = True
                pending_bad = False
                if step[3] is None:
                    labels.add('host_fragmented_pdu')
                elif [c for c in step[3] if 4 <= c < step[2] + 4]:
                    labels.add('hand_cut_pdu')
        if raised:
            labels.add('exception_on_feed')
        if 'queue_geometry' in state:
            fail('frag/host_queue_geometry', f'the host fragments LE ACL data for packets of {state["queue_geometry"][0]} bytes, its '
                                             f'controller advertised an LE ACL data length of {state["queue_geometry"][1]}')
        elif outcome == 'budget':
            labels.add('iteration_budget_hit')
        elif outcome is not None:
            fail(f'malformed/hang/{target}/{outcome}', f'phase {state["phase"]}: {outcome}')
        else:
            judge_raw(script, items, goods, delivered, raised, model_frags(state.get('f_host', pg[0])), target, fail)
        ctx.case((target, start_pb, pg, dg, script), bad_before_pdu, labels,
                 sample={'target': target, 'script': script[:6]})
    finally:
        loop.shutdown()


def judge_raw(script, items, goods, delivered, raised, frags, target, fail) -> None:
    good_list = [g for _si, g in goods]
    reference = reference_reassembly(frags)
    # the generator must only produce scripts whose well-formed PDUs a by-the-book reassembler delivers
    ri = 0
    for g in good_list:
        while ri < len(reference) and reference[ri] != g:
            ri += 1
        if ri == len(reference):
            raise HarnessError(f'script generator: reference reassembly does not yield the well-formed PDUs: {script!r}')
        ri += 1
    allowed_extra = list(reference)
    for g in good_list:
        allowed_extra.remove(g)

    def bad_kinds_before(step_index: int) -> str:
        # the fault immediately before the PDU names the class (shrinking removes the others)
        j = step_index - 1
        if j < 0 or script[j][0] != 'bad':
            return 'no_fault'
        k = script[j][1]
        if k == 'short_start':
            k = 'short_start_lt2' if script[j][2] < 2 else 'short_start_2_3'
        return k

    def lost_cause(step_index: int) -> str:
        # root cause: the exception that escaped while the fragments were processed, else the fault kinds
        if raised:
            return site_of(raised[0][1])
        return bad_kinds_before(step_index)

    # exceptions while a well-formed fragment is fed
    for i, e in raised:
        if i is not None and items[i][0] == 'frag' and items[i][4]:
            fail(f'malformed/raises_on_wellformed/{target}/{site_of(e)}',
                 f'feeding a well-formed fragment of step {items[i][3]} raised {e!r}')
            return
    # walk what was delivered
    gi = 0
    extras = list(allowed_extra)
    for d in delivered:
        if gi < len(good_list) and d == good_list[gi]:
            gi += 1
            continue
        if d in extras:
            extras.remove(d)
            continue
        if d in good_list[:gi]:
            fail(f'malformed/duplicate/{target}', f'PDU cid=0x{d[0]:04X} ({len(d[1])} bytes) delivered twice')
            return
        if d in good_list[gi:]:
            # a later good PDU arrived while an earlier one is missing
            si = goods[gi][0]
            fail(f'malformed/next_pdu_lost/{target}/{lost_cause(si)}',
                 f'well-formed PDU of step {si} was not delivered (a later one was)')
            return
        si = goods[gi][0] if gi < len(goods) else len(script)
        fail(f'malformed/garbage_delivered/{target}/{bad_kinds_before(si)}',
             f'a PDU that was never sent was delivered: cid=0x{d[0] & 0xFFFF:04X}, {len(d[1])} bytes, before step {si}')
        return
    if gi < len(good_list):
        si = goods[gi][0]
        exc = f'; escaped: {raised[0][1]!r} at {site_of(raised[0][1])}' if raised else ''
        fail(f'malformed/next_pdu_lost/{target}/{lost_cause(si)}',
             f'well-formed PDU of step {si} ({len(good_list[gi][1])} bytes) after [{bad_kinds_before(si)}] '
             f'was never delivered{exc}')


# ---------------------------------------------------------------------------
# mux: one receiving Host, several connections, the fragment streams of the connections interleaved as a
# controller with several links delivers them; a stream for a handle that is no connection of the host
# ---------------------------------------------------------------------------
MUX_HANDLES = {'a': 0x40, 'b': 0x41, 'c': 0x42, 'x': 0x77}  # 'x': not a connection of the host


def mux_case_strategy():
    plain = script_strategy(False)
    # the connection is replaced while a PDU is incomplete, and the first fragment on the new connection is a
    # continuation that would complete the old PDU exactly
    renewed = st.tuples(plain, st.integers(8, 120), st.integers(0, 119), plain).map(
        lambda t: t[0] + [['bad', 'start_no_end', t[1], min(t[2], t[1] - 1), 0], ['reset'],
                          ['bad', 'cont_no_start', 1, t[1] - min(t[2], t[1] - 1), 0]] + t[3])
    renewed_idle = st.tuples(plain, plain).map(lambda t: t[0] + [['reset']] + t[1])
    stream = st.fixed_dictionaries({'classic': st.sampled_from([False, False, True]),
                                    'script': st.integers(0, 11).flatmap(
                                        lambda i: plain if i < 9 else (renewed if i < 11 else renewed_idle))})
    return st.fixed_dictionaries({
        'kind': st.just('mux'), 'start_pb': st.sampled_from([2, 2, 0]),
        'streams': st.fixed_dictionaries({'a': stream, 'b': stream}, optional={'c': stream, 'x': stream}),
        'order': st.lists(st.integers(0, 3), min_size=2, max_size=24),
    })


def run_mux_case(ctx, case) -> None:
    from bumble.host import DataPacketQueue, Host

    start_pb = int(case['start_pb'])
    streams = {name: case['streams'][name] for name in sorted(case['streams']) if name in MUX_HANDLES}
    names = list(streams)
    order = [int(x) for x in case['order']] or [0]
    items: dict = {}
    goods: dict = {}
    for name in names:
        its, gds = expand_script([list(s) for s in streams[name]['script']], start_pb)
        # (a step without cut points is one fragment here: there is no sending host in this harness)
        items[name] = [('frag', start_pb, frame(it[1], it[2]), it[3], True) if it[0] == 'host' else it for it in its]
        goods[name] = gds
    # merge: `order` names the stream that supplies the next fragment, cyclically; exhausted streams are skipped
    seq = []
    ptr = {name: 0 for name in names}
    oi = 0
    while any(ptr[n] < len(items[n]) for n in names):
        name = names[order[oi % len(order)] % len(names)]
        oi += 1
        if ptr[name] >= len(items[name]):
            name = next(n for n in names if ptr[n] < len(items[n]))
        seq.append((name, ptr[name]))
        ptr[name] += 1

    failed: list = []

    def fail(sig, what):
        failed.append(sig)
        ctx.fail(sig, what, dict(case))

    loop = vloop.new_loop()
    deliveries: list = []
    raised: dict = {name: [] for name in names}
    try:
        class Sink:
            def on_packet(self, packet):
                pass

        host = Host()
        host.set_packet_sink(Sink())
        host.ready = True
        host.le_acl_packet_queue = DataPacketQueue(27, 64, host.send_hci_packet)
        host.acl_packet_queue = DataPacketQueue(27, 64, host.send_hci_packet)

        def connect(k, name):
            if streams[name].get('classic'):
                host.on_hci_connection_complete_event(
                    hci.HCI_Connection_Complete_Event(
                        status=0, connection_handle=MUX_HANDLES[name], bd_addr=hci.Address(f'F0:F0:F0:F0:F0:F{k}'),
                        link_type=hci.HCI_Connection_Complete_Event.LinkType.ACL, encryption_enabled=0,
                    )
                )
            else:
                host.on_hci_le_connection_complete_event(
                    hci.HCI_LE_Connection_Complete_Event(
                        status=0, connection_handle=MUX_HANDLES[name], role=0, peer_address_type=0,
                        peer_address=hci.Address(f'F0:F0:F0:F0:F0:F{k}'), connection_interval=6,
                        peripheral_latency=0, supervision_timeout=100, central_clock_accuracy=0,
                    )
                )
            if MUX_HANDLES[name] not in host.connections:
                raise HarnessError('bare Host did not register the connection')

        for k, name in enumerate(names):
            if name != 'x':
                connect(k, name)
        host.on('l2cap_pdu', lambda h, cid, p: deliveries.append((h, cid, bytes(p))))
        for name, i in seq:
            it = items[name][i]
            if it[0] == 'reset':
                if name != 'x':
                    host.on_packet(bytes(hci.HCI_Disconnection_Complete_Event(
                        status=0, connection_handle=MUX_HANDLES[name], reason=0x13)))
                    loop.settle()
                    connect(names.index(name), name)
                    loop.settle()
                continue
            raw = struct.pack('<BHH', 2, MUX_HANDLES[name] | (it[1] << 12), len(it[2])) + it[2]
            try:
                host.on_packet(raw)
            except Exception as e:  # noqa: BLE001 - judged below
                raised[name].append((i, e))
            loop.settle()

        labels = {'target:mux'}
        if len([n for n in names if n != 'x']) >= 3:
            labels.add('mux_three_connections')
        kinds = {bool(streams[n].get('classic')) for n in names if n != 'x'}
        if len(kinds) == 2:
            labels.add('mux_classic_and_le')
        # which well-formed PDUs had a fragment of another connection fed between two of their fragments?
        span: dict = {}
        for pos, (name, i) in enumerate(seq):
            it = items[name][i]
            if it[4]:
                span.setdefault((name, it[3]), []).append(pos)
        nontrivial = False
        for (name, _si), where in span.items():
            if name == 'x':
                continue
            for pos in range(where[0] + 1, where[-1]):
                other, j = seq[pos]
                if other == name:
                    continue
                nontrivial = True
                labels.add('mux_interleaved_mid_pdu')
                if other == 'x':
                    labels.add('mux_unknown_handle_mid_pdu')
                elif not items[other][j][4]:
                    labels.add('mux_fault_inside_other_pdu')
        for name in names:
            if any(raised[name]):
                labels.add('exception_on_feed')
            script = streams[name]['script']
            for j, step in enumerate(script):
                if step[0] == 'reset' and name != 'x':
                    labels.add('mux_reconnect')
                    if j and script[j - 1][0] == 'bad' and script[j - 1][1] == 'start_no_end':
                        labels.add('mux_reconnect_mid_pdu')
        known = {MUX_HANDLES[n] for n in names if n != 'x'}
        stray = [d for d in deliveries if d[0] not in known]
        if stray:
            fail('mux/unknown_handle_delivered', f'PDU delivered on handle 0x{stray[0][0]:04X} which is no connection of the host')
        else:
            for name in names:
                if name == 'x':
                    continue
                judge_raw([list(s) for s in streams[name]['script']], items[name], goods[name],
                          [(cid, p) for (h, cid, p) in deliveries if h == MUX_HANDLES[name]], raised[name],
                          [(it[1], it[2]) for it in items[name]], 'mux', fail)
                if failed:
                    break  # one verdict per case
        ctx.case(('mux', start_pb, {n: [streams[n].get('classic'), streams[n]['script']] for n in names}, order),
                 nontrivial, labels, sample={'target': 'mux', 'streams': names, 'order': order[:8]})
    finally:
        loop.shutdown()


# ---------------------------------------------------------------------------
def fixed_top_cases():
    """The fixed handful of 655xx-byte cases run in every tier."""
    out = []
    for classic, f, n in ((False, 251, 3), (True, 1021, 2), (False, 65535, 1), (True, 27, 64)):
        kind = 'classic' if classic else 'le'
        lens = TOP if f != 27 else (65531, 65535)
        out.append({'kind': 'pdus', 'classic': classic, 'nodes': 2, 'geometry': [[kind, f, n], [kind, 27, 64]],
                    'delays': [[], []],
                    'sends': [[0, 1, 0x40 + i, ln, 0] for i, ln in enumerate(lens)]})
    out.append({'kind': 'pdus', 'classic': False, 'nodes': 2, 'geometry': [['le', 8, 1], ['le', 5, 2]],
                'delays': [[], []], 'sends': [[0, 1, 0x40, 65535, 0], [1, 0, 0x41, 4, 0]]})
    return out


OVER_65535_PROBE = {'kind': 'pdus', 'classic': False, 'nodes': 2, 'geometry': [['le', 1021, 2], ['le', 251, 3]],
                    'delays': [[], []], 'sends': [[0, 1, 0x40, 65531, 0], [0, 1, 0x41, 65532, 0]]}


def run(ctx) -> None:
    vloop.selftest()
    # Medium probe (every shard): can a PDU longer than 65535 bytes cross the virtual link at all?
    # If not, that failure is recorded once here (VIOLATION or KNOWN-FINDING by its signature) and the
    # generated cases stay at payloads <= 65531 so that the search continues behind it.
    run_pdus_case(ctx, OVER_65535_PROBE)
    broken = any(sig.startswith('deliver/lost/pdu_over_65535/') for sig in ctx.failures)
    if ctx.shard == 0 and not broken:
        for case in fixed_top_cases():
            run_pdus_case(ctx, case)

    def run_pdus(case):
        if broken and any(s[3] > 65531 for s in case['sends']):
            case = dict(case, sends=[[*s[:3], min(s[3], 65531), *s[4:]] for s in case['sends']])
            ctx.exclude('payload 65532..65535 (L2CAP PDU longer than 65535 bytes) clipped to 65531')
        run_pdus_case(ctx, case)

    quick = ctx.quick
    ctx.hyp('pdus', run_pdus,
            pdus_case(cap=4096 if quick else 65535, budget=1200 if quick else 12000, top=not quick),
            max_examples=ctx.n(600, 16000))
    ctx.hyp('iso', lambda c: run_iso_case(ctx, c), iso_case(), max_examples=ctx.n(500, 24000))
    ctx.hyp('iso2', lambda c: run_iso_case(ctx, c), iso_two_links_case(), max_examples=ctx.n(120, 6400))
    ctx.hyp('raw', lambda c: run_raw_case(ctx, c), raw_case_strategy(), max_examples=ctx.n(500, 24000))
    ctx.hyp('asm', lambda c: run_raw_case(ctx, c), asm_case_strategy(), max_examples=ctx.n(3000, 160000))
    ctx.hyp('reconnect', run_pdus,
            history_case(mixed=False, cap=1500 if quick else 8000, budget=300 if quick else 3000),
            max_examples=ctx.n(200, 16000))
    ctx.hyp('mixed', run_pdus,
            history_case(mixed=True, cap=1500 if quick else 8000, budget=300 if quick else 3000),
            max_examples=ctx.n(120, 9600))
    ctx.hyp('mux', lambda c: run_mux_case(ctx, c), mux_case_strategy(), max_examples=ctx.n(600, 48000))
    for label, n in (
        ('multi_fragment', 50), ('boundary_-1', 20), ('boundary_0', 20), ('boundary_+1', 20), ('len_0', 5),
        ('len_1', 5), ('classic', 30), ('le', 30), ('le_shared_buffers', 5), ('tiny_F', 20), ('count_1', 20),
        ('credits_exhausted', 30), ('both_directions', 30), ('delayed', 30), ('three_nodes', 10),
        ('iso_multi_fragment', 50), ('iso_boundary', 30), ('iso_seq_wrap', 10), ('iso_credits_exhausted', 20),
        ('mal:cont_no_start', 50), ('mal:start_no_end', 50), ('mal:overflow', 50), ('mal:short_start_lt2', 20),
        ('mal:short_start_2_3', 20), ('target:peer', 50), ('target:asm', 50), ('target:host', 50),
        ('host_fragmented_pdu', 20), ('hand_cut_pdu', 20),
    ):
        ctx.floor(label, n)
    # classes added with the history / dual-mode / multiplexed / two-CIS families (every shard runs its share of each
    # family, the floors are far below a sixteenth of the thorough totals)
    for label, n in (
        ('reconnect', 80), ('pdu_after_reconnect', 80), ('reconnect_same_handle', 80), ('reconnect_multi_fragment', 60),
        ('reconnect_credits_exhausted', 60), ('cut:now', 50), ('cut:gap', 12), ('cut:idle', 12), ('cut_mid_pdu', 20),
        ('cut_with_queued_fragments', 20), ('cut_lost_pdus', 30), ('cut_by_central', 30), ('cut_by_peripheral', 30),
        ('cut_while_other_link_up', 30), ('mixed_transports', 60), ('mixed_dual_pools', 20), ('mixed_shared_pool', 5),
        ('target:mux', 300), ('mux_interleaved_mid_pdu', 60), ('mux_fault_inside_other_pdu', 40),
        ('mux_unknown_handle_mid_pdu', 15), ('mux_three_connections', 60), ('mux_classic_and_le', 80),
        ('mux_reconnect', 60), ('mux_reconnect_mid_pdu', 40), ('iso_two_links_both_used', 40),
    ):
        ctx.floor(label, n)
    ctx.floor('len_top', 1)
    if ctx.shard == 0 and not broken:
        ctx.floor('len_top', 3)
        ctx.floor('pdu_over_65535', 3)


def replay(ctx, case) -> None:
    kind = case['kind']
    if kind == 'pdus':
        run_pdus_case(ctx, case)
    elif kind == 'iso':
        run_iso_case(ctx, case)
    elif kind == 'raw':
        run_raw_case(ctx, case)
    elif kind == 'mux':
        run_mux_case(ctx, case)
    else:
        raise ValueError(kind)
