"""
C15 - The JSON key store is exact, persistent, namespace-isolated and crash-atomic.

Operation histories (plain data) are interpreted against real `bumble.keys.JsonKeyStore`
instances that share ONE file in a per-case directory, and against a reference model
`dict[namespace][peer] -> {field: value}` kept by the harness.

History clause: after every operation a FRESH instance per namespace must read exactly
the model, other namespaces' raw JSON must be untouched, and the file must parse as a
JSON object of objects.  Operations may also be made together (`burst`: asyncio.gather of
2..3 mutators, nothing awaited in between); the store must then hold the result of applying
them in some order.  Cases with location 'appdir' make their stores WITHOUT a file name
(the per-user data directory is redirected into the case directory).

Crash clause (fault enumeration): the file-system calls `JsonKeyStore.save` makes
(`os.mkdir` below `Path.mkdir`, `open` as seen from `bumble.keys`, from `builtins` and
from `io` - i.e. also through pathlib, shutil, tempfile -, the file's
`write`/`flush`/`close`, `os.replace`/`os.rename`, `os.unlink`) are wrapped with a step
counter.  Each mutating operation is first run un-crashed to count its N steps; then for
EVERY k in 0..N the pre-state directory is restored and the operation re-run with a
simulated process death at step k (a BaseException raised from the wrapper; only a
generated prefix of the data buffered so far reaches the file that was open).
"""

from __future__ import annotations

import asyncio
import builtins
import copy
import io
import itertools
import json
import os
import pathlib
import shutil
import traceback
from unittest import mock

from hypothesis import strategies as st

from vlib import vloop

PROPERTY = 'C15'
LEVEL = 'fault_enumeration'
RULE = (
    'histories of update(ns,peer,keys)/delete(ns,peer) absent or aimed at a stored peer/delete_all(ns)/get/get_all/'
    'get_resolving_keys/reopen(ns)/litter(stale .tmp)/burst(2..3 mutating ops made together with asyncio.gather, on '
    'one handle, on handles of different namespaces, or on two handles bound to one namespace) over 1..3 namespace '
    'handles (explicit names and the default namespace = JsonKeyStore(None, file)) sharing one file, 1..4 peers, '
    'initial file absent / {} / in a missing (nested) directory / pre-seeded with 1-2 foreign namespaces; location '
    '"file" (explicit file name) or "appdir" (NO file name: <user data dir>/Pairing/<sanitised namespace>.json with '
    'the data dir redirected into the case directory and not existing yet; namespaces shaped like str(Address) '
    'with ":" and "/P", the default namespace, and names the sanitising maps onto one file); PairingKeys = any subset '
    'of the 6 key slots (value 0..32 bytes, authenticated, ediv None/0/1/0xFF/0x100/0xFFFF/any 16-bit, rand None/'
    "b''/8 bytes/8 zero bytes/0..16 bytes), address_type None/every member of hci.AddressType (0..3, 254, 255), "
    'link_key_type None/0..8/255. After every op: fresh instance per namespace == dict model, raw JSON of other '
    'namespaces unchanged, file is an object of objects. After a burst: the same, against the result of applying its '
    'operations in SOME order (all permutations tried; a delete that raised must have found its peer absent at its '
    'turn), and every participating instance reads that result. Every singly made mutating op: its N file-system '
    'steps are counted (open() is wrapped for bumble.keys, builtins and io, so pathlib/shutil/tempfile spellings are '
    'steps too), then a process death is injected at EVERY k in 0..N on the restored pre-state (prefix of buffered data '
    'reaches the open file), main file bytes must equal pre or post bytes, fresh instances read that model, and '
    'the same op retried on the crashed directory (stale .tmp present) succeeds. '
    'roundtrip: exhaustive 64 slot subsets x 5 address types x 10 link-key types, single update + merge. '
    'directed: 36 (EDIV, Rand) edge pairs on all six slots + all address types; 54 bursts = ordered pairs of mutating '
    'ops x handle relation x same/different peer, re-made in the opposite order; 26 appdir histories (13 namespace '
    'lists x absent/pre-seeded). '
    'non-trivial = >=2 namespaces in the file, or a reopen, or a burst, or a crash point inside the write phase; '
    'distinct by (location, namespaces, initial state, operation sequence).'
)
ASSUMPTIONS = [
    'update() merges: non-None fields of the new PairingKeys overlay the stored entry, each key slot is replaced '
    'as a whole (JsonKeyStore behaviour, DESIGN 5.1)',
    'delete() of an absent peer may raise; only an unchanged state is required',
    'the default namespace binds, per class docstring, to "__DEFAULT__" if the file has it, else to the only '
    'namespace of the file if there is exactly one (empty ones count), else to a new "__DEFAULT__"; whether a '
    'mutating op leaves an empty namespace object in the file is left open',
    'process death is modelled inside the harness process: user-space buffers are lost except a generated prefix; '
    'power loss / fsync ordering is not modelled; a stale .tmp after a crash is allowed',
    'store methods are run to completion on the virtual loop; it is NOT assumed that they never suspend: operations '
    'made together (burst) must still all take effect, in some order. Inside a burst the default handle is only used '
    'when the namespace it binds to does not depend on which operation reaches the file first (otherwise its '
    'operations are redirected to the first explicit handle); no process death is injected inside a burst',
    'without a file name, which namespaces share a file and where the file lies are not judged: the file is '
    'whatever the first handle reports as .filename (it must lie below the redirected data directory, else '
    'harness error), handles that report another file are left out of the case, and fresh instances are made the '
    'same way (JsonKeyStore(namespace))',
    "Rand is bytes | None and EDIV int | None: b'' and 0 are values and must come back as such",
]
SHRINK_KEYS = ('ops',)

KEY_SLOTS = ('ltk', 'ltk_central', 'ltk_peripheral', 'irk', 'csrk', 'link_key')
NS_POOL = [None, 'F0:F1:F2:F3:F4:F5', 'hci-1', 'Zeta/ns two']
PEERS = ['C4:11:22:33:44:01', 'C4:11:22:33:44:02/P', 'E5:00:00:00:00:03', '00:1B:DC:F2:1C:48/P']
DEFAULT = '__DEFAULT__'
FOREIGN = ['zz-foreign', 'AA:BB:CC:DD:EE:FF']
# without a file name (location 'appdir'): namespaces as JsonKeyStore.from_device makes them (str(Address): ':' and,
# for public addresses, '/P'), and names that the sanitising maps onto one file
APP_SINGLE = [None, 'F0:F1:F2:F3:F4:F5/P', 'F0:F1:F2:F3:F4:F5', 'hci-1', 'Zeta/ns two', 'keys']
APP_COLLIDING = ['F0:F1:F2:F3:F4:F5/P', 'f0-f1-f2-f3-f4-f5-p', 'F0-F1:F2-F3:f4:f5/p']
INITIALS = ['absent', 'empty', 'subdir', 'subdir2', 'seeded1', 'seeded2']
SEED_ENTRY_RAW = {
    'address_type': 0,
    'irk': {'authenticated': False, 'value': 'e7b2543b206e4e46b44f9e51dad22bd1'},
    'link_key': {'authenticated': True, 'value': '0745dd9691e693d9dca740f7d8dfea75'},
    'ltk': {'authenticated': False, 'value': 'd1897ee10016eb1a08e4e037fd54c683', 'ediv': 7, 'rand': '0102030405060708'},
}
MUTATING = ('update', 'delete', 'delete_all')


_REAL_OPEN = builtins.open  # taken before any wrapper is installed


class Crash(BaseException):
    """Simulated process death (not an Exception: `except Exception` cannot swallow it)."""


class HarnessBug(RuntimeError):
    pass


# ---------------------------------------------------------------------------
# file-system step injector
# ---------------------------------------------------------------------------
class FileProxy:
    """A file opened for writing by the code under test; data stays in a user-space buffer
    until flush/close, as with a real buffered file."""

    def __init__(self, inj, real):
        self.inj = inj
        self.real = real
        self.pending = []
        self.closed = False

    def __enter__(self):
        return self

    def __exit__(self, *exc):
        self.close()
        return False

    def __getattr__(self, name):
        return getattr(self.real, name)

    def fileno(self):
        # no descriptor-level short cuts (shutil's sendfile path, os.write): the data has to come through
        # write(), where it is a counted step
        raise io.UnsupportedOperation('fileno')

    def _push(self):
        for chunk in self.pending:
            self.real.write(chunk)
        self.pending = []
        self.real.flush()

    def write(self, data):
        self.inj.step('write', self, data)
        self.pending.append(data)
        self.inj.after()
        return len(data)

    def writelines(self, lines):
        for line in lines:
            self.write(line)

    def flush(self):
        self.inj.step('flush')
        self._push()
        self.inj.after()

    def close(self):
        if self.closed:
            return
        self.inj.step('close')
        self._push()
        self.real.close()
        self.closed = True
        self.inj.open_files.remove(self)
        self.inj.after()


class Injector:
    """mode 'off': pass-through. 'count': record steps. 'crash': die before step `crash_at`
    (or after the last step when crash_at == n_total). After death every wrapped call dies again
    without effect, so clean-up code of the store cannot run 'after the process died'."""

    def __init__(self):
        self.mode = 'off'
        self.steps: list[str] = []
        self.crash_at = -1
        self.n_total = -1
        self.cut = 0
        self.dead = False
        self.open_files: list[FileProxy] = []
        self._patches = []
        self.real_open = _REAL_OPEN
        self.real = {name: getattr(os, name) for name in ('mkdir', 'replace', 'rename', 'unlink', 'remove')}

    # -- arming ---------------------------------------------------------------
    def arm(self, mode, crash_at=-1, n_total=-1, cut=0):
        self.mode = mode
        self.steps = []
        self.crash_at = crash_at
        self.n_total = n_total
        self.cut = cut
        self.dead = False
        self.open_files = []

    def disarm(self):
        self.mode = 'off'
        for p in list(self.open_files):  # only if the store leaked an open file
            try:
                p.real.close()
            except Exception:
                pass
        self.open_files = []

    # -- steps ----------------------------------------------------------------
    def step(self, kind, proxy=None, data=None):
        if self.dead:
            raise Crash('dead')
        if self.mode == 'crash' and len(self.steps) == self.crash_at:
            self.die(proxy if kind == 'write' else None, data)
        self.steps.append(kind)

    def after(self):
        if self.mode == 'crash' and self.crash_at == self.n_total == len(self.steps):
            self.die(None, None)

    def die(self, proxy, data):
        self.dead = True
        for p in self.open_files:
            chunks = list(p.pending)
            if p is proxy and data is not None:
                chunks.append(data)  # the write that was in progress
            if chunks:
                buffered = chunks[0][:0].join(chunks)
                p.real.write(buffered[: len(buffered) * self.cut // 1000])
            p.real.close()
            p.closed = True
        self.open_files = []
        raise Crash('died')

    # -- wrappers -------------------------------------------------------------
    def _open(self, file, mode='r', *args, **kwargs):
        if self.mode == 'off' or not any(c in mode for c in 'wax+'):
            return self.real_open(file, mode, *args, **kwargs)
        self.step('open')
        proxy = FileProxy(self, self.real_open(file, mode, *args, **kwargs))
        self.open_files.append(proxy)
        self.after()
        return proxy

    def _wrap(self, name, kind):
        real = self.real[name]

        def wrapper(*args, **kwargs):
            if self.mode == 'off':
                return real(*args, **kwargs)
            self.step(kind)
            result = real(*args, **kwargs)
            self.after()
            return result

        return wrapper

    def install(self):
        import bumble.keys

        self._patches = [
            mock.patch.object(bumble.keys, 'open', self._open, create=True),
            # the same wrapper behind every other spelling of "open for writing" (pathlib.Path.open / write_text /
            # write_bytes go through io.open; shutil, tempfile and other modules through builtins.open / io.open):
            # a store that publishes its file some other way still has all of its steps counted
            mock.patch.object(builtins, 'open', self._open),
            mock.patch.object(io, 'open', self._open),
            mock.patch.object(os, 'mkdir', self._wrap('mkdir', 'mkdir')),
            mock.patch.object(os, 'replace', self._wrap('replace', 'replace')),
            mock.patch.object(os, 'rename', self._wrap('rename', 'replace')),
            mock.patch.object(os, 'unlink', self._wrap('unlink', 'unlink')),
            mock.patch.object(os, 'remove', self._wrap('remove', 'unlink')),
        ]
        for p in self._patches:
            p.start()

    def uninstall(self):
        for p in reversed(self._patches):
            p.stop()
        self._patches = []


def injector_selftest(ctx) -> None:
    """Exit-2 guard: the wrappers see every file-system step of JsonKeyStore.save."""
    from bumble.keys import JsonKeyStore, PairingKeys

    root = ctx.outdir('ks', f'selftest{os.getpid()}')
    shutil.rmtree(root, ignore_errors=True)
    os.makedirs(root)
    path = os.path.join(root, 'a', 'b', 'keys.json')
    inj = Injector()
    inj.install()
    loop = vloop.new_loop()
    try:
        inj.arm('count')
        try:
            loop.complete(JsonKeyStore('n', path).update('p', PairingKeys(link_key_type=1)))
        except (vloop.Stalled, vloop.HorizonExceeded):
            raise
        except Exception as e:
            # the store itself is broken in the simplest scenario: the histories below will say how
            ctx.notes.append(f'injector selftest skipped, the store raised {type(e).__name__} on a first update')
            return
        finally:
            steps = list(inj.steps)
            inj.disarm()
        if not os.path.exists(path):
            raise HarnessBug('selftest: store did not create its file')
        for needed in ('open', 'write', 'close'):
            if needed not in steps:
                raise HarnessBug(f'selftest: no {needed!r} step observed: {steps}')
        if 'mkdir' not in steps:
            raise HarnessBug(f'selftest: directory creation not observed: {steps}')
        # dying at step 0 must leave nothing behind
        shutil.rmtree(os.path.join(root, 'a'))
        inj.arm('crash', 0, len(steps), 500)
        try:
            loop.complete(JsonKeyStore('n', path).update('p', PairingKeys(link_key_type=1)))
            raise HarnessBug('selftest: crash not injected')
        except Crash:
            pass
        inj.disarm()
        if os.path.exists(os.path.join(root, 'a')):
            raise HarnessBug('selftest: crash before the first step had an effect')
    finally:
        inj.uninstall()
        loop.shutdown()
        shutil.rmtree(root, ignore_errors=True)


# ---------------------------------------------------------------------------
# directory snapshots
# ---------------------------------------------------------------------------
def snapshot(root):
    dirs, files = [], {}
    for dirpath, dirnames, filenames in os.walk(root):
        rel = os.path.relpath(dirpath, root)
        for d in dirnames:
            dirs.append(os.path.normpath(os.path.join(rel, d)))
        for f in filenames:
            with open(os.path.join(dirpath, f), 'rb') as fh:
                files[os.path.normpath(os.path.join(rel, f))] = fh.read()
    return sorted(dirs), files


def _prune(directory, rel, keep_dirs, keep_files):
    """Remove what the snapshot does not have; returns the files that are there."""
    present = {}
    with os.scandir(directory) as it:
        entries = list(it)
    for e in entries:
        sub = e.name if rel == '' else os.path.join(rel, e.name)
        if e.is_dir(follow_symlinks=False):
            present.update(_prune(e.path, sub, keep_dirs, keep_files))
            if sub not in keep_dirs:
                os.rmdir(e.path)
        elif sub in keep_files:
            present[sub] = e.path
        else:
            os.unlink(e.path)
    return present


def restore(root, snap):
    """Bring the directory back to a snapshot (files are rewritten in place only when they differ)."""
    dirs, files = snap
    present = _prune(root, '', set(dirs), files)
    for d in dirs:
        full = os.path.join(root, d)
        if not os.path.isdir(full):
            os.mkdir(full)
    for rel, data in files.items():
        if rel in present:
            if read_bytes(present[rel]) != data:
                with open(present[rel], 'r+b') as fh:  # no truncate-to-zero: cheaper on ext4
                    fh.write(data)
                    fh.truncate(len(data))
            continue
        with open(os.path.join(root, rel), 'wb') as fh:
            fh.write(data)


def read_bytes(path):
    try:
        with open(path, 'rb') as fh:
            return fh.read()
    except FileNotFoundError:
        return None


# ---------------------------------------------------------------------------
# model
# ---------------------------------------------------------------------------
def norm_keys_dict(kd) -> dict:
    """Generated keys description -> model entry fragment (only the fields that are set)."""
    out = {}
    for field, v in kd.items():
        if v is None:
            continue
        if field in KEY_SLOTS:
            out[field] = {
                'value': bytes(v['value']),
                'authenticated': bool(v['authenticated']),
                'ediv': v.get('ediv'),
                'rand': bytes(v['rand']) if v.get('rand') is not None else None,
            }
        elif field in ('address_type', 'link_key_type'):
            out[field] = int(v)
        else:
            raise HarnessBug(f'unknown field {field}')
    return out


def make_pairing_keys(kd):
    from bumble import hci
    from bumble.keys import PairingKeys

    kwargs = {}
    for field, v in norm_keys_dict(kd).items():
        if field in KEY_SLOTS:
            kwargs[field] = PairingKeys.Key(
                value=v['value'], authenticated=v['authenticated'], ediv=v['ediv'], rand=v['rand']
            )
        elif field == 'address_type':
            kwargs[field] = hci.AddressType(v)
        else:
            kwargs[field] = v
    return PairingKeys(**kwargs)


def norm_pairing_keys(pk) -> dict:
    """What a store returned -> comparable entry (non-None fields, python types kept)."""
    out = {}
    for field in ('address_type', 'link_key_type'):
        v = getattr(pk, field)
        if v is not None:
            out[field] = int(v) if isinstance(v, int) and not isinstance(v, bool) else v
    for slot in KEY_SLOTS:
        k = getattr(pk, slot)
        if k is not None:
            out[slot] = {'value': k.value, 'authenticated': k.authenticated, 'ediv': k.ediv, 'rand': k.rand}
    return out


def same(a, b) -> bool:
    return type(a) is type(b) and a == b


def diff_entry(expected: dict, got: dict):
    """First differing field between two entries, or None."""
    for field in sorted(set(expected) | set(got)):
        label = 'key' if field in KEY_SLOTS else field
        if field not in got:
            return f'{label}:lost'
        if field not in expected:
            return f'{label}:invented'
        e, g = expected[field], got[field]
        if field in KEY_SLOTS:
            for sub in ('value', 'authenticated', 'ediv', 'rand'):
                if not same(e[sub], g[sub]):
                    return f'key.{sub}'
        elif not same(e, g):
            return field
    return None


def diff_map(expected: dict, got: dict):
    """(kind, detail) of the first difference between two {peer: entry} maps, or None."""
    for peer in sorted(set(expected) | set(got)):
        if peer not in got:
            return 'peer_lost', f'{peer} missing'
        if peer not in expected:
            return 'peer_invented', f'{peer} present but never stored / already deleted'
        d = diff_entry(expected[peer], got[peer])
        if d is not None:
            return f'field:{d}', f'{peer}: expected {expected[peer]!r} got {got[peer]!r}'
    return None


def resolve(ns, file_keys) -> tuple[str, str]:
    """Namespace an instance created with `ns` binds to, given the file's top-level keys."""
    if ns is not None:
        return ns, 'explicit'
    if DEFAULT in file_keys:
        return DEFAULT, 'default_existing'
    if len(file_keys) == 1:
        return next(iter(file_keys)), 'default_adopted'
    return DEFAULT, 'default_new'


def apply_op(model: dict, target: str, op, peer) -> dict:
    kind = op[0]
    if kind == 'update':
        model.setdefault(target, {}).setdefault(peer, {}).update(norm_keys_dict(op[3]))
    elif kind == 'delete':
        model.get(target, {}).pop(peer, None)
    elif kind == 'delete_all':
        model[target] = {}
    return model


def site_of(exc) -> str:
    site = '?'
    for fs in traceback.extract_tb(exc.__traceback__):
        if fs.filename.endswith(os.path.join('bumble', 'keys.py')):
            site = fs.name
    return f'{type(exc).__name__}@{site}'


# ---------------------------------------------------------------------------
# one history
# ---------------------------------------------------------------------------
class Stop(Exception):
    """First violation of a case was recorded; stop interpreting it."""


_case_counter = [0]


def run_history(ctx, case, with_sample: bool = True) -> None:
    from bumble import hci
    from bumble.keys import JsonKeyStore

    namespaces = [None if n is None else str(n) for n in case['namespaces']]
    peers = PEERS[: max(1, min(4, int(case['npeers'])))]
    initial = case['initial']
    cuts = [int(c) for c in case.get('cuts') or [500]]
    ops = [tuple(o) for o in case['ops']]
    crash_mode = case.get('crash', 'all')  # 'all' | 'none' | 'last'

    location = case.get('location', 'file')  # 'file': explicit filename | 'appdir': JsonKeyStore(ns), no filename

    _case_counter[0] += 1
    root = os.path.realpath(os.path.join(ctx.outdir('ks'), f'case{os.getpid()}_{_case_counter[0]}'))
    shutil.rmtree(root, ignore_errors=True)
    os.makedirs(root)
    app_patches = []
    if location == 'appdir':
        # The configuration of JsonKeyStore.from_device() without a file name: one file per (sanitised) namespace
        # below the per-user data directory, which is redirected into the case directory and does not exist yet.
        import platformdirs

        appbase = os.path.join(root, 'home', 'share', 'Bumble')
        app_patches = [
            mock.patch.object(platformdirs, 'user_data_path', lambda *a, **k: pathlib.Path(appbase)),
            mock.patch.object(platformdirs, 'user_data_dir', lambda *a, **k: appbase),
        ]
        for p in app_patches:
            p.start()
        try:
            probes = [JsonKeyStore(ns) for ns in namespaces]
        except Exception:
            for p in app_patches:
                p.stop()
            shutil.rmtree(root, ignore_errors=True)
            raise
        where_to = [os.path.abspath(str(s.filename)) for s in probes]
        if any(not w.startswith(root + os.sep) for w in where_to):
            for p in app_patches:
                p.stop()
            shutil.rmtree(root, ignore_errors=True)
            raise HarnessBug(f'a store without file name escapes the redirected data directory: {where_to}')
        # handles whose namespace maps to another file than the first one's are left out: this harness follows
        # one file per case (which names share a file is not part of the property)
        kept = [ns for ns, w in zip(namespaces, where_to) if w == where_to[0]]
        split = len(kept) != len(namespaces)
        namespaces = kept
        path = where_to[0]
        if initial not in ('absent', 'empty', 'seeded1', 'seeded2'):
            initial = 'absent'
        if initial != 'absent':
            os.makedirs(os.path.dirname(path))
    else:
        split = False
        sub = {'subdir': 'sub', 'subdir2': os.path.join('sub', 'deep')}.get(initial, '')
        path = os.path.join(root, sub, 'keys.json')
    tmp_path = path + '.tmp'
    handle_names = set(namespaces)

    def mk(ns):
        """A new instance the way the case's handles are made (other namespaces of the file: by file name)."""
        if location == 'appdir' and ns in handle_names:
            return JsonKeyStore(ns)
        return JsonKeyStore(ns, path)

    model: dict[str, dict[str, dict]] = {}
    if initial == 'empty':
        with open(path, 'w') as f:
            f.write('{}')
    elif initial in ('seeded1', 'seeded2'):
        n = 1 if initial == 'seeded1' else 2
        seeded = {FOREIGN[i]: {PEERS[i]: SEED_ENTRY_RAW} for i in range(n)}
        with open(path, 'w') as f:
            json.dump(seeded, f)  # compact, unsorted: not the store's own formatting
        entry = {
            'address_type': 0,
            'irk': {'value': bytes.fromhex(SEED_ENTRY_RAW['irk']['value']), 'authenticated': False, 'ediv': None, 'rand': None},
            'link_key': {'value': bytes.fromhex(SEED_ENTRY_RAW['link_key']['value']), 'authenticated': True, 'ediv': None, 'rand': None},
            'ltk': {'value': bytes.fromhex(SEED_ENTRY_RAW['ltk']['value']), 'authenticated': False, 'ediv': 7, 'rand': bytes.fromhex('0102030405060708')},
        }
        for i in range(n):
            model[FOREIGN[i]] = {PEERS[i]: copy.deepcopy(entry)}

    labels = set()
    if location == 'appdir':
        labels.add('appdir')
        if any(n is not None and '/' in n for n in namespaces):
            labels.add('appdir_namespace_with_slash')
        if len(namespaces) >= 2:
            labels.add('appdir_shared_file')
        if split:
            labels.add('appdir_split_files')
    counts = {'points': 0, 'write': 0, 'replace': 0, 'mkdir': 0, 'open': 0, 'close': 0, 'end': 0, 'other': 0, 'ops': 0, 'burst': 0}
    nontrivial = False
    inj = Injector()
    inj.install()
    loop = vloop.new_loop()

    def fail(sig, what, step, crash=None):
        c = {
            'kind': 'history',
            'namespaces': namespaces,
            'npeers': len(peers),
            'initial': initial,
            'location': location,
            'cuts': cuts,
            'crash': 'last' if crash else 'none',
            'ops': ops[: step + 1],
        }
        ctx.fail(sig, what, c)
        raise Stop()

    def call(make_coro):
        """Run one store coroutine; returns (result, exception)."""
        try:
            return loop.complete(make_coro()), None
        except (vloop.Stalled, vloop.HorizonExceeded):
            raise
        except Exception as e:  # the store raised
            return None, e

    def parse_file():
        """('ok', db) | ('absent', {}) | (problem, None)"""
        raw = read_bytes(path)
        if raw is None:
            return 'absent', {}
        try:
            db = json.loads(raw.decode('utf-8'))
        except (ValueError, UnicodeDecodeError):
            return 'unparseable', None
        if not isinstance(db, dict):
            return 'not_object', None
        for v in db.values():
            if not isinstance(v, dict) or any(not isinstance(e, dict) for e in v.values()):
                return 'not_object_of_objects', None
        return 'ok', db

    def read_all(ns):
        """Fresh instance -> {peer: entry} or (None, problem)."""
        got, exc = call(lambda: mk(ns).get_all())
        if exc is not None:
            return None, ('read_raises/get_all/' + site_of(exc), f'get_all() of a fresh instance raised {exc!r}')
        out = {}
        for name, pk in got:
            if name in out:
                return None, ('get_all/duplicate_peer', f'{name} listed twice')
            out[name] = norm_pairing_keys(pk)
        return out, None

    def check_state(expect: dict, prior_db, target):
        """Compare the directory with the model. Returns (None, db) or ((sig, what), None)."""
        status, db = parse_file()
        if db is None:
            words = {
                'unparseable': 'is not parseable JSON',
                'not_object': 'no longer holds a JSON object of namespaces',
                'not_object_of_objects': 'holds a namespace or a peer entry that is not a JSON object',
            }[status]
            return (f'file/{status}', f'the key file {words} (it starts with {read_bytes(path)[:40]!r})'), None
        # non-empty namespaces of model and file must coincide; every namespace reads as the model says
        # (`target`: the namespace the operation was aimed at, or the set of them for a burst)
        targets = target if isinstance(target, (set, frozenset)) else {target}
        names = set(expect) | set(db) | {n for n in namespaces if n is not None}
        for ns in sorted(names):
            want = expect.get(ns, {})
            if want and ns not in db:
                clause = 'state' if ns in targets else 'isolation'
                return (f'{clause}/namespace_lost', f'namespace {ns!r} with {len(want)} peer(s) is gone from the file'), None
            got, problem = read_all(ns)
            if got is None:
                return problem, None
            d = diff_map(want, got)
            if d is not None:
                clause = 'state' if ns in targets else 'isolation'
                return (f'{clause}/{d[0]}', f'namespace {ns!r}: {d[1]}'), None
        # raw JSON of the other namespaces is untouched
        if prior_db is not None:
            for ns, raw in prior_db.items():
                if ns not in targets and raw and db.get(ns) != raw:
                    return ('isolation/raw_changed', f'raw JSON of namespace {ns!r} changed by an operation on {sorted(targets)!r}'), None
        # the default view
        dns, _ = resolve(None, list(db))
        got, problem = read_all(None)
        if got is None:
            return problem, None
        d = diff_map(expect.get(dns, {}), got)
        if d is not None:
            return (f'default_view/{d[0]}', f'default namespace should read {dns!r}: {d[1]}'), None
        return None, db

    def do_burst(step, op):
        """2..3 mutating operations made together (asyncio.gather): none is awaited before the next one is made.
        What the store holds afterwards must be the result of applying all of them in SOME order."""
        nonlocal model, cur_db
        subs = [tuple(x) for x in op[1]][:3]
        if len(subs) < 2 or any(x[0] not in MUTATING for x in subs):
            raise HarnessBug(f'bad burst {op!r}')
        keys0 = sorted(cur_db)
        hs = [int(x[1]) % len(namespaces) for x in subs]
        explicit = sorted({namespaces[h] for h in hs if namespaces[h] is not None})
        bound = resolve(None, keys0)[0]
        if any(namespaces[h] is None for h in hs) and not all(
            resolve(None, sorted(set(keys0) | set(extra)))[0] == bound
            for r in range(len(explicit) + 1)
            for extra in itertools.combinations(explicit, r)
        ):
            # which namespace the default handle binds to would depend on which operation of the burst reaches
            # the file first (and on whether it leaves an empty namespace, which is open): its operations go to
            # the first explicit handle instead
            first_explicit = next(i for i, n in enumerate(namespaces) if n is not None)
            hs = [first_explicit if namespaces[h] is None else h for h in hs]
            labels.add('burst_default_redirected')
        plan = []
        for x, h in zip(subs, hs):
            target = resolve(namespaces[h], keys0)[0]
            peer = peers[int(x[2]) % len(peers)] if x[0] in ('update', 'delete') else None
            if x[0] == 'delete' and len(x) > 3 and x[3] == 'stored' and model.get(target):
                stored = sorted(model[target])
                peer = stored[int(x[2]) % len(stored)]
            plan.append((x[0], h, target, peer, x, make_pairing_keys(x[3]) if x[0] == 'update' else None))
            if x[0] == 'update':
                labels.update(value_labels(x[3]))
        said = ', '.join(f'{k}({namespaces[h]!r}{"" if peer is None else ", " + peer})' for k, h, _t, peer, _x, _k in plan)

        def one(item):
            k, h, _t, peer, _x, keys_obj = item
            if k == 'update':
                return stores[h].update(peer, keys_obj)
            if k == 'delete':
                return stores[h].delete(peer)
            return stores[h].delete_all()

        async def together():
            return await asyncio.gather(*[one(item) for item in plan], return_exceptions=True)

        results, exc = call(together)
        if exc is not None:
            fail(f'raises/burst/{site_of(exc)}', f'{said} made together raised {exc!r}', step)
        for item, r in zip(plan, results):
            if isinstance(r, BaseException) and item[0] != 'delete':
                fail(f'raises/burst/{item[0]}/{site_of(r)}', f'{said} made together: {item[0]} raised {r!r}', step)
        # every order of applying them (a delete that raised must have found its peer absent at its turn)
        candidates = []
        for perm in itertools.permutations(range(len(plan))):
            m = copy.deepcopy(model)
            for i in perm:
                k, _h, target, peer, x, _k = plan[i]
                if k == 'delete' and isinstance(results[i], BaseException) and peer in m.get(target, {}):
                    break
                apply_op(m, target, x, peer)
            else:
                if m not in candidates:
                    candidates.append(m)
        if not candidates:
            r = next(r for r in results if isinstance(r, BaseException))
            fail(f'raises/burst/delete/{site_of(r)}', f'{said} made together: the delete of a stored peer raised {r!r}', step)
        targets = frozenset(item[2] for item in plan)
        first_problem, chosen, db = None, None, None
        for m in candidates:
            problem, db = check_state(m, cur_db, targets)
            if problem is None:
                chosen = m
                break
            first_problem = first_problem or problem
        if chosen is None:
            fail(
                f'burst/{first_problem[0]}',
                f'{said} made together without awaiting one before making the next: no order of applying them gives '
                f'what the store holds afterwards; against the order of the calls: {first_problem[1]}',
                step,
            )
        for h in sorted({item[1] for item in plan}):
            got, exc2 = call(lambda: stores[h].get_all())
            if exc2 is not None:
                fail(f'raises/get_all/{site_of(exc2)}', f'get_all after a burst raised {exc2!r}', step)
            t = resolve(namespaces[h], list(db))[0]
            d = diff_map(chosen.get(t, {}), {name: norm_pairing_keys(pk) for name, pk in got})
            if d is not None:
                fail(f'same_instance/{d[0]}/burst', f'get_all of an instance that took part in {said}: {d[1]}', step)
        labels.add('burst')
        labels.add('burst_multi_namespace' if len(targets) >= 2 else 'burst_same_namespace')
        if len({item[1] for item in plan}) >= 2 and len(targets) < len({item[1] for item in plan}):
            labels.add('burst_two_handles_one_namespace')
        if len(candidates) >= 2:
            labels.add('burst_order_matters')
        if any(isinstance(r, BaseException) for r in results):
            labels.add('burst_delete_absent_raises')
        counts['ops'] += len(plan)
        counts['burst'] += 1
        model = chosen
        cur_db = db

    try:
        stores = [mk(ns) for ns in namespaces]
        status, cur_db = parse_file()
        if cur_db is None:
            raise HarnessBug('initial file broken')
        if model:
            # a file written by someone else (other formatting) reads as what it says
            problem, _ = check_state(model, None, None)
            if problem is not None:
                fail(f'{problem[0]}/foreign_file', f'reading a pre-existing file: {problem[1]}', -1)
        for step, op in enumerate(ops):
            kind = op[0]
            if kind == 'burst':
                do_burst(step, op)
                nontrivial = True
                if len(cur_db) >= 2:
                    labels.add('multi_namespace_file')
                    if sum(1 for v in cur_db.values() if v) >= 2:
                        labels.add('multi_namespace_nonempty')
                continue
            if kind == 'litter':
                # a stale temp file as a crash of an earlier process would have left it
                main = read_bytes(path) or b'{\n    "trunc'
                if os.path.isdir(os.path.dirname(path)):
                    with open(tmp_path, 'wb') as f:
                        f.write(main[: len(main) * int(op[1]) // 1000])
                    labels.add('stale_tmp_planted')
                continue
            h = int(op[1]) % len(namespaces)
            ns, store = namespaces[h], stores[h]
            target, how = resolve(ns, list(cur_db))
            if how == 'default_adopted':
                labels.add('default_adoption')
                if kind in MUTATING:
                    labels.add('default_adoption_mutating')
            elif how == 'default_new':
                labels.add('default_new' if len(cur_db) == 0 else 'default_new_beside_others')
            where = f'{kind}@{how}' if how == 'default_adopted' else kind
            peer = peers[int(op[2]) % len(peers)] if kind in ('update', 'delete', 'get') else None
            if kind == 'delete' and len(op) > 3 and op[3] == 'stored' and model.get(target):
                # aim at a peer the namespace really holds (the index counts the stored peers)
                stored = sorted(model[target])
                peer = stored[int(op[2]) % len(stored)]
            stale_tmp = os.path.exists(tmp_path)

            if kind in MUTATING:
                counts['ops'] += 1
                present = peer in model.get(target, {}) if peer else None
                if kind == 'update':
                    keys_obj = make_pairing_keys(op[3])
                    labels.add('update_merge' if present else 'update_new')
                    labels.update(value_labels(op[3]))
                    make = lambda s=store: s.update(peer, keys_obj)  # noqa: E731
                elif kind == 'delete':
                    labels.add('delete_present' if present else 'delete_absent')
                    make = lambda s=store: s.delete(peer)  # noqa: E731
                else:
                    make = lambda s=store: s.delete_all()  # noqa: E731
                if stale_tmp:
                    labels.add('mutation_with_stale_tmp')
                pre_snap = snapshot(root)
                pre_main = read_bytes(path)
                pre_model = model
                post_model = apply_op(copy.deepcopy(model), target, op, peer)

                # -- un-crashed run, counting the file-system steps ------------------
                inj.arm('count')
                try:
                    _, exc = call(make)
                finally:
                    kinds = list(inj.steps)
                    inj.disarm()
                n_steps = len(kinds)
                if exc is not None:
                    if kind == 'delete' and not present:
                        labels.add('delete_absent_raises')
                    else:
                        fail(f'raises/{where}/{site_of(exc)}', f'{kind} raised {exc!r}', step)
                problem, db = check_state(post_model, cur_db, target)
                if problem is not None:
                    sig, what = problem
                    if sig.startswith('file/'):
                        fail(f'{sig}@{how}', f'after {kind}: {what}', step)
                    fail(f'{sig}/{where}', f'after {kind}: {what}', step)
                # within one instance: the handle that made the change reads it back, and so does a fresh get()
                got, exc2 = call(lambda: store.get_all())
                if exc2 is not None:
                    fail(f'raises/get_all/{site_of(exc2)}', f'get_all after {kind} raised {exc2!r}', step)
                d = diff_map(post_model.get(target, {}), {name: norm_pairing_keys(pk) for name, pk in got})
                if d is not None:
                    fail(f'same_instance/{d[0]}/{where}', f'get_all of the instance that did the {kind}: {d[1]}', step)
                if peer is not None:
                    got, exc2 = call(lambda: mk(ns).get(peer))
                    if exc2 is not None:
                        fail(f'raises/get/{site_of(exc2)}', f'get after {kind} raised {exc2!r}', step)
                    want_entry = post_model.get(target, {}).get(peer)
                    if (got is None) != (want_entry is None) or (
                        got is not None and diff_entry(want_entry, norm_pairing_keys(got)) is not None
                    ):
                        fail(f'get/after_{kind}/{where}', f'fresh get({peer}) returned {got!r}, model has {want_entry!r}', step)
                post_main = read_bytes(path)
                post_snap = snapshot(root)

                # -- crash at every step ----------------------------------------------
                do_crash = crash_mode == 'all' or (crash_mode == 'last' and step == len(ops) - 1)
                if do_crash and n_steps:
                    if 'mkdir' in kinds:
                        labels.add('crash_at_mkdir')
                        if location == 'appdir':
                            labels.add('appdir_crash_at_mkdir')
                    for k in range(n_steps + 1):
                        phase = kinds[k] if k < n_steps else 'end'
                        restore(root, pre_snap)
                        inj.arm('crash', k, n_steps, cuts[k % len(cuts)])
                        diverged = None
                        try:
                            loop.complete(make())
                            diverged = f'completed without reaching file-system step {k}/{n_steps}'
                        except Crash:
                            pass
                        except HarnessBug:
                            raise
                        except Exception as e:  # noqa: BLE001 - judged below
                            diverged = f'raised {e!r}'
                        finally:
                            inj.disarm()
                        if diverged is not None:
                            # The same operation on the same (restored) file state must take the same
                            # file-system steps: if it does not, the instance carries state that is not
                            # in the file, so what it returns no longer equals the applied history.
                            fail(f'instance_state_outside_file/{kind}',
                                 f'{kind} re-run on the restored pre-state {diverged}', step, crash=True)
                        counts['points'] += 1
                        counts[phase if phase in counts else 'other'] += 1
                        if phase == 'write':
                            labels.add('crash_in_write')
                            nontrivial = True
                        elif phase == 'replace':
                            labels.add('crash_between_close_and_rename')
                        now = read_bytes(path)
                        if now == post_main:
                            state = post_model
                        elif now == pre_main:
                            state = pre_model
                        else:
                            fail(
                                f'crash/{phase}/torn_file',
                                f'process death at file-system step {k}/{n_steps} ({phase}) of {kind}: the key file is neither '
                                f'the previous nor the new state ({"absent" if now is None else repr(now[:40])})',
                                step,
                                crash=True,
                            )
                        problem, db_now = check_state(state, None, target)
                        if problem is not None:
                            fail(
                                f'crash/{phase}/{problem[0]}',
                                f'after process death at step {k}/{n_steps} ({phase}) of {kind}: {problem[1]}',
                                step,
                                crash=True,
                            )
                        # the next operation (a retry of the same one) works despite the stale temp file
                        if os.path.exists(tmp_path):
                            labels.add('retry_with_stale_tmp')
                        t2, _ = resolve(ns, list(db_now))
                        present2 = peer in state.get(t2, {}) if peer else None
                        want = apply_op(copy.deepcopy(state), t2, op, peer)
                        _, exc = call(make)
                        if exc is not None and not (kind == 'delete' and not present2):
                            fail(
                                f'crash/{phase}/next_op_raises/{site_of(exc)}',
                                f'{kind} retried after process death at step {k}/{n_steps} ({phase}) raised {exc!r}',
                                step,
                                crash=True,
                            )
                        # the un-crashed run's result was verified through fresh instances above: identical
                        # bytes need no second look, anything else gets the full comparison
                        if want != post_model or read_bytes(path) != post_main:
                            problem, _ = check_state(want, db_now, t2)
                            if problem is not None:
                                fail(
                                    f'crash/{phase}/next_op/{problem[0]}',
                                    f'{kind} retried after process death at step {k}/{n_steps} ({phase}): {problem[1]}',
                                    step,
                                    crash=True,
                                )
                    restore(root, post_snap)
                model = post_model
                cur_db = db
            else:
                if kind == 'reopen':
                    stores[h] = store = mk(ns)
                    labels.add('reopen')
                    nontrivial = True
                elif kind == 'get':
                    got, exc = call(lambda: store.get(peer))
                    if exc is not None:
                        fail(f'raises/{where}/{site_of(exc)}', f'get raised {exc!r}', step)
                    want = model.get(target, {}).get(peer)
                    if (got is None) != (want is None):
                        fail(f'get/presence/{where}', f'get({peer}) returned {got!r}, model has {want!r}', step)
                    if want is not None:
                        d = diff_entry(want, norm_pairing_keys(got))
                        if d is not None:
                            fail(f'get/field:{d}/{where}', f'get({peer}) returned {got!r}, model has {want!r}', step)
                elif kind == 'resolving':
                    got, exc = call(lambda: store.get_resolving_keys())
                    if exc is not None:
                        fail(f'raises/{where}/{site_of(exc)}', f'get_resolving_keys raised {exc!r}', step)
                    want = []
                    for name, entry in model.get(target, {}).items():
                        if 'irk' in entry:
                            a = hci.Address(name, hci.AddressType(entry.get('address_type', 1)))
                            want.append((entry['irk']['value'], bytes(a.address_bytes), int(a.address_type)))
                    have = [(bytes(v), bytes(a.address_bytes), int(a.address_type)) for v, a in got]
                    if sorted(have) != sorted(want):
                        fail(f'resolving_keys/{where}', f'get_resolving_keys returned {have!r}, model says {want!r}', step)
                    if want:
                        labels.add('resolving_keys_nonempty')
                elif kind != 'get_all':
                    raise HarnessBug(f'unknown op {op!r}')
                # the (persistent) instance itself reads the model ...
                got, exc = call(lambda: store.get_all())
                if exc is not None:
                    fail(f'raises/get_all/{site_of(exc)}', f'get_all raised {exc!r}', step)
                have = {}
                for name, pk in got:
                    if name in have:
                        fail(f'get_all/duplicate_peer/{where}', f'{name} listed twice', step)
                    have[name] = norm_pairing_keys(pk)
                d = diff_map(model.get(target, {}), have)
                if d is not None:
                    fail(f'get_all/{d[0]}/{where}', f'get_all of the handle bound to {target!r}: {d[1]}', step)
                # ... and reading changed nothing
                problem, db = check_state(model, cur_db, None)
                if problem is not None:
                    fail(f'{problem[0]}/{where}', f'after {kind}: {problem[1]}', step)
                cur_db = db
            if len(cur_db) >= 2:
                labels.add('multi_namespace_file')
                nontrivial = True
                if sum(1 for v in cur_db.values() if v) >= 2:
                    labels.add('multi_namespace_nonempty')
    except Stop:
        labels.add('case_failed')
    finally:
        inj.uninstall()
        for p in app_patches:
            p.stop()
        loop.shutdown()
        shutil.rmtree(root, ignore_errors=True)

    for key, v in counts.items():
        name = {'points': 'sum_crash_points', 'ops': 'sum_mutating_ops', 'burst': 'sum_bursts'}.get(key, f'sum_crash_points_{key}')
        ctx.extra[name] = ctx.extra.get(name, 0) + v
    ctx.case(
        ('h', namespaces, len(peers), initial, ops) if location == 'file' else ('h', location, namespaces, len(peers), initial, ops),
        nontrivial,
        labels,
        sample=(
            {'namespaces': namespaces, 'peers': len(peers), 'initial': initial, 'location': location,
             'ops': [brief(o) for o in ops[:8]]}
            if with_sample
            else None
        ),
    )


def brief(op):
    if op[0] == 'burst':
        return ['burst', [brief(tuple(x)) for x in op[1]]]
    if op[0] == 'update':
        return ['update', op[1], op[2], sorted(k for k, v in op[3].items() if v is not None)]
    return list(op)


# ---------------------------------------------------------------------------
# generators
# ---------------------------------------------------------------------------
EDIV_EDGES = [None, 0, 1, 0xFF, 0x100, 0xFFFF]
RAND_EDGES = [None, b'', bytes(8), bytes(range(0xF0, 0xF8)), b'\x00', bytes(range(16))]


def key_strategy():
    return st.fixed_dictionaries(
        {
            'value': st.one_of(st.binary(min_size=16, max_size=16), st.binary(min_size=0, max_size=32)),
            'authenticated': st.booleans(),
            # EDIV is any 16-bit number; Rand is `bytes | None`: the empty string and the all-zero value (what LE
            # Secure Connections stores) are values, not "absent"
            'ediv': st.one_of(
                st.sampled_from([None, 0, 0xFFFF]),
                st.sampled_from([None, 0, 0xFFFF]),
                st.sampled_from(EDIV_EDGES),
                st.integers(0, 0xFFFF),
            ),
            'rand': st.one_of(
                st.none(),
                st.binary(min_size=8, max_size=8),
                st.binary(min_size=8, max_size=8),
                st.sampled_from(RAND_EDGES),
                st.binary(min_size=0, max_size=16),
            ),
        }
    )


def keys_strategy():
    optional = {slot: key_strategy() for slot in KEY_SLOTS}
    # every member of hci.AddressType (0..3, 254 unable-to-resolve, 255 anonymous)
    optional['address_type'] = st.one_of(st.integers(0, 3), st.integers(0, 3), st.sampled_from([254, 255]))
    optional['link_key_type'] = st.one_of(st.integers(0, 8), st.integers(0, 8), st.sampled_from([255]))
    return st.fixed_dictionaries({}, optional=optional)


def value_labels(kd) -> set:
    """Classes of field values an update carries (floors keep them from vanishing)."""
    out = set()
    for field, v in kd.items():
        if v is None:
            continue
        if field in KEY_SLOTS:
            rand, ediv = v.get('rand'), v.get('ediv')
            if rand is not None:
                rand = bytes(rand)
                if rand == b'':
                    out.add('rand_empty')
                elif not any(rand):
                    out.add('rand_all_zero')
                if len(rand) not in (0, 8):
                    out.add('rand_other_length')
            if ediv is not None and ediv not in (0, 0xFFFF):
                out.add('ediv_other_value')
            if ediv == 0 and rand is not None and len(rand) == 8 and not any(rand):
                out.add('ediv_rand_zero')
        elif field == 'address_type' and int(v) >= 254:
            out.add('address_type_254_255')
        elif field == 'link_key_type' and int(v) > 8:
            out.add('link_key_type_above_8')
    return out


def history_strategy(min_ops: int, max_ops: int, profile: str):
    h = st.integers(0, 2)
    p = st.integers(0, 3)
    upd = st.tuples(st.just('update'), h, p, keys_strategy())
    # 2..3 mutating operations made together (asyncio.gather), on the same or on different handles
    burst = st.tuples(
        st.just('burst'),
        st.lists(
            st.one_of(
                upd,
                upd,
                upd,
                st.tuples(st.just('delete'), h, p),
                st.tuples(st.just('delete'), h, p, st.just('stored')),
                st.tuples(st.just('delete_all'), h),
            ),
            min_size=2,
            max_size=3,
        ),
    )
    op = st.one_of(
        upd,
        upd,
        upd,
        st.tuples(st.just('delete'), h, p),
        st.tuples(st.just('delete'), h, p, st.just('stored')),
        st.tuples(st.just('delete_all'), h),
        st.tuples(st.just('get'), h, p),
        st.tuples(st.just('get_all'), h),
        st.tuples(st.just('resolving'), h),
        st.tuples(st.just('reopen'), h),
        st.tuples(st.just('litter'), st.integers(0, 1000)),
        burst,
        burst,
    )

    def cases(namespaces, initial, location='file'):
        return st.fixed_dictionaries(
            {
                'kind': st.just('history'),
                'namespaces': namespaces,
                'npeers': st.integers(1, 4),
                'initial': initial,
                'location': st.just(location),
                'cuts': st.lists(st.integers(0, 1000), min_size=1, max_size=4),
                'crash': st.just('all'),
                'ops': st.lists(op, min_size=min_ops, max_size=max_ops),
            }
        )

    if profile == 'multi':
        # at least two handles on the one file
        return cases(
            st.lists(st.sampled_from(NS_POOL), min_size=2, max_size=3, unique=True), st.sampled_from(INITIALS)
        )
    if profile == 'adoption':
        # the default namespace alone or beside one explicit namespace, often on a file that already holds
        # exactly one (foreign) namespace: the docstring's "namespace isn't known" use
        return cases(
            st.one_of(
                st.just([None]),
                st.sampled_from(NS_POOL[1:]).flatmap(lambda x: st.permutations([None, x])),
            ),
            st.sampled_from(['seeded1', 'seeded1', 'absent', 'subdir']),
        )
    if profile == 'appdir':
        # no file name: the file is <user data dir>/Pairing/<sanitised namespace>.json. One handle of any name, or
        # several whose names fall on the same file (the property is about what they read back, not about which
        # names share a file: handles that land elsewhere are dropped by run_history)
        return cases(
            st.one_of(
                st.sampled_from(APP_SINGLE).map(lambda x: [x]),
                st.lists(st.sampled_from(APP_COLLIDING), min_size=2, max_size=3, unique=True),
                st.permutations([None, 'keys']),
                st.just([None, 'KEYS']),
            ),
            st.sampled_from(['absent', 'absent', 'absent', 'empty', 'seeded1']),
            location='appdir',
        )
    return cases(
        st.lists(st.sampled_from(NS_POOL), min_size=1, max_size=3, unique=True), st.sampled_from(INITIALS)
    )


def roundtrip_case(i: int) -> dict:
    """Exhaustive field-presence product: 64 slot subsets x 5 address types x 10 link-key types."""
    mask, rest = i % 64, i // 64
    at, lkt = rest % 5, rest // 5

    def key(slot_i, salt):
        n = (slot_i * 7 + mask + salt) % 33
        return {
            'value': bytes((slot_i * 37 + j * 11 + mask + salt) & 0xFF for j in range(n)),
            'authenticated': bool((mask >> slot_i ^ salt) & 1),
            'ediv': [None, 0, 0xFFFF][(slot_i + mask + salt) % 3],
            'rand': None if (slot_i + mask + salt) % 2 else bytes((0xF0 + slot_i + j) & 0xFF for j in range(8)),
        }

    first = {slot: key(j, 0) for j, slot in enumerate(KEY_SLOTS) if mask >> j & 1}
    if at:
        first['address_type'] = at - 1
    if lkt:
        first['link_key_type'] = lkt - 1
    # overlay with the complementary subset (merge), then overwrite a few of the first ones
    second = {slot: key(j, 1) for j, slot in enumerate(KEY_SLOTS) if not mask >> j & 1 or j % 3 == 0}
    return {
        'kind': 'history',
        'namespaces': ['F0:F1:F2:F3:F4:F5'],
        'npeers': 2,
        'initial': 'absent',
        'cuts': [500],
        'crash': 'none',
        'ops': [('update', 0, 0, first), ('get', 0, 0), ('update', 0, 0, second), ('resolving', 0), ('update', 0, 1, first)],
    }


def _dkey(seed: int, n: int = 16, authenticated: bool = False, ediv=None, rand=None) -> dict:
    return {
        'value': bytes((seed * 29 + j * 13 + 5) & 0xFF for j in range(n)),
        'authenticated': authenticated,
        'ediv': ediv,
        'rand': rand,
    }


N_VALUE_CASES = len(EDIV_EDGES) * len(RAND_EDGES)


def values_case(i: int) -> dict:
    """Directed field values: every (EDIV, Rand) pair of the edge lists on all six key slots, written, read back,
    overwritten by the next pair (a slot is replaced as a whole), read by a re-opened store; address types over all
    members of hci.AddressType, link-key types 0 / 8 / 255."""
    ediv, rand = EDIV_EDGES[i // len(RAND_EDGES)], RAND_EDGES[i % len(RAND_EDGES)]
    j = (i + 7) % N_VALUE_CASES
    ediv2, rand2 = EDIV_EDGES[j // len(RAND_EDGES)], RAND_EDGES[j % len(RAND_EDGES)]
    first = {slot: _dkey(i + n, (i + 5 * n) % 33, bool((i + n) & 1), ediv, rand) for n, slot in enumerate(KEY_SLOTS)}
    first['address_type'] = [0, 1, 2, 3, 254, 255][i % 6]
    first['link_key_type'] = [0, 8, 255][i % 3]
    second = {slot: _dkey(i + n + 50, 16, bool((i + n) & 2), ediv2, rand2) for n, slot in enumerate(KEY_SLOTS) if n % 2 == i % 2}
    second['address_type'] = [255, 254, 3, 2, 1, 0][i % 6]
    return {
        'kind': 'history',
        'namespaces': ['F0:F1:F2:F3:F4:F5', None],
        'npeers': 2,
        'initial': 'absent',
        'cuts': [500],
        'crash': 'none',
        'ops': [
            ('update', 0, 0, first),
            ('get', 0, 0),
            ('resolving', 1),
            ('update', 1, 1, first),
            ('update', 0, 0, second),
            ('reopen', 0),
            ('get', 0, 0),
            ('resolving', 0),
        ],
    }


BURST_RELATIONS = ('same_handle', 'two_namespaces', 'two_handles_one_namespace')
N_BURST_CASES = len(MUTATING) ** 2 * len(BURST_RELATIONS) * 2


def burst_case(i: int) -> dict:
    """Directed bursts: every ordered pair of mutating operations x (one handle / two handles on two namespaces /
    two handles bound to one namespace: the default handle adopts the file's only namespace) x (same peer /
    different peers), on a file where both peers are stored; every fourth case adds a third operation; the same
    burst is then made in the opposite order of calls after a re-open."""
    k1, rest = MUTATING[i % 3], i // 3
    k2, rest = MUTATING[rest % 3], rest // 3
    relation, same_peer = BURST_RELATIONS[rest % 3], bool(rest // 3)
    if relation == 'two_handles_one_namespace':
        namespaces, ha, hb = [None, 'hci-1'], 0, 1
    else:
        namespaces, ha, hb = ['F0:F1:F2:F3:F4:F5', 'hci-1'], 0, (0 if relation == 'same_handle' else 1)
    pa, pb = 0, (0 if same_peer else 1)

    def sub(kind, h, p, n):
        if kind == 'update':
            # the two updates set different fields: a lost one cannot be covered by the other
            if n == 0:
                return ('update', h, p, {'ltk': _dkey(i, 16, True, 0, bytes(8)), 'address_type': i % 4})
            return ('update', h, p, {'irk': _dkey(i + n), 'link_key_type': (i + n) % 4})
        if kind == 'delete':
            return ('delete', h, p)
        return ('delete_all', h)

    subs = [sub(k1, ha, pa, 0), sub(k2, hb, pb, 1)]
    if i % 4 == 0:
        subs.append(('update', hb, 1 - pb, {'csrk': _dkey(i + 2, 16, True)}))
    preload = [
        ('update', 1, 0, {'link_key': _dkey(1), 'link_key_type': 4}),
        ('update', 1, 1, {'ltk_central': _dkey(2, 16, False, 0xFFFF, bytes(range(8)))}),
        ('update', 0, 0, {'ltk_peripheral': _dkey(3), 'address_type': 1}),
        ('update', 0, 1, {'irk': _dkey(4), 'address_type': 0}),
    ]
    return {
        'kind': 'history',
        'namespaces': namespaces,
        'npeers': 2,
        'initial': 'absent',
        'cuts': [500],
        'crash': 'none',
        'ops': preload
        + [('burst', subs), ('get_all', 0), ('get_all', 1), ('reopen', 0)]
        + preload[::-1]
        + [('burst', subs[::-1]), ('get', 0, 0), ('get', 1, 1)],
    }


APP_DIRECTED = (
    [[x] for x in APP_SINGLE]
    + [list(APP_COLLIDING), APP_COLLIDING[:2], APP_COLLIDING[1:], [APP_COLLIDING[2], APP_COLLIDING[0]]]
    + [[None, 'keys'], ['keys', None], [None, 'KEYS']]
)


def appdir_case(i: int) -> dict:
    """Directed histories of stores made WITHOUT a file name (per-user data directory redirected into the case
    directory): every namespace list of APP_DIRECTED x (nothing there yet / file already there with a foreign
    namespace); crash points are enumerated for the operations of the first four lists."""
    namespaces = APP_DIRECTED[i % len(APP_DIRECTED)]
    seeded = i // len(APP_DIRECTED)
    return {
        'kind': 'history',
        'namespaces': namespaces,
        'npeers': 3,
        'initial': 'seeded1' if seeded else 'absent',
        'location': 'appdir',
        'cuts': [0, 500, 1000],
        'crash': 'all' if i % len(APP_DIRECTED) in (1, 4, 6, 10) and not seeded else 'none',
        'ops': [
            ('update', 0, 0, {'ltk': _dkey(i, 16, True, 0, bytes(8)), 'address_type': 1}),
            ('get', 0, 0),
            ('update', 1, 1, {'irk': _dkey(i + 1), 'address_type': 0}),
            ('reopen', 0),
            ('update', 0, 0, {'link_key': _dkey(i + 2), 'link_key_type': 5}),
            ('resolving', 1),
            ('burst', [('update', 0, 2, {'csrk': _dkey(i + 3)}), ('delete', 1, 0)]),
            ('get_all', 0),
            ('delete_all', 1),
            ('update', 0, 1, {'ltk_peripheral': _dkey(i + 4, 16, False, 0xFFFF, bytes(range(8)))}),
            ('reopen', 1),
            ('get', 1, 1),
        ],
    }


# ---------------------------------------------------------------------------
def run(ctx) -> None:
    vloop.selftest()
    injector_selftest(ctx)
    import bumble

    ctx.extra['bumble_path'] = os.path.dirname(os.path.abspath(bumble.__file__))
    # field-presence product: thorough = all 64 x 5 x 10 combinations (sharded); quick = every slot subset with
    # every address type, link-key types cycling (320 cases)
    total = 64 * 5 * 10
    done = 0
    for i in range(total):
        if ctx.quick:
            mask, rest = i % 64, i // 64
            if rest // 5 != (mask + rest % 5) % 10:
                continue
        elif i % ctx.nshards != ctx.shard:
            continue
        run_history(ctx, roundtrip_case(i), with_sample=(done == 0))
        done += 1
    ctx.extra['sum_roundtrip_product_cases'] = done
    ctx.extra['roundtrip_product_exhaustive'] = not ctx.quick
    # every singly made mutating op of every history had ALL of its N+1 crash points tried (none sampled);
    # the operations inside a burst are made without crash injection
    ctx.extra['crash_points_per_operation_exhaustive'] = True
    ctx.extra['crash_injected_inside_bursts'] = False
    # directed families (small: every shard of the thorough tier runs all of them, so that their floors hold per shard)
    for n, (family, count) in enumerate(
        (('values', N_VALUE_CASES), ('burst', N_BURST_CASES), ('appdir', 2 * len(APP_DIRECTED)))
    ):
        make = (values_case, burst_case, appdir_case)[n]
        for i in range(count):
            run_history(ctx, make(i), with_sample=(i == 0))
        ctx.extra[f'sum_directed_{family}_cases'] = count
    min_ops, max_ops = ctx.pick((3, 12), (6, 30))
    for profile, quick, thorough in (
        # (60/30/60 instead of 50/25/50: two of thirteen operations are bursts now, which have no crash points;
        # the number of crash-enumerated operations per run stays what it was)
        ('multi', 60, 2240),
        ('adoption', 30, 1120),
        ('general', 60, 2240),
        ('appdir', 12, 480),
    ):
        ctx.hyp(
            profile,
            lambda c: run_history(ctx, c),
            history_strategy(min_ops, max_ops, profile),
            max_examples=ctx.n(quick, thorough),
        )
    # (the runner reports instead of failing a floor when violations or the tier budget cut cases short)
    ctx.floor('multi_namespace_file', 10)
    ctx.floor('multi_namespace_nonempty', 3)
    ctx.floor('reopen', 10)
    ctx.floor('default_adoption', 5)
    ctx.floor('default_adoption_mutating', 3)
    ctx.floor('crash_in_write', 10)
    ctx.floor('crash_between_close_and_rename', 10)
    ctx.floor('crash_at_mkdir', 3)
    ctx.floor('retry_with_stale_tmp', 10)
    ctx.floor('update_merge', 10)
    ctx.floor('delete_present', 3)
    ctx.floor('delete_absent', 3)
    # operations made together
    ctx.floor('burst', 30)
    ctx.floor('burst_multi_namespace', 10)
    ctx.floor('burst_same_namespace', 10)
    ctx.floor('burst_two_handles_one_namespace', 5)
    ctx.floor('burst_order_matters', 5)
    # stores without a file name
    ctx.floor('appdir', 20)
    ctx.floor('appdir_namespace_with_slash', 5)
    ctx.floor('appdir_shared_file', 5)
    ctx.floor('appdir_crash_at_mkdir', 2)
    # field values
    ctx.floor('rand_empty', 5)
    ctx.floor('rand_all_zero', 5)
    ctx.floor('rand_other_length', 5)
    ctx.floor('ediv_other_value', 5)
    ctx.floor('ediv_rand_zero', 3)
    ctx.floor('address_type_254_255', 5)
    ctx.floor('link_key_type_above_8', 5)


def replay(ctx, case) -> None:
    if case.get('kind') != 'history':
        raise ValueError(case.get('kind'))
    run_history(ctx, case)
