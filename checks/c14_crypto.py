"""
C14 - Both crypto back ends agree with each other and with the specification.

`bumble.crypto.cryptography` (library) and `bumble.crypto.builtin` (pure Python) are
imported side by side.  The toolbox `bumble/crypto/__init__.py` is loaded a second
time under another module name while `bumble.crypto.cryptography` is unimportable, so
that copy takes the fallback branch and runs c1 ... ah / EccKey on the built-in
primitives; the normally imported copy runs on the library.

Oracles (all from the property text):
  differential   same output from both back ends for every generated input
  anchors        FIPS-197, RFC 4493, Core-spec sample data, P-256 vectors - both back ends
  algebra        ECDH symmetric across back ends
  invalid keys   a coordinate pair that is not a P-256 point is rejected by both back ends
  RPA            generate_private_address(irk) resolves under irk, not under another key

Extension (key objects, rare encodings, the real way of losing the library):
  keyobj         the key the stack really uses: EccKey.generate() (entropy fed from Hypothesis, a few
                 with the operating system's) or from_private_key_bytes, ONE object per case used for
                 a history of x / y / dh operations (valid peer, the same x with a wrong y, the negated
                 peer, the same peer again ...); every answer is judged against the harness's own
                 affine P-256 arithmetic: the property holds for every call, not only for the first
                 call on a fresh key
  small_secret   peer = d^-1 * T for a point T with a small x: the shared secret has 1..32 leading
                 zero octets (x = 0 included); public keys with a leading zero octet are looked up by
                 walking k*G
  selection      the toolbox is loaded a third time with the third-party package `cryptography`
                 itself unimportable (what a machine without the library looks like) and must still
                 reproduce FIPS-197 / RFC 4493 / 2*G
"""

from __future__ import annotations

import importlib.util
import os
import sys

from hypothesis import strategies as st

PROPERTY = 'C14'
LEVEL = 'exploration'
RULE = (
    'e: (key, block) 16 bytes each, random + all-zero/all-FF/single-bit. cmac: for every drawn '
    '(key, 1024-byte buffer) the prefix of EVERY length 0..80 and 255/256/257/1024 is MACed on both '
    'back ends, plus random lengths 0..300; classes = length mod 16 and the two sub-key carry bits '
    '(msb of L, msb of K1). toolbox: c1 s1 f4 f5 f6 g2 h6 h7 ah with correctly sized arguments on the '
    'library-backed toolbox and on a second copy of bumble/crypto/__init__.py loaded with the library '
    'back end unimportable. ecdh: scalar pairs in [1, n-1] biased to 1, 2, n-1, n-2, powers of two, '
    '2^k-1, small; public keys and the four shared secrets (A,B) x (library, built-in) compared. '
    'ecdh_lifted: arbitrary on-curve points obtained by lifting x (incl. x=0). invalid_key: random '
    'pairs, on-curve x with y+-1, (0,0), y=0, swapped, negated x, twist points, coordinates >= p. '
    'rpa: the real Address.generate_private_address (its entropy fed from Hypothesis through the '
    "toolbox's `secrets`; a few cases per run use the operating system's entropy and record the address) "
    'and smp.AddressResolver, generation and resolution each on either back end. '
    'keyobj: one EccKey object per case, made by EccKey.generate() (scalar fed through builtin.secrets / '
    "the library's ec.generate_private_key; 1 in 8 with the operating system's entropy, scalar read back from "
    'the key and recorded) or by from_private_key_bytes, on either back end, then 3..9 operations on THAT object: '
    'x, y, dh(valid lifted peer), dh(negated peer), dh(same x with y+1 / y-1 / y=0), dh(swapped), dh(x of one '
    'peer with y of another), peers from a pool of 1..3 so that peers and abscissas repeat; plus directed '
    'programs (valid, same x wrong y, valid again, y, x, negated, ...) at boundary scalars. Every answer is '
    'compared with the harness\'s own affine arithmetic on the FIPS 186-4 parameters. '
    'small_secret: shared point T lifted from an x of at most 8*(32-z) bits, z = 1..32 (x = 0 included), '
    'peer = d^-1 * T computed by the harness; directed for every z plus random (d, z, x). '
    'pubkey_leading_zero: the first scalars k whose k*G has a leading zero octet in x resp. y (found by walking k*G). '
    'selection: besides hiding bumble.crypto.cryptography, the third-party package `cryptography` itself is hidden '
    'and both bumble.crypto.cryptography and the toolbox are executed afresh. '
    'non-trivial = some input byte/scalar is not zero; distinct by (function, argument bytes) resp. '
    '(back end, origin, scalar, operation list).'
)
ASSUMPTIONS = [
    'arguments have the sizes the callers use (16-byte keys/blocks, 32-byte big-endian coordinates, '
    '3-byte prand, 7-byte address+type, iat/rat in {0,1}); other sizes are outside the quantifier',
    'private scalars 0 and >= n are outside the quantifier [1, n-1]',
    'a coordinate >= p whose residue mod p is an on-curve point may be rejected or treated as that '
    'point (the text only speaks of pairs that are not a point on P-256); everything else with a '
    'coordinate >= p must be rejected',
    'rejected = dh() raises any exception; any returned value counts as producing a shared secret',
    'a generated RPA resolving under one unrelated IRK is re-tried with a second unrelated IRK '
    '(2^-24 coincidence) before it is called a violation',
    'EccKey.generate(): the reference scalar is the one the key object itself holds (private_key.key / '
    'private_key.private_numbers().private_value), not the injected entropy - how entropy is turned into a scalar '
    'is not part of the property; an entropy source answering 0 (secrets.randbelow may, with probability 2^-256) '
    'gives the scalar 0, which is outside the quantifier [1, n-1], and is not generated',
    'keyobj operations only use coordinates < p (the >= p classes are judged by invalid_key on fresh keys)',
    'a machine without the library = `import cryptography` raises ImportError; the toolbox executed there must '
    'compute the sample data (which primitives it binds is not prescribed, only that they work)',
]
SHRINK_KEYS = ('ops',)

# ---------------------------------------------------------------------------
# P-256 domain parameters (FIPS 186-4 D.1.2.3), the harness's own copy
# ---------------------------------------------------------------------------
P = 0xFFFFFFFF00000001000000000000000000000000FFFFFFFFFFFFFFFFFFFFFFFF
A = P - 3
B = 0x5AC635D8AA3A93E7B3EBBD55769886BC651D06B0CC53B0F63BCE3C3E27D2604B
N = 0xFFFFFFFF00000000FFFFFFFFFFFFFFFFBCE6FAADA7179E84F3B9CAC2FC632551
GX = 0x6B17D1F2E12C4247F8BCE6E563A440F277037D812DEB33A0F4A13945D898C296
GY = 0x4FE342E2FE1A7F9B8EE7EB4A7C0F9E162BCE33576B315ECECBB6406837BF51F5
TWO256 = 1 << 256


def _rhs(x: int) -> int:
    return (x * x * x + A * x + B) % P


def _sqrt(v: int):
    v %= P
    r = pow(v, (P + 1) // 4, P)  # p = 3 mod 4
    return r if r * r % P == v else None


def on_curve(x: int, y: int) -> bool:
    return 0 <= x < P and 0 <= y < P and (y * y - _rhs(x)) % P == 0


def lift_x(x0: int, odd: bool):
    """First on-curve point with x >= x0 (mod p)."""
    x = x0 % P
    while True:
        y = _sqrt(_rhs(x))
        if y is not None:
            if (y & 1) != int(odd):
                y = (P - y) % P
            return x, y
        x = (x + 1) % P


def twist_point(x0: int, odd: bool):
    """A point on the quadratic twist: -y^2 = x^3 + ax + b (rhs is a non-residue)."""
    x = x0 % P
    while True:
        v = _rhs(x)
        if v != 0 and _sqrt(v) is None:
            y = _sqrt(P - v)
            if (y & 1) != int(odd):
                y = P - y
            return x, y
        x = (x + 1) % P


def b32(i: int) -> bytes:
    return i.to_bytes(32, 'big')


def i32(b: bytes) -> int:
    return int.from_bytes(b, 'big')


def ec_add(p1, p2):
    """Affine group law on P-256; None is the point at infinity (harness's own reference)."""
    if p1 is None:
        return p2
    if p2 is None:
        return p1
    x1, y1 = p1
    x2, y2 = p2
    if x1 == x2:
        if (y1 + y2) % P == 0:
            return None
        lam = (3 * x1 * x1 + A) * pow(2 * y1, -1, P) % P
    else:
        lam = (y2 - y1) * pow(x2 - x1, -1, P) % P
    x3 = (lam * lam - x1 - x2) % P
    return x3, (lam * (x1 - x3) - y1) % P


def ec_mul(k: int, pt):
    acc = None
    add = pt
    while k > 0:
        if k & 1:
            acc = ec_add(acc, add)
        add = ec_add(add, add)
        k >>= 1
    return acc


_REF_MUL: dict = {}


def ref_mul(k: int, pt):
    """ec_mul with a small memo (the same scalar meets the same peer many times in key-object histories)."""
    key = (k, pt)
    if key not in _REF_MUL:
        if len(_REF_MUL) > 4096:
            _REF_MUL.clear()
        _REF_MUL[key] = ec_mul(k, pt)
    return _REF_MUL[key]


# ---------------------------------------------------------------------------
# Back ends
# ---------------------------------------------------------------------------
BACKENDS = ('lib', 'builtin')


class Env:
    """The two toolboxes. tb['lib'] runs on cryptography, tb['builtin'] on builtin.py."""

    def __init__(self):
        self.tb = {}
        self.load_error = None
        self.selection_problem = None
        self.full_builtin_toolbox = False
        self.no_third_party = None  # outcome of probe_third_party_hidden()


_ENV = None


def _load_builtin_toolbox():
    import bumble.crypto as normal

    name = 'bumble_crypto__builtin_toolbox'
    if name in sys.modules:
        return sys.modules[name]
    path = os.path.join(os.path.dirname(normal.__file__), '__init__.py')
    key = 'bumble.crypto.cryptography'
    missing = object()
    saved = sys.modules.get(key, missing)
    sys.modules[key] = None  # "import bumble.crypto.cryptography" now raises ImportError
    try:
        spec = importlib.util.spec_from_file_location(name, path)
        mod = importlib.util.module_from_spec(spec)
        spec.loader.exec_module(mod)
    finally:
        if saved is missing:
            del sys.modules[key]
        else:
            sys.modules[key] = saved
    sys.modules[name] = mod
    return mod


def probe_third_party_hidden() -> dict:
    """Execute the toolbox where `import cryptography` fails, and compute sample data there.

    Different from _load_builtin_toolbox(): there bumble.crypto.cryptography is what cannot be
    imported; here it is the third-party package (a machine without the library), so
    bumble/crypto/cryptography.py is executed afresh, fails inside, and the failure has to reach the
    toolbox's fallback. Everything touched in sys.modules is put back.
    """
    import bumble.crypto as pkg

    name = 'bumble_crypto__no_third_party'
    key = 'bumble.crypto.cryptography'
    missing = object()
    path = os.path.join(os.path.dirname(pkg.__file__), '__init__.py')
    hidden = {k: v for k, v in sys.modules.items() if k == 'cryptography' or k.startswith('cryptography.')}
    saved_lib = sys.modules.get(key, missing)
    saved_attr = pkg.__dict__.get('cryptography', missing)
    out = {'loaded': False, 'error': None, 'wrong': [], 'primitives': None}
    for k in hidden:
        del sys.modules[k]
    sys.modules['cryptography'] = None
    sys.modules.pop(key, None)
    try:
        try:
            spec = importlib.util.spec_from_file_location(name, path)
            mod = importlib.util.module_from_spec(spec)
            spec.loader.exec_module(mod)
            out['loaded'] = True
        except Exception as ex:  # the fallback is code under test
            out['error'] = f'{type(ex).__name__}: {str(ex)[:160]}'
            mod = None
        if mod is not None:
            out['primitives'] = getattr(getattr(mod, 'e', None), '__module__', None)
            # still hidden: a back end that needs the library only when called fails here
            for aname in ('fips197_appendix_b', 'rfc4493_len0', 'rfc4493_len40', 'rfc4493_len64', 'core_ah',
                          'core_f4', 'p256_2g', 'core_p256_dhkey_a'):
                _, _, _, thunk, expected = _ANCHOR_BY_NAME[aname]
                got = call(thunk, mod)
                if not (got[0] == 'ok' and _norm(got[1]) == _norm(expected)):
                    out['wrong'].append(f'{aname}: {_show(got[1]) if got[0] == "ok" else got[1]}')
    finally:
        for k in [k for k in sys.modules if k == 'cryptography' or k.startswith('cryptography.')]:
            del sys.modules[k]
        sys.modules.update(hidden)
        if saved_lib is missing:
            sys.modules.pop(key, None)
        else:
            sys.modules[key] = saved_lib
        if saved_attr is missing:
            pkg.__dict__.pop('cryptography', None)
        else:
            pkg.__dict__['cryptography'] = saved_attr
        sys.modules.pop(name, None)
    return out


def judge_third_party_hidden(ctx, ev) -> None:
    r = ev.no_third_party
    if r is None:
        return
    case = {'kind': 'selection'}
    if not r['loaded']:
        ctx.fail(
            'selection/fallback_third_party_missing',
            f'bumble/crypto/__init__.py executed where `import cryptography` fails: {r["error"]}',
            case,
        )
    elif r['wrong']:
        ctx.fail(
            'selection/fallback_third_party_missing',
            f'toolbox loaded where `import cryptography` fails (primitives from {r["primitives"]}) does not '
            f'reproduce the sample data: {"; ".join(r["wrong"][:3])}',
            case,
        )
    ctx.case(('selection', 'third_party_hidden'), True, ['selection_third_party_hidden'])


def env(ctx=None) -> Env:
    global _ENV
    if _ENV is not None:
        return _ENV
    from vlib.runner import HarnessError

    import bumble.crypto as normal
    import bumble.crypto.builtin as builtin_mod
    import bumble.crypto.cryptography as lib_mod

    e = Env()
    e.tb['lib'] = normal
    if normal.e is not lib_mod.e or normal.aes_cmac is not lib_mod.aes_cmac or normal.EccKey is not lib_mod.EccKey:
        # the cryptography package is importable here (see the import above), so the
        # normal toolbox must have selected it
        e.selection_problem = 'normally imported toolbox does not use bumble.crypto.cryptography'
    else:
        e.selection_problem = None
    try:
        tb = _load_builtin_toolbox()
    except Exception as ex:  # the fallback branch itself is code under test
        e.load_error = f'{type(ex).__name__}: {ex}'
        tb = None
    if tb is not None:
        if tb.e is not builtin_mod.e or tb.aes_cmac is not builtin_mod.aes_cmac or tb.EccKey is not builtin_mod.EccKey:
            e.load_error = 'toolbox loaded without the library back end does not use bumble.crypto.builtin'
            tb = None
    if tb is None:
        # keep going on the primitives: a stand-in exposing only what builtin.py has
        class _Prims:
            e = staticmethod(builtin_mod.e)
            aes_cmac = staticmethod(builtin_mod.aes_cmac)
            EccKey = builtin_mod.EccKey

        e.tb['builtin'] = _Prims
    else:
        e.tb['builtin'] = tb
    e.full_builtin_toolbox = tb is not None
    if not on_curve(GX, GY) or not on_curve(*lift_x(0, False)):
        raise HarnessError('harness P-256 constants are inconsistent')
    g = (GX, GY)
    if (
        ec_mul(N, g) is not None
        or ec_mul(N - 1, g) != (GX, P - GY)
        or ec_mul(2, g) != (0x7CF27B188D034F7E8A52380304B51AC3C08969E277F21B35A60B48FC47669978,
                            0x07775510DB8ED040293D9AC69F7430DBBA7DADE63CE982299E04B79D227873D1)
        or ec_mul(i32(bytes.fromhex(_5903_I)), g) != (i32(bytes.fromhex(_5903_IX)), i32(bytes.fromhex(_5903_IY)))
    ):
        raise HarnessError('harness P-256 arithmetic is wrong')
    e.no_third_party = probe_third_party_hidden()
    if sys.modules.get('bumble.crypto.cryptography') is not lib_mod or normal.e is not lib_mod.e:
        raise HarnessError('probe_third_party_hidden did not restore the module table')
    _ENV = e
    return e


_SAMPLED: dict = {}


def sample_of(kind: str, obj, limit: int = 1):
    """At most `limit` evidence samples per case kind, so the ten slots show every kind."""
    n = _SAMPLED.get(kind, 0)
    if n >= limit:
        return None
    _SAMPLED[kind] = n + 1
    return obj


_SEEN: set = set()


def seen_before(ctx, key) -> bool:
    """Hypothesis re-draws earlier examples fairly often; do not pay for an ECC case twice."""
    if ctx.replaying:
        return False
    if key in _SEEN:
        ctx.label('duplicate_draw_skipped')
        return True
    _SEEN.add(key)
    return False


def call(fn, *args):
    """('ok', value) or ('exc', 'TypeName: text'); never raises."""
    try:
        return ('ok', fn(*args))
    except Exception as ex:  # whatever the code under test raises is judged by the caller
        return ('exc', f'{type(ex).__name__}: {str(ex)[:80]}')


def nonzero(*parts) -> bool:
    for p in parts:
        if isinstance(p, (bytes, bytearray)):
            if any(p):
                return True
        elif isinstance(p, (list, tuple)):
            if nonzero(*p):
                return True
        elif p:
            return True
    return False


def differential(ctx, fn_name: str, outs: dict, case: dict) -> bool:
    """Judge the outcomes of one function on both back ends. True if they agree on a value."""
    (k_lib, v_lib), (k_bi, v_bi) = outs['lib'], outs['builtin']
    if k_lib == 'ok' and k_bi == 'ok':
        if _norm(v_lib) == _norm(v_bi):
            return True
        ctx.fail(
            f'diff/{fn_name}',
            f'{fn_name}: library back end gives {_show(v_lib)}, built-in back end gives {_show(v_bi)}',
            case,
        )
        return False
    if k_lib == 'exc' and k_bi == 'exc':
        ctx.fail(
            f'diff/{fn_name}/both_raise',
            f'{fn_name} raises on well-formed input on both back ends: {v_lib} / {v_bi}',
            case,
        )
        return False
    who, err = ('lib', v_lib) if k_lib == 'exc' else ('builtin', v_bi)
    ctx.fail(
        f'diff/{fn_name}/raises/{who}',
        f'{fn_name}: only the {who} back end raises on well-formed input: {err}',
        case,
    )
    return False


def _norm(v):
    """bytes-like values compare by content (bytes vs bytearray is not a disagreement)."""
    if isinstance(v, (bytes, bytearray, memoryview)):
        return bytes(v)
    if isinstance(v, (tuple, list)):
        return tuple(_norm(x) for x in v)
    return v


def _show(v) -> str:
    if isinstance(v, (bytes, bytearray)):
        return bytes(v).hex()
    if isinstance(v, tuple):
        return '(' + ', '.join(_show(x) for x in v) + ')'
    return repr(v)


# ---------------------------------------------------------------------------
# Specification anchors
# ---------------------------------------------------------------------------
def _h(s: str) -> bytes:
    return bytes.fromhex(s)


def _r(s: str) -> bytes:
    return bytes.fromhex(s)[::-1]


_RFC_KEY = '2b7e151628aed2a6abf7158809cf4f3c'
_RFC_MSG = (
    '6bc1bee22e409f96e93d7e117393172a'
    'ae2d8a571e03ac9c9eb76fac45af8e51'
    '30c81c46a35ce411e5fbc1191a0a52ef'
    'f69f2445df4f9b17ad2b417be66c3710'
)
_PRIV_A = '3f49f6d4a3c55f3874c9b3e3d2103f504aff607beb40b7995899b8a6cd3c1abd'
_PRIV_B = '55188b3d32f6bb9a900afcfbeed4e72a59cb9ac2f19d7cfb6b4fdd49f47fc5fd'
_PUB_AX = '20b003d2f297be2c5e2c83a7e9f9a5b9eff49111acf4fddbcc0301480e359de6'
_PUB_AY = 'dc809c49652aeb6d63329abf5a52155c766345c28fed3024741c8ed01589d28b'
_PUB_BX = '1ea1f0f01faf1d9609592284f19e4c0047b58afd8615a69f559077b22faaa190'
_PUB_BY = '4c55f33e429dad377356703a9ab85160472d1130e28e36765f89aff915b1214a'
_DHKEY = 'ec0234a357c8ad05341010a60a397d9b99796b13b4f866f1868d34f373bfa698'
_N1 = 'd5cb8454d177733effffb2ec712baeab'
_N2 = 'a6e8e7cc25a75f6e216583f7ff3dc4cf'
_A1 = '0056123737bfce'
_A2 = '00a713702dcfc1'
_MACKEY = '2965f176a1084a02fd3f6a20ce636e20'
_KEY16 = 'ec0234a357c8ad05341010a60a397d9b'
# RFC 5903 section 8.1 (256-bit random ECP group)
_5903_I = 'c88f01f510d9ac3f70a292daa2316de544e9aab8afe84049c62a9c57862d1433'
_5903_IX = 'dad0b65394221cf9b051e1feca5787d098dfe637fc90b9ef945d0c3772581180'
_5903_IY = '5271a0461cdb8252d61f1c456fa3e59ab1f45b33accf5f58389e0577b8990bb3'
_5903_R = 'c6ef9c5d78ae012a011164acb397ce2088685d8f06bf9be0b283ab46476bee53'
_5903_RX = 'd12dfb5289c8d4f81208b70270398c342296970a0bccb74c736fc7554494bf63'
_5903_RY = '56fbf3ca366cc23e8157854c13c58d6aac23f046ada30f8353e74f33039872ab'
_5903_Z = 'd6840f6b42f6edafd13116e0e12565202fef8e9ece7dce03812464d04b9442de'


def _pub(tb, d_hex):
    k = tb.EccKey.from_private_key_bytes(_h(d_hex))
    return (k.x, k.y)


def _dh(tb, d_hex, x_hex, y_hex):
    return tb.EccKey.from_private_key_bytes(_h(d_hex)).dh(_h(x_hex), _h(y_hex))


# (name, function family, needs the full toolbox, thunk(tb), expected)
ANCHORS = [
    # FIPS-197 Appendix B and C.1 (e takes and returns byte-swapped values)
    ('fips197_appendix_b', 'e', False,
     lambda tb: tb.e(_r(_RFC_KEY), _r('3243f6a8885a308d313198a2e0370734')),
     _r('3925841d02dc09fbdc118597196a0b32')),
    ('fips197_appendix_c1', 'e', False,
     lambda tb: tb.e(_r('000102030405060708090a0b0c0d0e0f'), _r('00112233445566778899aabbccddeeff')),
     _r('69c4e0d86a7b0430d8cdb78070b4c55a')),
    # RFC 4493 section 4: AES-128(key, 0) and the four examples
    ('rfc4493_aes_zero', 'e', False,
     lambda tb: tb.e(_r(_RFC_KEY), bytes(16)), _r('7df76b0c1ab899b33e42f047b91b546f')),
    ('rfc4493_len0', 'aes_cmac', False,
     lambda tb: tb.aes_cmac(b'', _h(_RFC_KEY)), _h('bb1d6929e95937287fa37d129b756746')),
    ('rfc4493_len16', 'aes_cmac', False,
     lambda tb: tb.aes_cmac(_h(_RFC_MSG)[:16], _h(_RFC_KEY)), _h('070a16b46b4d4144f79bdd9dd04a287c')),
    ('rfc4493_len40', 'aes_cmac', False,
     lambda tb: tb.aes_cmac(_h(_RFC_MSG)[:40], _h(_RFC_KEY)), _h('dfa66747de9ae63030ca32611497c827')),
    ('rfc4493_len64', 'aes_cmac', False,
     lambda tb: tb.aes_cmac(_h(_RFC_MSG), _h(_RFC_KEY)), _h('51f0bebf7e3b9d92fc49741779363cfe')),
    # Core specification Vol 3 Part H, Appendix D sample data
    ('core_c1', 'c1', True,
     lambda tb: tb.c1(bytes(16), _r('5783D52156AD6F0E6388274EC6702EE0'), _r('07071000000101'),
                      _r('05000800000302'), 1, 0, _r('A1A2A3A4A5A6'), _r('B1B2B3B4B5B6')),
     _r('1e1e3fef878988ead2a74dc5bef13b86')),
    ('core_s1', 's1', True,
     lambda tb: tb.s1(bytes(16), _r('000F0E0D0C0B0A091122334455667788'), _r('010203040506070899AABBCCDDEEFF00')),
     _r('9a1fe1f0e8b0f49b5b4216ae796da062')),
    ('core_f4', 'f4', True,
     lambda tb: tb.f4(_r(_PUB_AX), _r(_PRIV_B), _r(_N1), b'\0'), _r('f2c916f107a9bd1cf1eda1bea974872d')),
    ('core_f5', 'f5', True,
     lambda tb: tuple(tb.f5(_r(_DHKEY), _r(_N1), _r(_N2), _r(_A1), _r(_A2))),
     (_r(_MACKEY), _r('6986791169d7cd23980522b594750a38'))),
    ('core_f6', 'f6', True,
     lambda tb: tb.f6(_r(_MACKEY), _r(_N1), _r(_N2), _r('12a3343bb453bb5408da42d20c2d0fc8'), _r('010102'),
                      _r(_A1), _r(_A2)),
     _r('e3c473989cd0e8c5d26c0b09da958f61')),
    ('core_g2', 'g2', True,
     lambda tb: tb.g2(_r(_PUB_AX), _r(_PRIV_B), _r(_N1), _r(_N2)), 0x2F9ED5BA),
    ('core_h6', 'h6', True,
     lambda tb: tb.h6(_r(_KEY16), _h('6c656272')), _r('2d9ae102e76dc91ce8d3a9e280b16399')),
    ('core_h7', 'h7', True,
     lambda tb: tb.h7(_h('000000000000000000000000746D7031'), _r(_KEY16)), _r('fb173597c6a3c0ecd2998c2a75a57011')),
    ('core_ah', 'ah', True,
     lambda tb: tb.ah(_r(_KEY16), _r('708194')), _r('0dfbaa')),
    # Core specification Vol 3 Part H, D.10-D.13: LTK <-> link key through h6/h7
    ('core_ltk_to_link_key_h6', 'h6', True,
     lambda tb: tb.h6(tb.h6(_r('368df9bce3264b58bd066c33334fbf64'), b'tmp1'), b'lebr'),
     _r('bc1ca4ef633fc1bd0d8230afee388fb0')),
    ('core_ltk_to_link_key_h7', 'h7', True,
     lambda tb: tb.h6(tb.h7(_h('000000000000000000000000746D7031'), _r('368df9bce3264b58bd066c33334fbf64')), b'lebr'),
     _r('287ad379dca402530a39f1f43047b835')),
    ('core_link_key_to_ltk_h6', 'h6', True,
     lambda tb: tb.h6(tb.h6(_r('05040302010009080706050403020100'), b'tmp2'), b'brle'),
     _r('a813fb72f1a3dfa18a2c9a43f10d0a30')),
    ('core_link_key_to_ltk_h7', 'h7', True,
     lambda tb: tb.h6(tb.h7(_h('000000000000000000000000746D7032'), _r('05040302010009080706050403020100')), b'brle'),
     _r('e85e09eb5eccb3e269418a133211bc79')),
    # P-256: Core specification debug key pair (private A), sample key B, DHKey
    ('core_p256_public_a', 'pubkey', False, lambda tb: _pub(tb, _PRIV_A), (_h(_PUB_AX), _h(_PUB_AY))),
    ('core_p256_public_b', 'pubkey', False, lambda tb: _pub(tb, _PRIV_B), (_h(_PUB_BX), _h(_PUB_BY))),
    ('core_p256_dhkey_a', 'dh', False, lambda tb: _dh(tb, _PRIV_A, _PUB_BX, _PUB_BY), _h(_DHKEY)),
    ('core_p256_dhkey_b', 'dh', False, lambda tb: _dh(tb, _PRIV_B, _PUB_AX, _PUB_AY), _h(_DHKEY)),
    # the curve itself: 1*G, 2*G, (n-1)*G = -G
    ('p256_1g', 'pubkey', False, lambda tb: _pub(tb, b32(1).hex()), (b32(GX), b32(GY))),
    ('p256_2g', 'pubkey', False, lambda tb: _pub(tb, b32(2).hex()),
     (_h('7cf27b188d034f7e8a52380304b51ac3c08969e277f21b35a60b48fc47669978'),
      _h('07775510db8ed040293d9ac69f7430dbba7dade63ce982299e04b79d227873d1'))),
    ('p256_minus_g', 'pubkey', False, lambda tb: _pub(tb, b32(N - 1).hex()), (b32(GX), b32(P - GY))),
    # RFC 5903 section 8.1
    ('rfc5903_public_i', 'pubkey', False, lambda tb: _pub(tb, _5903_I), (_h(_5903_IX), _h(_5903_IY))),
    ('rfc5903_public_r', 'pubkey', False, lambda tb: _pub(tb, _5903_R), (_h(_5903_RX), _h(_5903_RY))),
    ('rfc5903_secret_i', 'dh', False, lambda tb: _dh(tb, _5903_I, _5903_RX, _5903_RY), _h(_5903_Z)),
    ('rfc5903_secret_r', 'dh', False, lambda tb: _dh(tb, _5903_R, _5903_IX, _5903_IY), _h(_5903_Z)),
]
_ANCHOR_BY_NAME = {a[0]: a for a in ANCHORS}


def run_anchor_case(ctx, name: str) -> None:
    ev = env(ctx)
    _, family, needs_tb, thunk, expected = _ANCHOR_BY_NAME[name]
    case = {'kind': 'anchor', 'name': name}
    wrong = {}
    for be in BACKENDS:
        if needs_tb and be == 'builtin' and not ev.full_builtin_toolbox:
            continue
        out = call(thunk, ev.tb[be])
        if out != ('ok', expected):
            wrong[be] = out
    if len(wrong) == 2 and needs_tb and wrong['lib'] == wrong['builtin']:
        # the same wrong answer on both primitives: the shared toolbox code
        ctx.fail(
            f'anchor/{family}/toolbox',
            f'{name}: both back ends give {_show(wrong["lib"][1])}, specification says {_show(expected)}',
            case,
        )
    else:
        for be, out in wrong.items():
            ctx.fail(
                f'anchor/{family}/{be}',
                f'{name}: {be} back end gives {_show(out[1])}, specification says {_show(expected)}',
                case,
            )
    ctx.case(('anchor', name), True, ['anchor', 'anchor:' + family], sample=sample_of('anchor', case))


# ---------------------------------------------------------------------------
# e
# ---------------------------------------------------------------------------
_SPECIAL16 = [bytes(16), b'\xff' * 16] + [(1 << k).to_bytes(16, 'big') for k in range(128)]


def weighted(*pairs):
    """One of the strategies, with integer weights.

    st.one_of merges branches that are the same object and st.integers over a 256-bit range
    is strongly biased to small values, so the branches are made distinct objects here and
    wide values are always built from st.binary (measured: the weights come out as written).
    """
    branches = []
    for w, s in pairs:
        for i in range(w):
            branches.append(s.map(lambda v, _i=i: v))
    return st.one_of(branches)


def block16():
    return weighted((7, st.binary(min_size=16, max_size=16)), (1, st.sampled_from(_SPECIAL16)))


def fixed(n: int):
    return weighted((9, st.binary(min_size=n, max_size=n)), (1, st.sampled_from([bytes(n), b'\xff' * n])))


def uniform256():
    return st.binary(min_size=32, max_size=32).map(i32)


def run_e_case(ctx, key: bytes, block: bytes) -> None:
    ev = env(ctx)
    case = {'kind': 'e', 'key': key, 'block': block}
    outs = {be: call(ev.tb[be].e, key, block) for be in BACKENDS}
    differential(ctx, 'e', outs, case)
    labels = ['e']
    if key in _SPECIAL16 or block in _SPECIAL16:
        labels.append('e_special_value')
    ctx.case(('e', key, block), nonzero(key, block), labels, sample=sample_of('e', case))


# ---------------------------------------------------------------------------
# AES-CMAC
# ---------------------------------------------------------------------------
CMAC_LENGTHS = list(range(0, 81)) + [255, 256, 257, 1024]


def cmac_key_class(ev: Env, key: bytes) -> str:
    """Which sub-key derivation branches this key takes: msb(L), msb(K1) (RFC 4493 2.3)."""
    out = call(ev.tb['lib'].e, key[::-1], bytes(16))
    if out[0] != 'ok' or len(out[1]) != 16:
        return 'cmac_subkey_carry=?'
    L = out[1][::-1]
    return f'cmac_subkey_carry={(L[0] >> 7) & 1}{(L[0] >> 6) & 1}'


def run_cmac_case(ctx, key: bytes, msg: bytes, key_class=None) -> None:
    ev = env(ctx)
    case = {'kind': 'cmac', 'key': key, 'msg': msg}
    outs = {be: call(ev.tb[be].aes_cmac, msg, key) for be in BACKENDS}
    if differential(ctx, 'aes_cmac', outs, case) and len(outs['lib'][1]) != 16:
        ctx.fail('diff/aes_cmac/length', f'aes_cmac returned {len(outs["lib"][1])} bytes', case)
    n = len(msg)
    labels = ['cmac', f'cmac_len_mod16={n % 16}', key_class or cmac_key_class(ev, key)]
    if n == 0:
        labels.append('cmac_len=0')
    elif n % 16 == 0:
        labels.append('cmac_complete_blocks')
    if n > 16:
        labels.append('cmac_multi_block')
    ctx.case(
        ('cmac', key, msg),
        nonzero(key, msg),
        labels,
        sample=sample_of('cmac', {'kind': 'cmac', 'key': key, 'len': n, 'msg_head': msg[:20]}) if n else None,
    )


def run_cmac_all_lengths(ctx, key: bytes, buf: bytes) -> None:
    ev = env(ctx)
    kc = cmac_key_class(ev, key)
    for n in CMAC_LENGTHS:
        run_cmac_case(ctx, key, buf[:n], kc)
        ctx.label(f'cmac_len={n}')


# ---------------------------------------------------------------------------
# toolbox functions
# ---------------------------------------------------------------------------
_BIT = st.sampled_from([0, 1])
TOOLBOX = {
    'ah': st.tuples(block16(), fixed(3)),
    'c1': st.tuples(block16(), block16(), fixed(7), fixed(7), _BIT, _BIT, fixed(6), fixed(6)),
    's1': st.tuples(block16(), block16(), block16()),
    'f4': st.tuples(fixed(32), fixed(32), block16(), st.sampled_from([b'\x00', b'\x80', b'\x81', b'\xff'])),
    'f5': st.tuples(fixed(32), block16(), block16(), fixed(7), fixed(7)),
    'f6': st.tuples(block16(), block16(), block16(), block16(), fixed(3), fixed(7), fixed(7)),
    'g2': st.tuples(fixed(32), fixed(32), block16(), block16()),
    'h6': st.tuples(block16(), st.one_of(fixed(4), st.sampled_from([b'tmp1', b'tmp2', b'lebr', b'brle']))),
    'h7': st.tuples(block16(), block16()),
}


def run_fn_case(ctx, fn: str, args) -> None:
    ev = env(ctx)
    args = list(args)
    case = {'kind': 'fn', 'fn': fn, 'args': args}
    if not ev.full_builtin_toolbox:
        return
    outs = {}
    for be in BACKENDS:
        out = call(getattr(ev.tb[be], fn), *args)
        if out[0] == 'ok' and isinstance(out[1], tuple):
            out = ('ok', tuple(out[1]))
        outs[be] = out
    differential(ctx, fn, outs, case)
    ctx.case(('fn', fn, args), nonzero(args), ['toolbox', 'fn:' + fn], sample=sample_of('fn', case, 2))


# ---------------------------------------------------------------------------
# scalars
# ---------------------------------------------------------------------------
_BOUNDARY = {1: 'scalar=1', 2: 'scalar=2', N - 1: 'scalar=n-1', N - 2: 'scalar=n-2'}
_NEAR = [3, 4, 5, N - 3, N - 4, (N - 1) // 2, (N + 1) // 2]
_POW2 = [1 << k for k in range(1, 256)]
_ONES = [(1 << k) - 1 for k in range(2, 256)]
_POW2_SET = set(_POW2)
_ONES_SET = set(_ONES)


def scalars():
    return weighted(
        (8, uniform256().map(lambda v: 1 + v % (N - 1))),
        (2, st.sampled_from(sorted(_BOUNDARY))),
        (1, st.sampled_from(_NEAR)),
        (2, st.sampled_from(_POW2)),
        (1, st.sampled_from(_ONES)),
        (1, st.sampled_from([N - (1 << k) for k in range(1, 255)])),
        (1, st.integers(1, 1 << 32)),
    )


def scalar_labels(d: int) -> list:
    out = []
    if d in _BOUNDARY:
        out += ['scalar_boundary', _BOUNDARY[d]]
    if d in _POW2_SET:
        out.append('scalar_pow2')
    if d in _ONES_SET:
        out.append('scalar_all_ones')
    if d < (1 << 33):
        out.append('scalar_small')
    if d > N - (1 << 33):
        out.append('scalar_near_n')
    return out


def make_key(tb, d: int):
    return tb.EccKey.from_private_key_bytes(b32(d))


def public_key(tb, d: int):
    k = make_key(tb, d)
    return (bytes(k.x), bytes(k.y))


def shared(tb, d: int, x: bytes, y: bytes):
    return make_key(tb, d).dh(x, y)


# ---------------------------------------------------------------------------
# ECDH on valid keys: public keys, differential, symmetry across back ends
# ---------------------------------------------------------------------------
def run_ecdh_case(ctx, da: int, db: int) -> None:
    ev = env(ctx)
    if seen_before(ctx, ('ecdh', da, db)):
        return
    case = {'kind': 'ecdh', 'da': b32(da), 'db': b32(db)}
    labels = {'ecdh'}
    for d in (da, db):
        labels.update(scalar_labels(d))
    if da == db:
        labels.add('ecdh_same_scalar')
    if (da + db) % N == 0:
        labels.add('ecdh_negated_scalar')
    ok = True
    pubs = {}
    for who, d in (('A', da), ('B', db)):
        outs = {be: call(public_key, ev.tb[be], d) for be in BACKENDS}
        if not differential(ctx, 'pubkey', outs, case):
            ok = False
            continue
        x, y = outs['lib'][1]
        if len(x) != 32 or len(y) != 32:
            ctx.fail('diff/pubkey/length', f'public key coordinates are {len(x)}/{len(y)} bytes', case)
            ok = False
            continue
        if not on_curve(i32(x), i32(y)):
            ctx.fail('anchor/pubkey/off_curve', f'public key of scalar {d:#x} is not on P-256 (both back ends)', case)
            ok = False
            continue
        if x[0] == 0:
            labels.add('pubkey_x_leading_zero_octet')
        if y[0] == 0:
            labels.add('pubkey_y_leading_zero_octet')
        pubs[who] = (x, y)
    if ok:
        # secret[owner][back end]
        sec = {}
        for who, d, peer in (('A', da, pubs['B']), ('B', db, pubs['A'])):
            outs = {be: call(shared, ev.tb[be], d, *peer) for be in BACKENDS}
            if not differential(ctx, 'dh', outs, case):
                ok = False
                continue
            if not isinstance(outs['lib'][1], (bytes, bytearray)) or len(outs['lib'][1]) != 32:
                ctx.fail('diff/dh/length', f'dh returned {_show(outs["lib"][1])}', case)
                ok = False
                continue
            sec[who] = {be: bytes(outs[be][1]) for be in BACKENDS}
            if sec[who]['lib'][0] == 0:
                labels.add('dh_secret_leading_zero_octet')
        if ok:
            # with the differential clause holding, A(built-in) vs B(library) and A(library) vs B(built-in)
            if sec['A']['builtin'] != sec['B']['lib'] or sec['A']['lib'] != sec['B']['builtin']:
                ctx.fail(
                    'algebra/dh_asymmetric',
                    f"dh_A(pub_B)={sec['A']['lib'].hex()} but dh_B(pub_A)={sec['B']['lib'].hex()}",
                    case,
                )
    ctx.case(('ecdh', da, db), True, labels, sample=sample_of('ecdh', {'kind': 'ecdh', 'da': hex(da), 'db': hex(db)}))


def run_lifted_case(ctx, d: int, x0: int, odd: bool) -> None:
    """ECDH with an arbitrary on-curve point (not produced by either back end)."""
    ev = env(ctx)
    if seen_before(ctx, ('lift', d, x0, odd)):
        return
    x, y = lift_x(x0, odd)
    case = {'kind': 'ecdh_lifted', 'd': b32(d), 'x0': b32(x0 % P), 'odd': bool(odd)}
    labels = {'ecdh_lifted'}
    labels.update(scalar_labels(d))
    if x == 0:
        labels.add('point_x=0')
    if x < (1 << 64):
        labels.add('point_small_x')
    outs = {be: call(shared, ev.tb[be], d, b32(x), b32(y)) for be in BACKENDS}
    if differential(ctx, 'dh', outs, case):
        v = outs['lib'][1]
        if not isinstance(v, (bytes, bytearray)) or len(v) != 32:
            ctx.fail('diff/dh/length', f'dh returned {_show(v)}', case)
        elif d == 1 and bytes(v) != b32(x):
            ctx.fail('anchor/dh/identity', 'dh with scalar 1 does not return the x coordinate of the peer key', case)
        elif bytes(v)[0] == 0:
            labels.add('dh_secret_leading_zero_octet')
    ctx.case(
        ('lift', d, x, y),
        True,
        labels,
        sample=sample_of('lift', {'kind': 'ecdh_lifted', 'd': hex(d), 'x': hex(x), 'y': hex(y)}),
    )


# ---------------------------------------------------------------------------
# invalid public keys
# ---------------------------------------------------------------------------
INVALID_KINDS = [
    'random', 'y_plus_1', 'y_minus_1', 'x_plus_1', 'zero_zero', 'y_zero', 'swapped', 'neg_x', 'twist',
    'x_ge_p', 'y_ge_p', 'both_ge_p', 'x_plus_p_congruent',
]


def build_invalid(kind: str, r1: int, r2: int):
    """(x, y) as integers < 2^256 for an invalid-key kind, from two 256-bit draws."""
    odd = bool(r2 & 1)
    if kind == 'random':
        return r1, r2
    if kind == 'zero_zero':
        return 0, 0
    if kind == 'y_zero':
        return r1 % P, 0
    if kind in ('y_plus_1', 'y_minus_1', 'x_plus_1', 'swapped', 'neg_x'):
        x, y = lift_x(r1, odd)
        if kind == 'y_plus_1':
            return x, (y + 1) % P
        if kind == 'y_minus_1':
            return x, (y - 1) % P
        if kind == 'x_plus_1':
            return (x + 1) % P, y
        if kind == 'swapped':
            return y, x
        return (P - x) % P, y
    if kind == 'twist':
        return twist_point(r1, odd)
    span = TWO256 - P
    if kind == 'x_ge_p':
        return P + r1 % span, r2 % P
    if kind == 'y_ge_p':
        return r1 % P, P + r2 % span
    if kind == 'both_ge_p':
        return P + r1 % span, P + r2 % span
    if kind == 'x_plus_p_congruent':
        x, y = lift_x(r1 % (span - (1 << 32)), odd)
        return x + P, y
    raise ValueError(kind)


def run_invalid_case(ctx, kind: str, d: int, x: int, y: int) -> None:
    ev = env(ctx)
    if seen_before(ctx, ('invalid', d, x, y)):
        return
    case = {'kind': 'invalid_key', 'how': kind, 'd': b32(d), 'x': b32(x), 'y': b32(y)}
    labels = {'invalid_key', 'offcurve:' + kind}
    labels.update(scalar_labels(d))
    if on_curve(x, y):
        # astronomically unlikely for the random kinds; then it is simply a valid key
        ctx.case(('invalid', d, x, y), False, ['invalid_key_was_valid'])
        return
    in_range = x < P and y < P
    congruent = not in_range and on_curve(x % P, y % P)
    if congruent:
        # see ASSUMPTIONS: either rejected or treated as the reduced (valid) point
        labels.add('invalid_key_congruent_ge_p')
        ref = call(shared, ev.tb['lib'], d, b32(x % P), b32(y % P))
        for be in BACKENDS:
            out = call(shared, ev.tb[be], d, b32(x), b32(y))
            if out[0] == 'ok':
                ctx.label(f'congruent_ge_p_accepted:{be}')
                if ref[0] == 'ok' and out[1] != ref[1]:
                    ctx.fail(
                        f'invalid_key/{be}/out_of_range_wrong_secret',
                        f'{be} back end accepts a coordinate >= p and returns {_show(out[1])}, which is not the '
                        f'secret of the reduced point',
                        case,
                    )
            else:
                ctx.label(f'congruent_ge_p_rejected:{be}')
    else:
        cls = 'off_curve' if in_range else 'out_of_range'
        labels.add('invalid_key_' + cls)
        for be in BACKENDS:
            out = call(shared, ev.tb[be], d, b32(x), b32(y))
            if out[0] == 'ok':
                v = out[1]
                n = len(v) if isinstance(v, (bytes, bytearray)) else None
                ctx.fail(
                    f'invalid_key/{be}/accepted',
                    f'{be} back end accepts a public key that is not a point on P-256 ({kind}) and returns '
                    f'{_show(v)}' + (' (32 bytes, usable as a DH key)' if n == 32 else ''),
                    case,
                )
    ctx.case(
        ('invalid', d, x, y),
        nonzero(x, y) or kind == 'zero_zero',
        labels,
        sample=sample_of('invalid', {'kind': 'invalid_key', 'how': kind, 'd': hex(d), 'x': hex(x), 'y': hex(y)}, 2),
    )


# a few fixed, easy to read cases first (the first failing one is what the replay shows)
def simple_invalid_cases():
    ax, ay = i32(_h(_PUB_AX)), i32(_h(_PUB_AY))
    d_b = i32(_h(_PRIV_B))
    out = [
        ('y_plus_1', 1, GX, GY + 1),
        ('y_plus_1', d_b, ax, ay + 1),
        ('y_minus_1', d_b, ax, ay - 1),
        ('zero_zero', 1, 0, 0),
        ('zero_zero', d_b, 0, 0),
        ('random', 3, 1, 1),
        ('swapped', d_b, ay, ax),
        ('y_zero', d_b, ax, 0),
        ('x_ge_p', d_b, P, 0),
        ('both_ge_p', d_b, P + 1, P + 1),
        ('both_ge_p', d_b, TWO256 - 1, TWO256 - 1),
    ]
    for d in sorted(_BOUNDARY):
        out.append(('y_plus_1', d, ax, ay + 1))
        out.append(('twist',) + (d,) + twist_point(5, False))
    return out


# ---------------------------------------------------------------------------
# shared secrets / public keys with leading zero octets (directed)
# ---------------------------------------------------------------------------
_ZERO_OCTET_CLASSES = (1, 2, 4, 8, 16, 31)


def small_x0(z: int, r: int) -> int:
    """An abscissa seed of at most 8*(32-z) bits (z leading zero octets or more), from a 256-bit draw."""
    width = 8 * (32 - z)
    return r % (1 << width) if width else 0


def run_small_secret_case(ctx, d: int, x0: int, odd: bool) -> None:
    """dh(d, d^-1 * T) must be the x coordinate of T on both back ends (T lifted from a small x)."""
    ev = env(ctx)
    if seen_before(ctx, ('small_secret', d, x0, odd)):
        return
    tx, ty = lift_x(x0, odd)
    peer = ec_mul(pow(d, -1, N), (tx, ty))
    case = {'kind': 'small_secret', 'd': b32(d), 'x0': b32(x0 % P), 'odd': bool(odd)}
    labels = {'small_secret'}
    labels.update(scalar_labels(d))
    z = 32 - (tx.bit_length() + 7) // 8
    for k in _ZERO_OCTET_CLASSES:
        if z >= k:
            labels.add(f'secret_leading_zero_octets>={k}')
    if tx == 0:
        labels.add('secret=0')
    if peer is None or not on_curve(*peer) or ec_mul(d, peer) != (tx, ty):
        from vlib.runner import HarnessError

        raise HarnessError('harness arithmetic: d * (d^-1 * T) != T')
    outs = {be: call(shared, ev.tb[be], d, b32(peer[0]), b32(peer[1])) for be in BACKENDS}
    want = b32(tx)
    bad = {be: o for be, o in outs.items() if not (o[0] == 'ok' and _norm(o[1]) == want)}
    if len(bad) == 2 and outs['lib'] == outs['builtin']:
        ctx.fail(
            'anchor/dh/small_secret',
            f'dh(d, d^-1*T) gives {_show(outs["lib"][1])} on both back ends; the x coordinate of T is {want.hex()}',
            case,
        )
    else:
        for be, o in bad.items():
            ctx.fail(
                f'anchor/dh/small_secret/{be}',
                f'{be} back end: dh(d, d^-1*T) gives {_show(o[1]) if o[0] == "ok" else o[1]}; the x coordinate of T '
                f'({z} leading zero octets) is {want.hex()}',
                case,
            )
    ctx.case(
        ('small_secret', d, tx, ty),
        True,
        labels,
        sample=sample_of('small_secret', {'kind': 'small_secret', 'd': hex(d), 'secret': want.hex()}),
    )


def scalars_with_leading_zero_public_key(n_each: int, limit: int = 20000):
    """The first n_each scalars k with (k*G).x < 2^248, and the first n_each with (k*G).y < 2^248."""
    fx, fy = [], []
    pt = None
    for k in range(1, limit):
        pt = ec_add(pt, (GX, GY))
        if pt[0] >> 248 == 0 and len(fx) < n_each:
            fx.append(k)
        if pt[1] >> 248 == 0 and len(fy) < n_each:
            fy.append(k)
        if len(fx) >= n_each and len(fy) >= n_each:
            break
    return fx, fy


# ---------------------------------------------------------------------------
# key objects: EccKey.generate(), and one object used for a history of operations
# ---------------------------------------------------------------------------
class _FixedScalarSecrets:
    """Stands in for `secrets` inside builtin.py while a key is generated."""

    def __init__(self, d: int, real):
        self._d = d
        self._real = real
        self.calls = 0

    def randbelow(self, bound):
        self.calls += 1
        return self._d % bound

    def randbits(self, k):
        self.calls += 1
        return self._d & ((1 << k) - 1)

    def token_bytes(self, n=None):
        self.calls += 1
        n = 32 if n is None else n
        return (self._d % (1 << (8 * n))).to_bytes(n, 'big') if n else b''

    def __getattr__(self, name):
        return getattr(self._real, name)


class _EcProxy:
    """Stands in for the module `ec` inside bumble/crypto/cryptography.py while a key is generated:
    generate_private_key(curve) gives the key of the scalar of the case on the curve that was asked for."""

    def __init__(self, d: int, real):
        self._d = d
        self._real = real
        self.calls = 0

    def generate_private_key(self, curve, *args, **kwargs):
        self.calls += 1
        return self._real.derive_private_key(self._d, curve, *args, **kwargs)

    def __getattr__(self, name):
        return getattr(self._real, name)


def _generate_key(ev: Env, be: str, d):
    """EccKey.generate() of back end `be`; d = scalar to feed as entropy, or None for the system's."""
    import bumble.crypto.builtin as builtin_mod
    import bumble.crypto.cryptography as lib_mod

    cls = ev.tb[be].EccKey
    if d is None:
        return call(cls.generate), 0
    if be == 'builtin':
        real = builtin_mod.secrets
        fake = _FixedScalarSecrets(d, real)
        builtin_mod.secrets = fake
        try:
            return call(cls.generate), fake.calls
        finally:
            builtin_mod.secrets = real
    real = lib_mod.ec
    fake = _EcProxy(d, real)
    lib_mod.ec = fake
    try:
        return call(cls.generate), fake.calls
    finally:
        lib_mod.ec = real


def _scalar_of(key):
    """The private scalar an EccKey object holds (either back end), or None."""
    try:
        pk = key.private_key
        if hasattr(pk, 'private_numbers'):
            return int(pk.private_numbers().private_value)
        return int(pk.key)
    except Exception:
        return None


# operation codes of the generator -> concrete operations (plain data in the case)
KEYOBJ_CODES = ('x', 'y', 'valid', 'neg', 'y_plus_1', 'y_minus_1', 'y_zero', 'swapped', 'mixed')


def keyobj_ops(peers, codes) -> list:
    pts = [lift_x(x0, odd) for x0, odd in peers]
    ops = []
    for code, i in codes:
        x, y = pts[i % len(pts)]
        what = KEYOBJ_CODES[code]
        if what in ('x', 'y'):
            ops.append([what])
        elif what == 'valid':
            ops.append(['dh', b32(x), b32(y)])
        elif what == 'neg':
            ops.append(['dh', b32(x), b32((P - y) % P)])
        elif what == 'y_plus_1':
            ops.append(['dh', b32(x), b32((y + 1) % P)])
        elif what == 'y_minus_1':
            ops.append(['dh', b32(x), b32((y - 1) % P)])
        elif what == 'y_zero':
            ops.append(['dh', b32(x), b32(0)])
        elif what == 'swapped':
            ops.append(['dh', b32(y), b32(x)])
        else:
            ops.append(['dh', b32(x), b32(pts[(i + 1) % len(pts)][1])])
    return ops


def run_keyobj_case(ctx, case: dict) -> None:
    """case: be, origin ('generate' | 'bytes'), d (32 bytes; None = system entropy), ops."""
    ev = env(ctx)
    case = dict(case)
    case['kind'] = 'keyobj'
    be, origin = case['be'], case['origin']
    ops = [list(op) for op in case['ops']]
    d_in = i32(case['d']) if case.get('d') is not None else None
    ops_key = tuple(tuple(bytes(a) if isinstance(a, (bytes, bytearray)) else a for a in op) for op in ops)
    fp = ('keyobj', be, origin, d_in, ops_key)
    if d_in is not None and seen_before(ctx, fp):
        return
    labels = {'keyobj', f'keyobj_be={be}', f'keyobj_origin={origin}'}
    cls = ev.tb[be].EccKey
    if origin == 'bytes':
        out = call(cls.from_private_key_bytes, b32(d_in))
    else:
        out, injected = _generate_key(ev, be, d_in)
        if d_in is None:
            labels.add('keyobj_system_entropy')
        else:
            labels.add('keyobj_entropy_injected' if injected else 'keyobj_entropy_not_injected')
    if out[0] != 'ok':
        ctx.fail(f'keyobj/construct_raises/{origin}/{be}', f'EccKey ({origin}, {be} back end) raised {out[1]}', case)
        ctx.case(fp, True, labels)
        return
    key = out[1]
    if origin == 'bytes':
        d = d_in
    else:
        d = _scalar_of(key)
        if d is not None and d_in is None and 0 <= d < TWO256:
            case['d'] = b32(d)  # a replay feeds this scalar as the entropy
    ref_pub = ec_mul(d, (GX, GY)) if d is not None else None
    if d is None:
        labels.add('keyobj_scalar_unreadable')
    elif not (1 <= d < N):
        labels.add('keyobj_scalar_outside_quantifier')  # see ASSUMPTIONS; nothing to compare with
        ctx.case(fp, False, labels)
        return
    else:
        labels.update(scalar_labels(d))

    valid_seen = set()  # (x, y) of valid peers already used on this object
    valid_x_seen = set()
    had_invalid = False
    read = []
    did_dh = False
    for idx, op in enumerate(ops):
        if op[0] in ('x', 'y'):
            out = call(lambda a=op[0]: bytes(getattr(key, a)))
            if op[0] == 'y' and 'x' not in read:
                labels.add('keyobj_y_before_x')
            if did_dh:
                labels.add('keyobj_pub_after_dh')
            if op[0] in read:
                labels.add('keyobj_pub_read_twice')
            read.append(op[0])
            if out[0] != 'ok':
                ctx.fail(f'keyobj/pubkey_raises/{origin}/{be}', f'op {idx}: EccKey.{op[0]} raised {out[1]}', case)
            elif ref_pub is not None:
                want = b32(ref_pub[0] if op[0] == 'x' else ref_pub[1])
                if out[1] != want:
                    ctx.fail(
                        f'keyobj/pubkey/{origin}/{be}',
                        f'op {idx}: EccKey.{op[0]} of the {origin} key with scalar {d:#x} is {out[1].hex()}, '
                        f'd*G has {want.hex()}',
                        case,
                    )
            continue
        X, Y = bytes(op[1]), bytes(op[2])
        x, y = i32(X), i32(Y)
        out = call(key.dh, X, Y)
        did_dh = True
        if not (x < P and y < P):
            labels.add('keyobj_op_out_of_range_not_judged')
            continue
        if on_curve(x, y):
            if had_invalid:
                labels.add('keyobj_valid_after_invalid')
            if (x, y) in valid_seen:
                labels.add('keyobj_repeat_valid_peer')
            elif x in valid_x_seen:
                labels.add('keyobj_negated_peer_after_peer')
            valid_seen.add((x, y))
            valid_x_seen.add(x)
            if out[0] != 'ok':
                ctx.fail(f'keyobj/dh_raises/{be}', f'op {idx}: dh with a valid peer key raised {out[1]}', case)
            elif d is not None:
                want = b32(ref_mul(d, (x, y))[0])
                if _norm(out[1]) != want:
                    ctx.fail(
                        f'keyobj/dh/{be}',
                        f'op {idx}: dh on a key object in use gives {_show(out[1])}, d*Q has x = {want.hex()}',
                        case,
                    )
        else:
            after_valid = x in valid_x_seen
            if after_valid:
                labels.add('keyobj_invalid_after_valid_same_x')
            had_invalid = True
            if out[0] == 'ok':
                ctx.fail(
                    f'keyobj/invalid_accepted{"_after_valid_same_x" if after_valid else ""}/{be}',
                    f'op {idx}: {be} back end accepts a public key that is not a point on P-256'
                    + (' (its x was used with the right y earlier on the same key object)' if after_valid else '')
                    + f' and returns {_show(out[1])}',
                    case,
                )
    ctx.case(
        fp if d_in is not None else ('keyobj', be, origin, d, ops_key),
        True,
        labels,
        sample=sample_of(
            'keyobj',
            {'kind': 'keyobj', 'be': be, 'origin': origin, 'd': hex(d) if d is not None else None,
             'ops': [op[0] if len(op) == 1 else 'dh(' + ('on' if on_curve(i32(op[1]), i32(op[2])) else 'off') + '-curve)'
                     for op in ops]},
            2,
        ),
    )


_KEYOBJ_PROGRAM = [
    ('valid', 0), ('y_plus_1', 0), ('valid', 0), ('y', 0), ('x', 0), ('neg', 0), ('y_zero', 0),
    ('valid', 1), ('swapped', 1), ('y_minus_1', 0), ('valid', 0), ('x', 0),
]


def keyobj_directed(ctx):
    """(be, origin, d, ops): the fixed program on boundary and ordinary scalars."""
    peers = [(i32(_h(_PUB_BX)), bool(i32(_h(_PUB_BY)) & 1)), (0, False)]
    codes = [(KEYOBJ_CODES.index(w), i) for w, i in _KEYOBJ_PROGRAM]
    ops = keyobj_ops(peers, codes)
    ds = [1, i32(_h(_PRIV_A))] if ctx.quick else [1, 2, N - 1, N - 2, 1 << 255, i32(_h(_PRIV_A)), i32(_h(_5903_I))]
    for be in BACKENDS:
        for origin in ('generate', 'bytes'):
            for d in ds:
                yield {'be': be, 'origin': origin, 'd': b32(d), 'ops': ops}


def keyobj_cases():
    u256 = uniform256()
    peer = st.tuples(weighted((6, u256), (1, st.integers(0, 1 << 32)), (1, st.just(0))), st.booleans())
    code = weighted(
        (1, st.just(0)), (1, st.just(1)), (4, st.just(2)), (2, st.just(3)), (2, st.just(4)), (1, st.just(5)),
        (1, st.just(6)), (1, st.just(7)), (1, st.just(8)),
    )
    return st.fixed_dictionaries(
        {
            'be': st.sampled_from(BACKENDS),
            'origin': weighted((2, st.just('generate')), (1, st.just('bytes'))),
            'd': scalars(),
            'system': weighted((7, st.just(False)), (1, st.just(True))),
            'peers': st.lists(peer, min_size=1, max_size=3),
            'codes': st.lists(st.tuples(code, st.integers(0, 2)), min_size=3, max_size=9),
        }
    )


def run_keyobj_drawn(ctx, c: dict) -> None:
    system = c['system'] and c['origin'] == 'generate'
    run_keyobj_case(
        ctx,
        {'be': c['be'], 'origin': c['origin'], 'd': None if system else b32(c['d']),
         'ops': keyobj_ops(c['peers'], c['codes'])},
    )


# ---------------------------------------------------------------------------
# RPA
# ---------------------------------------------------------------------------
class _FixedSecrets:
    """Stands in for the `secrets` module inside the toolbox: entropy comes from the case."""

    def __init__(self, data: bytes, real):
        self._data = data
        self._real = real
        self.calls = 0

    def token_bytes(self, n=None):
        self.calls += 1
        n = 32 if n is None else n
        return (self._data * (n // len(self._data) + 1))[:n]

    def __getattr__(self, name):
        return getattr(self._real, name)


def _generate_rpa(ev: Env, be: str, irk: bytes, entropy):
    """The real Address.generate_private_address with the toolbox of back end `be`."""
    from bumble import hci

    tb = ev.tb[be]
    saved_crypto = hci.crypto
    real_secrets = getattr(tb, 'secrets', None)
    fake = None
    try:
        hci.crypto = tb
        if entropy is not None and real_secrets is not None:
            fake = _FixedSecrets(entropy, real_secrets)
            tb.secrets = fake
        return call(hci.Address.generate_private_address, irk), (fake.calls if fake else 0)
    finally:
        hci.crypto = saved_crypto
        if fake is not None:
            tb.secrets = real_secrets


def _resolve(ev: Env, be: str, keys, address):
    from bumble import smp

    saved = smp.crypto
    try:
        smp.crypto = ev.tb[be]
        return call(lambda: smp.AddressResolver(keys).resolve(address))
    finally:
        smp.crypto = saved


def run_rpa_case(ctx, case: dict) -> None:
    """case: irk, entropy (6 bytes or None), others [irk2, irk3], identity (6 bytes),
    identity_public, gen, res, optional address (6 bytes: skip generation)."""
    from bumble import hci

    ev = env(ctx)
    case = dict(case)
    case['kind'] = 'rpa'
    irk = case['irk']
    gen, res = case['gen'], case['res']
    if not ev.full_builtin_toolbox and 'builtin' in (gen, res):
        return
    others = []
    for k in case['others']:
        # "unrelated" at least means different
        others.append(k if k != irk else bytes([k[0] ^ 1]) + k[1:])
    ident_bytes = case['identity']
    if case['identity_public']:
        identity = hci.Address(ident_bytes, hci.Address.PUBLIC_DEVICE_ADDRESS)
    else:
        ident_bytes = ident_bytes[:5] + bytes([ident_bytes[5] | 0xC0])  # static random
        identity = hci.Address(ident_bytes, hci.Address.RANDOM_DEVICE_ADDRESS)
    other_identity = hci.Address(bytes(b ^ 0x5A for b in ident_bytes), hci.Address.PUBLIC_DEVICE_ADDRESS)
    labels = {'rpa', f'rpa_gen={gen}', f'rpa_res={res}'}
    labels.add('rpa_identity_public' if case['identity_public'] else 'rpa_identity_random')

    if case.get('address') is not None:
        address = hci.Address(case['address'], hci.Address.RANDOM_DEVICE_ADDRESS)
        labels.add('rpa_recorded_address')
    else:
        out, injected = _generate_rpa(ev, gen, irk, case.get('entropy'))
        if case.get('entropy') is not None:
            labels.add('rpa_entropy_injected' if injected else 'rpa_entropy_not_injected')
        else:
            labels.add('rpa_system_entropy')
        if out[0] != 'ok':
            ctx.fail(f'rpa/generate_raises/{gen}', f'generate_private_address raised {out[1]}', case)
            ctx.case(('rpa', case), nonzero(irk), labels)
            return
        address = out[1]
        if not injected:
            case['address'] = bytes(address)  # so that a replay judges the same address
    abytes = bytes(address)
    if len(abytes) != 6 or (abytes[5] >> 6) != 0b01 or address.address_type != hci.Address.RANDOM_DEVICE_ADDRESS:
        ctx.fail(
            f'rpa/format/{gen}',
            f'address {address} generated from an IRK is not a resolvable private address (type bits 0b01)',
            case,
        )
    ent = case.get('entropy')
    if ent is not None and ent[2] & 0xC0 != 0x40:
        labels.add('rpa_prand_msbs_forced')

    # resolves under its own key
    out = _resolve(ev, res, [(irk, identity)], address)
    if out[0] != 'ok':
        ctx.fail(f'rpa/resolve_raises/{res}', f'AddressResolver.resolve raised {out[1]}', case)
    elif out[1] is None:
        ctx.fail(
            f'rpa/unresolved/gen_{gen}/res_{res}',
            f'address {address} generated from the IRK ({gen} back end) does not resolve under that IRK ({res} back end)',
            case,
        )
    elif not (bytes(out[1]) == bytes(identity) and out[1].is_public == identity.is_public):
        ctx.fail(
            'rpa/wrong_identity',
            f'address resolved to {out[1]!r} instead of the identity address {identity!r}',
            case,
        )

    # does not resolve under an unrelated key
    hits = 0
    for k in others:
        out = _resolve(ev, res, [(k, other_identity)], address)
        if out[0] != 'ok':
            ctx.fail(f'rpa/resolve_raises/{res}', f'AddressResolver.resolve raised {out[1]}', case)
            break
        if out[1] is None:
            break
        hits += 1
    else:
        if others:
            ctx.fail(
                f'rpa/resolves_under_unrelated_key/res_{res}',
                f'address {address} resolves under {hits} independently drawn IRKs that did not generate it',
                case,
            )
    if hits:
        labels.add('rpa_unrelated_key_coincidence')

    # the right entry is picked when several keys are known
    if others:
        out = _resolve(ev, res, [(others[0], other_identity), (irk, identity)], address)
        if out[0] == 'ok' and out[1] is not None and hits == 0:
            if not (bytes(out[1]) == bytes(identity) and out[1].is_public == identity.is_public):
                ctx.fail(
                    'rpa/wrong_identity',
                    f'with two keys known the address resolved to {out[1]!r} instead of {identity!r}',
                    case,
                )
        elif out[0] == 'ok' and out[1] is None:
            ctx.fail(
                f'rpa/unresolved/gen_{gen}/res_{res}',
                f'address {address} does not resolve when its IRK is the second of two known keys',
                case,
            )
    ctx.case(
        ('rpa', irk, abytes, others, ident_bytes, gen, res),
        nonzero(irk),
        labels,
        sample=sample_of('rpa', {'kind': 'rpa', 'irk': irk, 'address': abytes, 'gen': gen, 'res': res}),
    )


def rpa_cases():
    entropy = st.one_of(
        st.binary(min_size=6, max_size=6),
        st.binary(min_size=6, max_size=6),
        st.sampled_from([bytes(6), b'\xff' * 6, b'\x00\x00\x80\x00\x00\x00', b'\x00\x00\xc0\x00\x00\x00']),
    )
    return st.fixed_dictionaries(
        {
            'irk': block16(),
            'entropy': entropy,
            'others': st.tuples(block16(), block16()).map(list),
            'identity': st.binary(min_size=6, max_size=6),
            'identity_public': st.booleans(),
            'gen': st.sampled_from(BACKENDS),
            'res': st.sampled_from(BACKENDS),
        }
    )


# ---------------------------------------------------------------------------
def run(ctx) -> None:
    from vlib.runner import HarnessError

    ev = env(ctx)
    if ev.selection_problem:
        # cryptography is importable in this interpreter, so this is the selection code's doing
        ctx.fail('selection/library_not_selected', ev.selection_problem, {'kind': 'selection'})
    if ev.load_error:
        ctx.fail(
            'selection/fallback',
            f'bumble/crypto/__init__.py with the library back end unimportable: {ev.load_error}',
            {'kind': 'selection'},
        )
    ctx.extra['backends'] = {
        'lib': ev.tb['lib'].e.__module__,
        'builtin': ev.tb['builtin'].e.__module__,
        'builtin_toolbox_loaded_separately': ev.full_builtin_toolbox,
    }
    ctx.extra['bumble_crypto_path'] = os.path.dirname(os.path.abspath(ev.tb['lib'].__file__))
    judge_third_party_hidden(ctx, ev)
    ctx.extra['third_party_hidden'] = {k: ev.no_third_party[k] for k in ('loaded', 'error', 'primitives')}

    # -- deterministic part (shard 0 only: it is the same everywhere) ---------
    if ctx.shard == 0:
        for a in ANCHORS:
            run_anchor_case(ctx, a[0])
        for kind, d, x, y in simple_invalid_cases():
            run_invalid_case(ctx, kind, d, x, y)
        bounds = sorted(_BOUNDARY)
        for da in bounds:
            for db in bounds + [i32(_h(_PRIV_A))]:
                if ctx.out_of_time():
                    ctx.label('budget_hit:boundary_ecdh')
                    break
                run_ecdh_case(ctx, da, db)
        run_lifted_case(ctx, 1, 0, False)  # the on-curve point with x = 0
        run_lifted_case(ctx, i32(_h(_PRIV_B)), 0, True)
        # CMAC at every length with the RFC 4493 key and message pattern
        rfc = _h(_RFC_MSG) * 16
        run_cmac_all_lengths(ctx, _h(_RFC_KEY), rfc)
        run_cmac_all_lengths(ctx, bytes(16), bytes(1024))
        run_cmac_all_lengths(ctx, b'\xff' * 16, b'\xff' * 1024)
        # shared secrets with z leading zero octets, z = 32 is the secret 0 (quick: a stratified subset of z)
        zs = [1, 2, 3, 4, 8, 15, 16, 17, 24, 30, 31, 32] if ctx.quick else list(range(1, 33))
        ds = [i32(_h(_PRIV_B)), 2] if ctx.quick else [i32(_h(_PRIV_B)), 2, N - 1, N - 2, (N + 1) // 2, 1 << 255]
        for z in zs:
            for j, d in enumerate(ds):
                if ctx.out_of_time():
                    ctx.label('budget_hit:small_secret')
                    break
                x0 = (1 << (8 * (32 - z) - 1)) + 977 * j if z < 32 else 0
                run_small_secret_case(ctx, d, x0, bool(j & 1))
                ctx.label(f'secret_leading_zero_octets={z}')
        # public keys with a leading zero octet in x / in y
        fx, fy = scalars_with_leading_zero_public_key(ctx.pick(3, 8))
        for k in fx + fy:
            run_ecdh_case(ctx, k, i32(_h(_PRIV_B)))
            run_ecdh_case(ctx, k, k)
        # one key object, a fixed history of operations
        for c in keyobj_directed(ctx):
            if ctx.out_of_time():
                ctx.label('budget_hit:keyobj_directed')
                break
            run_keyobj_case(ctx, c)
            ctx.label('keyobj_directed')

    # -- primitives -----------------------------------------------------------
    ctx.hyp('e', lambda c: run_e_case(ctx, *c), st.tuples(block16(), block16()), max_examples=ctx.n(3000, 400000))
    buf = st.one_of(
        st.binary(min_size=1024, max_size=1024),
        st.binary(min_size=1024, max_size=1024),
        st.binary(min_size=16, max_size=16).map(lambda b: b * 64),
        st.sampled_from([bytes(1024), b'\xff' * 1024, b'\x80' + bytes(1023)]),
    )
    ctx.hyp(
        'cmac_all_lengths',
        lambda c: run_cmac_all_lengths(ctx, *c),
        st.tuples(block16(), buf),
        max_examples=ctx.n(60, 6400),
    )
    ctx.hyp(
        'cmac_random',
        lambda c: run_cmac_case(ctx, *c),
        st.tuples(block16(), st.binary(min_size=0, max_size=300)),
        max_examples=ctx.n(1000, 200000),
    )
    if ev.full_builtin_toolbox:
        for fn in sorted(TOOLBOX):
            ctx.hyp(
                'fn_' + fn,
                lambda c, fn=fn: run_fn_case(ctx, fn, c),
                TOOLBOX[fn],
                max_examples=ctx.n(250, 48000),
            )
        ctx.hyp('rpa', lambda c: run_rpa_case(ctx, c), rpa_cases(), max_examples=ctx.n(500, 120000))
        # a few with the operating system's entropy, exactly as the stack runs
        ctx.hyp(
            'rpa_system_entropy',
            lambda c: run_rpa_case(ctx, dict(c, entropy=None)),
            rpa_cases(),
            max_examples=ctx.n(40, 3200),
        )

    # -- elliptic curve ---------------------------------------------------------
    u256 = uniform256()
    ctx.hyp(
        'invalid_key',
        lambda c: run_invalid_case(ctx, c[0], c[1], *build_invalid(c[0], c[2], c[3])),
        st.tuples(st.sampled_from(INVALID_KINDS), scalars(), u256, u256),
        max_examples=ctx.n(1500, 96000),
    )
    x0 = weighted((12, u256), (3, st.integers(0, 1 << 32)), (1, st.just(0)))
    ctx.hyp(
        'ecdh_lifted',
        lambda c: run_lifted_case(ctx, *c),
        st.tuples(scalars(), x0, st.booleans()),
        max_examples=ctx.n(600, 48000),
    )
    ctx.hyp(
        'ecdh',
        lambda c: run_ecdh_case(ctx, *c),
        st.tuples(scalars(), scalars()),
        max_examples=ctx.n(600, 64000),
    )

    ctx.hyp(
        'small_secret',
        lambda c: run_small_secret_case(ctx, c[0], small_x0(c[1], c[2]), c[3]),
        st.tuples(scalars(), st.integers(1, 32), u256, st.booleans()),
        max_examples=ctx.n(50, 8000),
    )
    ctx.hyp('keyobj', lambda c: run_keyobj_drawn(ctx, c), keyobj_cases(), max_examples=ctx.n(110, 16000))

    # -- the generator must reach the classes the quantifier names --------------
    # (if the time budget stopped generation early the floors still apply to what was generated:
    # too little coverage is exit 2, never a pass and never a violation)
    for hit in [k for k in ctx.labels if k.startswith('budget_hit:')]:
        ctx.notes.append(f'{hit} = {ctx.labels[hit]} (time budget reached; fewer cases than planned)')
    for m in (0, 1, 15):
        ctx.floor(f'cmac_len_mod16={m}', 20)
    for n in CMAC_LENGTHS:
        ctx.floor(f'cmac_len={n}', 5)
    ctx.floor('cmac_complete_blocks', 20)
    for c in ('00', '01', '10', '11'):
        ctx.floor(f'cmac_subkey_carry={c}', 3)
    for kind in INVALID_KINDS:
        ctx.floor('offcurve:' + kind, 5)
    ctx.floor('invalid_key_off_curve', 50)
    ctx.floor('invalid_key_out_of_range', 10)
    ctx.floor('scalar_boundary', 10)
    ctx.floor('scalar_pow2', 10)
    ctx.floor('scalar_all_ones', 5)
    if ctx.shard == 0:
        for name in _BOUNDARY.values():
            ctx.floor(name, 4)
        ctx.floor('anchor', len(ANCHORS))
        ctx.floor('point_x=0', 2)
        # directed families run in shard 0 only
        for z in ([1, 2, 3, 4, 8, 15, 16, 17, 24, 30, 31, 32] if ctx.quick else range(1, 33)):
            ctx.floor(f'secret_leading_zero_octets={z}', 2)
        ctx.floor('secret=0', 2)
        ctx.floor('pubkey_x_leading_zero_octet', 3)
        ctx.floor('pubkey_y_leading_zero_octet', 3)
        ctx.floor('keyobj_directed', 8)
    ctx.floor('small_secret', 30)
    for k in _ZERO_OCTET_CLASSES:
        ctx.floor(f'secret_leading_zero_octets>={k}', 3)
    ctx.floor('selection_third_party_hidden', 1)
    for be in BACKENDS:
        ctx.floor(f'keyobj_be={be}', 20)
    ctx.floor('keyobj_origin=generate', 30)
    ctx.floor('keyobj_origin=bytes', 10)
    ctx.floor('keyobj_entropy_injected', 20)
    ctx.floor('keyobj_system_entropy', 3)
    ctx.floor('keyobj_invalid_after_valid_same_x', 10)
    ctx.floor('keyobj_valid_after_invalid', 10)
    ctx.floor('keyobj_repeat_valid_peer', 10)
    ctx.floor('keyobj_negated_peer_after_peer', 5)
    ctx.floor('keyobj_y_before_x', 5)
    ctx.floor('keyobj_pub_after_dh', 10)
    if not ctx.failures:
        if ctx.labels.get('keyobj_entropy_not_injected'):
            raise HarnessError('EccKey.generate() no longer draws through builtin.secrets / cryptography.ec; adapt _generate_key')
        if ctx.labels.get('keyobj_scalar_unreadable'):
            raise HarnessError('the private scalar of an EccKey object cannot be read any more; adapt _scalar_of')
    if ev.full_builtin_toolbox:
        for fn in TOOLBOX:
            ctx.floor('fn:' + fn, 50)
        for be in BACKENDS:
            ctx.floor(f'rpa_gen={be}', 20)
            ctx.floor(f'rpa_res={be}', 20)
        ctx.floor('rpa_entropy_injected', 50)
        ctx.floor('rpa_prand_msbs_forced', 20)
    if ctx.labels.get('rpa_entropy_not_injected'):
        raise HarnessError('the toolbox no longer draws prand through its `secrets` global; adapt _generate_rpa')


def replay(ctx, case) -> None:
    kind = case['kind']
    if kind == 'anchor':
        run_anchor_case(ctx, case['name'])
    elif kind == 'e':
        run_e_case(ctx, case['key'], case['block'])
    elif kind == 'cmac':
        run_cmac_case(ctx, case['key'], case['msg'])
    elif kind == 'fn':
        run_fn_case(ctx, case['fn'], case['args'])
    elif kind == 'ecdh':
        run_ecdh_case(ctx, i32(case['da']), i32(case['db']))
    elif kind == 'ecdh_lifted':
        run_lifted_case(ctx, i32(case['d']), i32(case['x0']), case['odd'])
    elif kind == 'invalid_key':
        run_invalid_case(ctx, case['how'], i32(case['d']), i32(case['x']), i32(case['y']))
    elif kind == 'rpa':
        run_rpa_case(ctx, case)
    elif kind == 'keyobj':
        run_keyobj_case(ctx, case)
    elif kind == 'small_secret':
        run_small_secret_case(ctx, i32(case['d']), i32(case['x0']), case['odd'])
    elif kind == 'selection':
        ev = env(ctx)
        judge_third_party_hidden(ctx, ev)
        if ev.selection_problem:
            ctx.fail('selection/library_not_selected', ev.selection_problem, {'kind': 'selection'})
        if ev.load_error:
            ctx.fail('selection/fallback', ev.load_error, {'kind': 'selection'})
    else:
        raise ValueError(kind)
