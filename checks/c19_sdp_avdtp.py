"""
C19 - SDP answers and AVDTP/AVCTP messages are reassembled exactly across PDUs.

Four parts, each with its own case kind and signatures:

  sdp     Bumble sdp.Client(s) on 1..3 peers <-> the sdp.Server of one device over BR/EDR links
          of vlib.world.World; generated record sets / MTUs / queries; oracle = reference model
          over the generated record description.
  avdtp   avdtp.Protocol.send_message -> stub L2CAP channel -> avdtp.MessageAssembler; sender
          side PDU rules + byte-identical reassembly; fault sequences between good messages.
  avctp   harness-side spec-conformant AVCTP sender -> avctp.MessageAssembler; same oracles.
  stream  two devices as A2DP source and sink; operation lists against the AVDTP state diagram.

Extensions (same case kinds, same oracles, new generator families with their own floors):

  sdp_history   clients close / reopen their SDP channel, drop and re-establish their link, abandon a query
                half-way, while another client is between two PDUs of a continued answer (kind 'sdp', optional
                per-client keys 'pre', 'abandon', 'leave').
  sdp_handles   up to 64 * (handles per response) matching records: the handle list itself needs 1..64 responses.
  avdtp_peer    the AVDTP assembler fed by a harness-side sender that fragments as another stack may (kind 'avdtp_peer').
  stream_multi  differing INT/ACP stream end point identifiers, two streams, operations without a pause between
                them (kind 'stream', optional keys 'pads', 'nstreams', 'cross', operations [name, mode, stream, fast]).
"""

from __future__ import annotations

import asyncio
import struct

from hypothesis import strategies as st

from vlib import vloop, world
from vlib.runner import HarnessError

PROPERTY = 'C19'
LEVEL = 'exploration'
RULE = (
    'sdp: 0..12 generated records (attribute ids incl. 0x0000/0xFFFF and duplicates across records, values = '
    'nested data elements with UUIDs of width 16/32/128), one answer padded to k*capacity+{-1,0,1} '
    '(capacity = client MTU-9, k<=64, every answer capped by construction at 64 responses), client MTU '
    '48..65535, server MTU generated, 1..3 clients on different peers connected at the same time running '
    'generated query lists (search_services / get_attributes / search_attributes, patterns of 1..12 UUIDs '
    'all-present / some-absent / split over two records / random, ascending id lists and ranges) '
    'concurrently with generated gaps and HCI delays; non-trivial = an answer needing >=2 responses, a '
    'pattern of >=2 UUIDs, or >=2 clients. avdtp: messages of 0..255*(MTU-3) bytes (biased to MTU-2+-1 and '
    'k*(MTU-3)+-1) through Protocol.send_message into MessageAssembler, MTU 48..1024, then fault sequences '
    '(drop / duplicate / wrong label / wrong message type / truncation / stray continue|end) between good '
    'messages; avctp: the same with a harness-side sender that follows the AVCTP packet layouts (PID in '
    'start/single only) and fragment sizes 1..MTU; non-trivial = >=2 fragments or a message following a '
    'fault. stream: lists of configure/open/start/suspend/close/abort (API call, or raw signalling command '
    'when the model says the operation is illegal) from the source side; non-trivial = history with an '
    'illegal operation or >=3 legal transitions. distinct by the complete case. '
    'EXTENSIONS. sdp_history: the same worlds, 1..3 clients, client 0 starts with an answer of 2..34 responses over a '
    'slow HCI; every client has, per query, an optional operation before it (reopen = close the SDP channel and open '
    'a new one on the same link; rejoin = drop the ACL link, connect again, new sdp.Client) and an optional point '
    '(after r response round trips) at which the caller abandons the query (task cancelled; the next query runs on '
    'the same channel or after a reopen), and after its last query it may close its SDP channel or drop its link '
    'while the others are between two PDUs of a continued answer; every query that was not abandoned is judged by '
    'the same model. sdp_handles: 0..64*h (+ non-matching ones in between, up to ~1150 records) records that all '
    'match, h = handles per response at client MTU 48..100, counts k*h+{-1,0,1} for k in 1..64: the handle list of '
    'search_services itself needs up to 64 responses; optionally a second client with another MTU asks the same at '
    'the same time, and a second query follows on the same channel. avdtp_peer: the AVDTP assembler fed by a '
    'harness-side sender that fragments like another stack may (start packet with 0..MTU-3 payload bytes, '
    'continue/end packets with 1..MTU-1, messages that would fit in one packet fragmented anyway, up to 255 packets), '
    'same fault sequences and oracle as avdtp. stream_multi: 1..2 streams between the two devices, 0..2 unused '
    'stream end points registered in front of the used ones on either side and crossed pairing (INT and ACP SEIDs '
    'differ; in the first family both are always 1), operations carry the stream they act on, one in three is '
    'followed by the next with no pause; after each pause every stream must be, on both sides, where the state '
    'diagram has it (the one operated on AND the other one).'
)
ASSUMPTIONS = [
    'SDP: attribute-id lists are ascending and non-overlapping (Core Vol 3 Part B 4.6.1), ids are unique '
    'within one record; UUIDs inside data element alternatives are never used in patterns (matching '
    'through alternatives is left open)',
    'SDP: search_attributes results are compared after dropping records with no selected attribute, '
    'order-insensitively over records; get_attributes for an unknown handle may raise or return nothing',
    'SDP: response PDUs larger than the client MTU are counted (label sdp:pdu_exceeds_mtu), not asserted; the '
    'server-side MTU is at least the largest request of the case; controllers use 1021-byte ACL buffers (ACL '
    'fragmentation is C05\'s subject); a response lost by the carrier (virtual controller / HCI raising) is '
    'reported under sdp/no_answer/carrier/<site>',
    'AVCTP: when the assembler rejects the specification\'s packet layout (known finding F19d: it expects the PID '
    'in continue/end packets too) that violation is recorded once by a probe and the generated cases are sent '
    'in the layout the implementation expects (counted under excluded_by_known_finding; signatures then start '
    'with avctp_pid_in_every_packet/), so reassembly and fault handling stay exercised',
    'AVDTP/AVCTP faults: the message the fault belongs to may be delivered intact or not at all; every '
    'other message of the sequence must be delivered byte-identical exactly once, in order',
    'stream: start in CONFIGURED may either be refused or auto-open (documented API behaviour); abort in '
    'IDLE may be refused or accepted; abort is issued through Stream.abort() when the class has it, '
    'otherwise through the stream\'s remote endpoint proxy (the only initiating-side API)',
    'SDP histories: a query the caller abandoned is not judged (nor is what leaving raises); a client that reopens '
    'its channel or reconnects its link must be able to (sdp/reopen_failed, sdp/rejoin_failed) and every '
    'transaction that is not abandoned - of that client and of all others - must return the exact answer. ACL '
    'connection set-ups of re-joining clients are serialised by the harness (colliding set-ups are C06\'s subject)',
    'AVDTP peer sender: AVDTP 8.4 puts no lower bound on the payload of a start, continue or end packet and does not '
    'forbid fragmenting a short message; continue/end packets of the harness carry at least one byte',
    'stream_multi: when an operation is followed by the next with no pause only the initiating side is compared '
    'right away (the acceptor is compared at the next pause); a legal procedure issued right after the previous '
    'call returned must still be accepted (the API is awaited call by call). An operation on one stream must leave '
    'the other stream in the state the diagram has it in, on both sides',
]
SHRINK_KEYS = ('ops', 'records', 'clients', 'queries', 'attrs', 'msgs')

SDP_HORIZON = 600.0
# ACL fragmentation is C05's subject: large controller buffers keep big SDP answers cheap
ACL_GEOMETRY = {'acl_data_packet_length': 1021, 'total_num_acl_data_packets': 8}
STREAM_HORIZON = 600.0


# ===========================================================================
# Part 1: SDP
# ===========================================================================
BASE_UUID_BE = bytes.fromhex('0000000000001000800000805F9B34FB')  # big-endian, first 4 bytes = value
ABSENT_IDENTS = (24, 25, 26, 27)  # never placed in a record
ALT_IDENTS = (20, 21, 22, 23)  # only inside alternatives, never in a pattern


def uuid_value(ident: int):
    """ident -> (kind, value): kind 16 = expressible in 16 bits, 32 = in 32 bits, 128 = full."""
    if ident < 12 or ident in (24, 25):
        return 16, 0x1100 + ident
    if ident < 16 or ident == 26:
        return 32, 0x12340000 + ident
    return 128, bytes([0xA0 + ident]) * 4 + bytes([ident, 0x11, 0x22, 0x33]) + bytes(range(8))


def uuid_width(ident: int, width: int) -> int:
    kind, _ = uuid_value(ident)
    if kind == 16:
        return width if width in (2, 4, 16) else 2
    if kind == 32:
        return width if width in (4, 16) else 4
    return 16


def uuid128_be(ident: int) -> bytes:
    """Reference 128-bit (big-endian) value of a pool identity (harness arithmetic, not Bumble's)."""
    kind, value = uuid_value(ident)
    if kind == 128:
        return value
    return struct.pack('>I', value) + BASE_UUID_BE[4:]


def uuid_wire_be(ident: int, width: int) -> bytes:
    kind, value = uuid_value(ident)
    width = uuid_width(ident, width)
    if width == 2:
        return struct.pack('>H', value)
    if width == 4:
        return struct.pack('>I', value)
    return uuid128_be(ident)


def le_to_128_be(uuid_bytes_le: bytes) -> bytes:
    be = bytes(uuid_bytes_le)[::-1]
    if len(be) == 16:
        return be
    return be.rjust(4, b'\0') + BASE_UUID_BE[4:]


_PRINTABLE = bytes(range(0x20, 0x7F))


def text_bytes(length: int, seed: int) -> bytes:
    off = seed % len(_PRINTABLE)
    return (_PRINTABLE * ((length + off) // len(_PRINTABLE) + 1))[off : off + length]


# -- description normalisation ------------------------------------------------
def normalize(d, in_alt=False):
    """Drawn element description -> explicit plain-data description (lists)."""
    tag = d[0]
    if tag == 'u':
        ident = d[1]
        if in_alt:
            ident = ALT_IDENTS[ident % len(ALT_IDENTS)]
        return ['u', ident, uuid_width(ident, d[2])]
    if tag == 'i':
        size = d[2]
        return ['i', d[1] & ((1 << (8 * size)) - 1), size]
    if tag == 's':
        size = d[2]
        v = d[1] & ((1 << (8 * size)) - 1)
        if v >= 1 << (8 * size - 1):
            v -= 1 << (8 * size)
        return ['s', v, size]
    if tag in ('t', 'l'):
        return [tag, d[1], d[2]]
    if tag == 'b':
        return ['b', bool(d[1])]
    if tag == 'n':
        return ['n']
    if tag in ('q', 'a'):
        return [tag, [normalize(c, in_alt or tag == 'a') for c in d[1]]]
    raise HarnessError(f'bad element description {d!r}')


def enc(d) -> bytes:
    """Harness-side serialisation (minimal size descriptors); used for answer sizes only."""
    tag = d[0]

    def var(type_id, data):
        n = len(data)
        if n <= 0xFF:
            return bytes([type_id << 3 | 5, n]) + data
        if n <= 0xFFFF:
            return bytes([type_id << 3 | 6]) + struct.pack('>H', n) + data
        return bytes([type_id << 3 | 7]) + struct.pack('>I', n) + data

    if tag == 'n':
        return b'\x00'
    if tag in ('i', 's'):
        size = d[2]
        idx = {1: 0, 2: 1, 4: 2, 8: 3}[size]
        return bytes([(1 if tag == 'i' else 2) << 3 | idx]) + (d[1] & ((1 << (8 * size)) - 1)).to_bytes(size, 'big')
    if tag == 'u':
        w = uuid_wire_be(d[1], d[2])
        return bytes([3 << 3 | {2: 1, 4: 2, 16: 4}[len(w)]]) + w
    if tag == 't':
        return var(4, text_bytes(d[1], d[2]))
    if tag == 'b':
        return bytes([5 << 3, 1 if d[1] else 0])
    if tag == 'q':
        return var(6, b''.join(enc(c) for c in d[1]))
    if tag == 'a':
        return var(7, b''.join(enc(c) for c in d[1]))
    if tag == 'l':
        return var(8, text_bytes(d[1], d[2]))
    raise HarnessError(f'bad element description {d!r}')


def canon(d):
    """Canonical comparable form of a description."""
    tag = d[0]
    if tag == 'u':
        return ('u', uuid_width(d[1], d[2]), uuid128_be(d[1]).hex())
    if tag in ('i', 's'):
        return (tag, d[2], d[1])
    if tag == 't':
        return ('t', text_bytes(d[1], d[2]).hex())
    if tag == 'l':
        return ('l', text_bytes(d[1], d[2]).decode('ascii'))
    if tag == 'b':
        return ('b', bool(d[1]))
    if tag == 'n':
        return ('n',)
    return (tag, tuple(canon(c) for c in d[1]))


def canon_de(de):
    """Canonical comparable form of a bumble DataElement returned by the client."""
    from bumble.sdp import DataElement

    t = de.type
    if t == DataElement.UUID:
        raw = de.value.uuid_bytes
        return ('u', len(raw), le_to_128_be(raw).hex())
    if t == DataElement.UNSIGNED_INTEGER:
        return ('i', de.value_size, de.value)
    if t == DataElement.SIGNED_INTEGER:
        return ('s', de.value_size, de.value)
    if t == DataElement.TEXT_STRING:
        return ('t', bytes(de.value).hex())
    if t == DataElement.URL:
        return ('l', de.value)
    if t == DataElement.BOOLEAN:
        return ('b', bool(de.value))
    if t == DataElement.NIL:
        return ('n',)
    if t == DataElement.SEQUENCE:
        return ('q', tuple(canon_de(c) for c in de.value))
    if t == DataElement.ALTERNATIVE:
        return ('a', tuple(canon_de(c) for c in de.value))
    return ('?', int(t), repr(de.value))


def build_uuid(ident: int, width: int):
    from bumble import core

    return core.UUID.from_bytes(uuid_wire_be(ident, width)[::-1])


def build_de(d):
    from bumble.sdp import DataElement

    tag = d[0]
    if tag == 'u':
        return DataElement.uuid(build_uuid(d[1], d[2]))
    if tag == 'i':
        return DataElement.unsigned_integer(d[1], d[2])
    if tag == 's':
        return DataElement.signed_integer(d[1], d[2])
    if tag == 't':
        return DataElement.text_string(text_bytes(d[1], d[2]))
    if tag == 'l':
        return DataElement.url(text_bytes(d[1], d[2]).decode('ascii'))
    if tag == 'b':
        return DataElement.boolean(bool(d[1]))
    if tag == 'n':
        return DataElement.nil()
    if tag == 'q':
        return DataElement.sequence([build_de(c) for c in d[1]])
    if tag == 'a':
        return DataElement.alternative([build_de(c) for c in d[1]])
    raise HarnessError(f'bad element description {d!r}')


# -- reference model ------------------------------------------------------------
def uuids_in(d, out: set, through_alt=False):
    tag = d[0]
    if tag == 'u':
        out.add(uuid128_be(d[1]))
    elif tag == 'q' or (tag == 'a' and through_alt):
        for c in d[1]:
            uuids_in(c, out, through_alt)


def record_uuids(record) -> set:
    out: set = set()
    for _id, value in record['attrs']:
        uuids_in(value, out)
    return out


def model_match(record, pattern) -> bool:
    have = record_uuids(record)
    return all(uuid128_be(ident) in have for ident, _w in pattern)


def selected(ids, attr_id: int) -> bool:
    for e in ids:
        if isinstance(e, (list, tuple)):
            if e[0] <= attr_id <= e[1]:
                return True
        elif e == attr_id:
            return True
    return False


def model_attributes(record, ids):
    return sorted(([a, v] for a, v in record['attrs'] if selected(ids, a)), key=lambda x: x[0])


def attr_list_bytes(attrs) -> bytes:
    return enc(['q', [x for a, v in attrs for x in (['i', a, 2], v)]])


def model_answer(records, query):
    """-> (kind, expected, serialized size of the answer body as the server would chunk it)."""
    kind = query[0]
    if kind == 'ss':
        handles = [r['handle'] for r in records if model_match(r, query[1])]
        return kind, handles, 4 * len(handles)
    if kind == 'ga':
        rec = next((r for r in records if r['handle'] == query[1]), None)
        if rec is None:
            return kind, None, 0
        attrs = model_attributes(rec, query[2])
        return kind, attrs, len(attr_list_bytes(attrs))
    if kind == 'sa':
        lists = []
        for r in records:
            if model_match(r, query[1]):
                attrs = model_attributes(r, query[2])
                if attrs:
                    lists.append(attrs)
        body = b''.join(attr_list_bytes(a) for a in lists)
        return kind, lists, _seq_header(len(body)) + len(body)
    raise HarnessError(f'bad query {query!r}')


def _seq_header(n: int) -> int:
    return 2 if n <= 0xFF else 3 if n <= 0xFFFF else 5


def responses_needed(kind: str, size: int, mtu: int) -> int:
    if kind == 'ss':
        per = (mtu - 11) // 4
        n = size // 4
        return max(1, -(-n // per))
    cap = mtu - 9
    return max(1, -(-size // cap))


# -- generators -------------------------------------------------------------------
MTU_EDGE = [48, 48, 49, 50, 51, 52, 55, 58, 59, 60, 64, 100, 127, 128, 255, 256, 257, 672, 1024, 2048, 4096, 65535]


def mtu_strategy():
    return st.one_of(st.sampled_from(MTU_EDGE), st.integers(48, 300), st.integers(48, 300), st.integers(48, 65535))


def element_strategy():
    """One drawn integer per attribute value; decode_element() turns it into a description."""
    return st.integers(0, 2**96 - 1).map(decode_element)


def decode_element(bits: int):
    """Deterministic decoder: digits of `bits` choose types, sizes and nesting (depth <= 3)."""
    state = [bits]

    def take(n: int) -> int:
        v = state[0] % n
        state[0] //= n
        return v

    def element(depth: int):
        k = take(14)
        if k >= 11 and depth < 3:
            tag = 'a' if take(4) == 0 else 'q'
            return (tag, [element(depth + 1) for _ in range(take(4))])
        if k <= 3 or k >= 11:
            return ('u', take(20), (2, 4, 16)[take(3)])
        if k == 4:
            return ('i', take(2**32) * 0x100000001 + take(7), (1, 2, 4, 8)[take(4)])
        if k == 5:
            return ('s', take(2**32) * 0x100000001 + take(7), (1, 2, 4, 8)[take(4)])
        if k == 6:
            return ('t', take(41), take(256))
        if k == 7:
            return ('l', take(21), take(256))
        if k == 8:
            return ('b', bool(take(2)))
        if k == 9:
            return ('n',)
        return ('q', [('u', take(20), (2, 4, 16)[take(3)]) for _ in range(1 + take(3))])

    return element(0)


ATTR_IDS = [0x0000, 0x0001, 0x0001, 0x0002, 0x0003, 0x0004, 0x0005, 0x0006, 0x0009, 0x0100, 0x0101, 0x0200, 0x0311,
            0xFFFE, 0xFFFF, 0xFFFF]
HANDLES = [0x00010000, 0x00010001, 0x00010002, 0x00010003, 0x7FFFFFFF, 0x80000000, 0xFFFFFFFF, 0x00000000]


def sdp_strategy(history: bool = False):
    attr_id = st.one_of(st.sampled_from(ATTR_IDS), st.integers(0, 0xFFFF))
    record = st.tuples(
        st.one_of(st.sampled_from(HANDLES), st.integers(0x10000, 0x1FFFF)),
        st.lists(st.tuples(attr_id, element_strategy()), max_size=7),
    )
    pick = st.tuples(st.integers(0, 255), st.sampled_from([2, 4, 16]))
    pattern = st.tuples(
        st.sampled_from(['present', 'present', 'some_absent', 'split', 'random']),
        st.integers(0, 11),
        st.one_of(st.lists(pick, min_size=1, max_size=4), st.lists(pick, min_size=1, max_size=12)),
    )
    idlist = st.one_of(
        st.just('all'),
        st.lists(st.tuples(st.integers(0, 255), st.integers(0, 3)), min_size=1, max_size=6),
    )
    query = st.one_of(
        st.tuples(st.just('ss'), pattern),
        st.tuples(st.just('ga'), st.integers(0, 12), idlist),
        st.tuples(st.just('sa'), pattern, idlist),
        st.tuples(st.just('sa'), pattern, idlist),
    )
    client = st.fixed_dictionaries(
        {
            'mtu': mtu_strategy(),
            'queries': st.lists(query, min_size=1, max_size=4),
            'gaps': st.lists(st.sampled_from([0, 0, 1, 3, 20]), max_size=4),
            'delays': st.lists(st.sampled_from([0, 0, 0, 1, 7, 50]), max_size=4),
            # None: the SDP channel is opened before anybody queries; k: opened k ms after the others started querying
            'join': st.sampled_from([None, None, None, 0, 1, 3, 8, 15, 30, 60]),
        }
    )
    fields = {
        'scenario': st.sampled_from(['general'] * 5 + ['many_matches']),
        'records': st.one_of(st.lists(record, max_size=12), st.lists(record, max_size=5)),
        'common': st.one_of(st.none(), st.none(), st.tuples(st.integers(0, 19), st.sampled_from([2, 4, 16]))),
        'server_mtu': mtu_strategy(),
        'server_delays': st.lists(st.sampled_from([0, 0, 0, 1, 7]), max_size=3),
        'clients': st.one_of(st.lists(client, min_size=1, max_size=1), st.lists(client, min_size=2, max_size=3)),
        'pad': st.tuples(st.sampled_from([1, 1, 2, 2, 3, 5, 17, 63, 64, 64]), st.sampled_from([-1, 0, 1]),
                         st.integers(0, 255)),
    }
    if history:
        # histories: the set of connected clients changes while transactions are running. Per client and query
        # an operation BEFORE the query (reopen = close the SDP channel and open a new one on the same link,
        # rejoin = drop the ACL link, connect again, new sdp.Client), a time limit after which the query is
        # abandoned (task cancelled, the next query uses the same channel), and what the client does after its
        # last query (close the SDP channel / drop the link) while the others go on.
        pre = st.one_of(st.none(), st.none(), st.tuples(st.sampled_from(['reopen', 'reopen', 'rejoin']),
                                                        st.sampled_from([0, 0, 1, 5])))
        # (abandon: the number of response round trips after which the caller gives up; made milliseconds below)
        give_up = st.one_of(st.none(), st.none(), st.none(), st.sampled_from([0, 1, 1, 2, 3, 5, 8, 13, 30]))
        hist = st.fixed_dictionaries(
            {
                'pre': st.tuples(pre, pre, pre, pre),
                'abandon': st.tuples(give_up, give_up, give_up, give_up),
                'leave': st.one_of(st.none(), st.tuples(st.sampled_from(['close', 'drop']),
                                                        st.sampled_from([0, 1, 2, 5, 9, 14, 20, 33, 60])),
                                   st.tuples(st.sampled_from(['close', 'drop']),
                                             st.sampled_from([0, 1, 2, 5, 9, 14, 20, 33, 60]))),
            }
        )
        fields.update(
            scenario=st.just('history'),
            clients=st.one_of(st.lists(client, min_size=2, max_size=3), st.lists(client, min_size=2, max_size=2),
                              st.lists(client, min_size=1, max_size=1)),
            pad=st.tuples(st.sampled_from([5, 9, 9, 17, 17, 33]), st.sampled_from([-1, 0, 1]), st.integers(0, 255)),
            hist=st.lists(hist, min_size=3, max_size=3),
        )
    return st.fixed_dictionaries(fields)


def _present_idents(record) -> list:
    out: list = []

    def walk(d):
        if d[0] == 'u':
            out.append(d[1])
        elif d[0] == 'q':
            for c in d[1]:
                walk(c)

    for _a, v in record['attrs']:
        walk(v)
    return [i for i in out if i not in ALT_IDENTS]


def _resolve_pattern(spec, records):
    mode, rseed, picks = spec
    n = len(records)
    present = _present_idents(records[rseed % n]) if n else []
    present2 = _present_idents(records[(rseed + 1) % n]) if n else []
    generic = list(range(20)) + list(ABSENT_IDENTS)
    out = []
    for k, (p, w) in enumerate(picks):
        if mode == 'random' or not present:
            ident = generic[p % len(generic)]
        elif mode == 'split' and present2 and k % 2 == 1:
            ident = present2[p % len(present2)]
        else:
            ident = present[p % len(present)]
        out.append([ident, uuid_width(ident, w)])
    if mode == 'some_absent':
        k = picks[0][0] % len(out)
        ident = ABSENT_IDENTS[picks[0][0] % len(ABSENT_IDENTS)]
        out[k] = [ident, uuid_width(ident, picks[0][1])]
    return out


def _resolve_ids(spec, records, rec):
    if spec == 'all':
        return [[0, 0xFFFF]]
    pool = sorted({a for r in ([rec] if rec else records) for a, _v in r['attrs']} | {0, 1, 0x1234, 0xFFFF})
    spans = []
    for p, kind in spec:
        i = p % len(pool)
        a = pool[i]
        if kind <= 1:
            spans.append((a, a))
        elif kind == 2:
            spans.append((a, pool[min(i + 1 + p % 3, len(pool) - 1)]))
        else:
            spans.append((max(0, a - (p % 5)), min(0xFFFF, a + (p % 7))))
    spans.sort()
    out, last = [], -1
    for lo, hi in spans:
        if lo <= last:
            continue
        out.append(lo if lo == hi else [lo, hi])
        last = hi
    return out


def sdp_finalize(drawn) -> dict:
    """Drawn values -> explicit plain-data case (records, per-client MTU and queries)."""
    records, seen = [], set()
    many = drawn.get('scenario') == 'many_matches'
    history = drawn.get('scenario') == 'history'
    seed = drawn['pad'][2]
    common = drawn['common']
    drawn_records = list(drawn['records'])
    if history:
        # at least one record, and one UUID that client 0's first (long, continued) answer can be asked by
        common = common or (seed % 20, (2, 4, 16)[seed % 3])
        if not drawn_records:
            drawn_records.append((0x20000, []))
    if many:
        # 10..12 records that all contain one UUID, a small client MTU: the handle list itself
        # needs continuation responses
        common = common or (seed % 20, (2, 4, 16)[seed % 3])
        for k in range(12):
            if len(drawn_records) < 10 + seed % 3:
                drawn_records.append((0x20000 + k, []))
    for handle, attrs in drawn_records[:12]:
        if handle in seen:
            continue
        seen.add(handle)
        ids, alist = set(), []
        for a, v in attrs:
            if a in ids:
                continue
            ids.add(a)
            alist.append([a, ['i', handle, 4] if a == 0 else normalize(v)])
        if common is not None and (many or history or 1 not in ids):
            ident, w = common
            alist = [e for e in alist if e[0] != 1]
            alist.append([1, ['q', [['u', ident, uuid_width(ident, w)]]]])
        records.append({'handle': handle, 'attrs': alist})
    clients = []
    for c in drawn['clients']:
        queries = []
        for q in c['queries']:
            if q[0] == 'ss':
                queries.append(['ss', _resolve_pattern(q[1], records)])
            elif q[0] == 'ga':
                if records and q[1] < 12:
                    rec = records[q[1] % len(records)]
                    queries.append(['ga', rec['handle'], _resolve_ids(q[2], records, rec)])
                else:
                    queries.append(['ga', 0x00424242, _resolve_ids(q[2], records, None)])
            else:
                queries.append(['sa', _resolve_pattern(q[1], records), _resolve_ids(q[2], records, None)])
        clients.append({'mtu': c['mtu'], 'queries': queries, 'gaps': list(c['gaps']), 'delays': list(c['delays']),
                        'join': c.get('join') if clients else None})
    if many:
        c0 = clients[0]
        c0['mtu'] = 48 + seed % 11
        if len(clients) > 1:
            # somebody opens its SDP channel while client 0 is between two PDUs of its continued answer
            c0['delays'] = [(1, 3, 7)[seed % 3]]
            clients[1]['join'] = (2, 5, 9, 14, 20, 33, 47)[seed % 7]
        pattern = [[common[0], uuid_width(common[0], (2, 4, 16)[(seed >> 2) % 3])]]
        first = ['ss', pattern] if seed % 4 else ['sa', pattern, [[0, 0xFFFF]]]
        c0['queries'] = [first] + c0['queries'][: 3]
    if history:
        # client 0 starts with an answer that needs several responses over a slow HCI, so that the others'
        # closes / reopens / link drops fall between two of its PDUs
        c0 = clients[0]
        c0['mtu'] = 48 + (seed * 7) % 200
        d0 = (1, 3, 7)[seed % 3]
        c0['delays'] = [d0]
        c0['join'] = None
        c0['gaps'] = []
        pattern = [[common[0], uuid_width(common[0], (2, 4, 16)[(seed >> 2) % 3])]]
        first = ['ga', records[seed % len(records)]['handle'], [[0, 0xFFFF]]] if seed % 3 == 0 else \
            ['sa', pattern, [[0, 0xFFFF]]]
        c0['queries'] = [first] + c0['queries'][: 3]
        for i, (c, h) in enumerate(zip(clients, drawn['hist'])):
            n = len(c['queries'])
            pre = [list(p) if p else None for p in h['pre'][:n]]
            # everybody's traffic takes (virtual) time, so that "after r round trips" is a point inside a query
            if not any(c['delays']):
                c['delays'] = [1]
            d = max(c['delays'])
            abandon = [None if r is None else (2 * r + 1) * d for r in h['abandon'][:n]]
            if i == 0 and abandon[0] is None and seed % 3 == 1:
                abandon[0] = (2 * (1 + seed % 7) + 1) * d  # the long answer itself is given up half-way
            if i:
                # the others act 1..3 of client 0's response round trips apart: inside its continued answer
                c['gaps'] = [(1 + g % 3) * 2 * d0 for g in (c['gaps'] or [1])]
                if c.get('join') is not None:
                    c['join'] = (1 + c['join'] % 4) * 2 * d0
            if any(pre):
                c['pre'] = pre
            if any(a is not None for a in abandon):
                c['abandon'] = abandon
            if h['leave']:
                c['leave'] = [h['leave'][0], h['leave'][1] if i == 0 else (h['leave'][1] % 4) * 2 * d0]
    case = {'kind': 'sdp', 'records': records, 'server_mtu': drawn['server_mtu'],
            'server_delays': list(drawn['server_delays']), 'clients': clients}
    _cap_mtus(case)
    _pad(case, drawn['pad'])
    _cap_mtus(case)
    # the server's MTU (what clients may send) is never below the largest request of the case
    case['server_mtu'] = max([case['server_mtu']] + [_request_size(q) for c in clients for q in c['queries']])
    return case


def sdp_handles_strategy():
    """Record COUNTS: so many records match that the handle list of a service search itself needs 1..64 responses
    (the random record sets stop at 12 records = 2 responses), counts at k * (handles per response) + {-1, 0, 1}."""
    return st.fixed_dictionaries(
        {
            'mtu': st.sampled_from([48, 48, 49, 51, 52, 55, 59, 63, 100]),
            'k': st.sampled_from([1, 2, 3, 3, 4, 7, 20, 63, 64, 64]),
            'delta': st.sampled_from([-1, 0, 0, 1]),
            'other': st.integers(0, 3),
            'ident': st.integers(0, 19),
            'widths': st.tuples(st.sampled_from([2, 4, 16]), st.sampled_from([2, 4, 16])),
            'follow': st.sampled_from(['none', 'again', 'absent', 'attributes']),
            'second': st.one_of(st.none(), st.sampled_from([48, 50, 60, 672])),
            'delays': st.lists(st.sampled_from([0, 0, 1, 3]), max_size=2),
            'join': st.sampled_from([None, None, 0, 2, 9]),
        }
    ).map(sdp_handles_finalize)


def sdp_handles_finalize(d) -> dict:
    mtu, ident = d['mtu'], d['ident']
    per = (mtu - 11) // 4
    k = min(d['k'], continuation_limit())
    count = max(0, k * per + (min(d['delta'], 0) if k == continuation_limit() else d['delta']))
    other = (ident + 7) % 20
    records = []
    for i in range(count):
        records.append({'handle': 0x30000 + len(records),
                        'attrs': [[1, ['q', [['u', ident, uuid_width(ident, d['widths'][0])]]]]]})
        if d['other'] and i % (d['other'] + 1) == 0:
            # a record in between that does not match
            records.append({'handle': 0x30000 + len(records),
                            'attrs': [[1, ['q', [['u', other, uuid_width(other, d['widths'][0])]]]]]})
    pattern = [[ident, uuid_width(ident, d['widths'][1])]]
    queries = [['ss', pattern]]
    if d['follow'] == 'again':
        queries.append(['ss', pattern])
    elif d['follow'] == 'absent':
        queries.append(['ss', pattern + [[ABSENT_IDENTS[0], 2]]])
    elif d['follow'] == 'attributes' and records:
        queries.append(['ga', records[-1]['handle'], [[0, 0xFFFF]]])
    clients = [{'mtu': mtu, 'queries': queries, 'gaps': [], 'delays': list(d['delays']), 'join': None}]
    if d['second'] is not None:
        # a second client asks the same question at the same time and gets other numbers of handles per response
        mtu2 = max(d['second'], -(-4 * count // continuation_limit()) + 12)
        clients.append({'mtu': mtu2, 'queries': [['ss', pattern]], 'gaps': [], 'delays': [], 'join': d['join']})
    case = {'kind': 'sdp', 'records': records, 'server_mtu': 672, 'server_delays': [], 'clients': clients}
    case['server_mtu'] = max([48] + [_request_size(q) for c in clients for q in c['queries']])
    return case


def _request_size(q) -> int:
    def pattern(p):
        return 2 + sum(1 + w for _i, w in p)

    def idlist(ids):
        return 3 + sum(5 if isinstance(e, list) else 3 for e in ids)

    if q[0] == 'ss':
        return 5 + pattern(q[1]) + 2 + 1
    if q[0] == 'ga':
        return 5 + 4 + 2 + idlist(q[2]) + 1
    return 5 + pattern(q[1]) + 2 + idlist(q[2]) + 1


def _cap_mtus(case) -> None:
    """By construction no answer needs more than SDP_CONTINUATION_WATCHDOG responses."""
    limit = continuation_limit()
    for c in case['clients']:
        for q in c['queries']:
            kind, _exp, size = model_answer(case['records'], q)
            if kind == 'ss':
                continue  # 12 handles always fit in 64 responses
            need = -(-size // limit) + 9
            if need > c['mtu']:
                c['mtu'] = min(65535, need)


def _pad(case, pad) -> None:
    """Grow one selected attribute so that one answer is k*capacity+delta bytes long."""
    k, delta, seed = pad
    limit = continuation_limit()
    k = min(k, limit)
    c = case['clients'][0]
    cap = c['mtu'] - 9
    budget = 131_100 if c['mtu'] >= 65532 else 70_000  # keeps one case in the tens of milliseconds
    if cap * k > budget:
        k = max(1, budget // cap)
    if k == limit:
        delta = min(delta, 0)
    target = k * cap + delta
    for q in c['queries']:
        kind, exp, size = model_answer(case['records'], q)
        if kind == 'ss' or not exp or size >= target:
            continue
        # the first selected attribute of the first contributing record is grown in place
        if kind == 'ga':
            rec = next(r for r in case['records'] if r['handle'] == q[1])
        else:
            rec = next(r for r in case['records'] if model_match(r, q[1]) and model_attributes(r, q[2]))
        attr_id = model_attributes(rec, q[2])[0][0]
        entry = next(e for e in rec['attrs'] if e[0] == attr_id)
        old = entry[1]
        n = target - size
        for _ in range(6):
            entry[1] = ['q', [old, ['t', max(0, n), seed]]]
            got = model_answer(case['records'], q)[2]
            if got == target:
                break
            n += target - got
        if model_answer(case['records'], q)[2] > target and k == limit:
            entry[1] = ['q', [old, ['t', max(0, n - 4), seed]]]
        case['padded'] = [0, c['queries'].index(q)]
        return


_LIMIT = None


def continuation_limit() -> int:
    global _LIMIT
    if _LIMIT is None:
        from bumble import sdp

        _LIMIT = int(sdp.SDP_CONTINUATION_WATCHDOG)
        if not 1 <= _LIMIT <= 4096:
            raise HarnessError(f'unexpected SDP_CONTINUATION_WATCHDOG {_LIMIT}')
    return _LIMIT


# -- one SDP case --------------------------------------------------------------------
class _Results(list):
    loop_errors: list = []


def run_sdp_case(ctx, case) -> None:
    from bumble import sdp
    from bumble.sdp import ServiceAttribute

    records = case['records']
    clients = case['clients']
    if not clients:
        ctx.case(('sdp', 'empty'), False, {'sdp:no_client'})
        return
    n = len(clients)
    multi = 'multi' if n > 1 else 'single'
    loop = vloop.new_loop()
    loop.max_iterations = 3_000_000
    results: list = _Results([None] * len(c['queries']) for c in clients)
    state: dict = {'phase': 'setup', 'max_pdu_over': 0}

    def fail(sig, what):
        ctx.fail(sig, what, case)

    hist_labels: set = set()
    rx = [0] * n  # responses received for the current query of client i
    need_now = [0] * n  # responses the model says the current query of client i needs (0 = no query running)

    def others_mid_continuation(i) -> bool:
        return any(k != i and 1 <= rx[k] < need_now[k] for k in range(n))

    async def main():
        from bumble.core import PhysicalTransport

        delays = [list(case.get('server_delays') or [])] + [list(c.get('delays') or []) for c in clients]
        w = world.World(n + 1, classic=True, delays=[d or [0] for d in delays], geometry=ACL_GEOMETRY)
        await w.power_on()
        server_dev = w[0].device
        server_dev.l2cap_channel_manager.servers[sdp.SDP_PSM].spec.mtu = int(case['server_mtu'])
        server_dev.sdp_service_records = {
            r['handle']: [ServiceAttribute(a, build_de(v)) for a, v in r['attrs']] for r in records
        }
        sdp_clients = []
        conns = []
        link_lock = asyncio.Lock()  # (simultaneous ACL connection set-up is C06's subject, not SDP's)

        async def open_channel(client, mtu, i):
            await client.connect()
            # observe response PDU sizes (noted, not asserted)
            inner = client.channel.sink

            def sink(pdu, inner=inner, mtu=mtu, i=i):
                if len(pdu) > mtu:
                    state['max_pdu_over'] = max(state['max_pdu_over'], len(pdu) - mtu)
                rx[i] += 1
                inner(pdu)

            client.channel.sink = sink

        for i, c in enumerate(clients):
            conn, _ = await w.connect_classic(i + 1, 0)
            conns.append(conn)
            client = sdp.Client(conn, mtu=int(c['mtu']))
            sdp_clients.append(client)
            if c.get('join') is None:
                await open_channel(client, int(c['mtu']), i)
        state['phase'] = 'queries'

        async def history_op(i, op):
            """reopen: new SDP channel on the same link; rejoin: new ACL link and new sdp.Client."""
            name, gap = op[0], op[1]
            mid = others_mid_continuation(i)
            if name == 'reopen':
                hist_labels.add('sdp:reopen')
                if mid:
                    hist_labels.add('sdp:peer_reopened_mid_continuation')
                await sdp_clients[i].disconnect()
                if gap:
                    await asyncio.sleep(gap * 0.001)
            else:
                hist_labels.add('sdp:rejoin')
                if mid:
                    hist_labels.add('sdp:peer_left_mid_continuation')
                await conns[i].disconnect()
                if gap:
                    await asyncio.sleep(gap * 0.001)
                async with link_lock:
                    conns[i] = await w[i + 1].device.connect(
                        w[0].controller.public_address, transport=PhysicalTransport.BR_EDR
                    )
                sdp_clients[i] = sdp.Client(conns[i], mtu=int(clients[i]['mtu']))
            await open_channel(sdp_clients[i], int(clients[i]['mtu']), i)

        async def one_query(client, q):
            if q[0] == 'ss':
                r = await client.search_services([build_uuid(i_, w_) for i_, w_ in q[1]])
                return ('ok', list(r))
            if q[0] == 'ga':
                r = await client.get_attributes(q[1], [tuple(e) if isinstance(e, list) else e for e in q[2]])
                return ('ok', [[a.id, canon_de(a.value)] for a in r])
            r = await client.search_attributes(
                [build_uuid(i_, w_) for i_, w_ in q[1]],
                [tuple(e) if isinstance(e, list) else e for e in q[2]],
            )
            return ('ok', [[[a.id, canon_de(a.value)] for a in lst] for lst in r])

        async def one_client(i):
            gaps = clients[i].get('gaps') or []
            pre = clients[i].get('pre') or []
            abandon = clients[i].get('abandon') or []
            if clients[i].get('join') is not None:
                # a late comer: opens its SDP channel while the others are querying
                await asyncio.sleep(clients[i]['join'] * 0.001)
                try:
                    await open_channel(sdp_clients[i], int(clients[i]['mtu']), i)
                except asyncio.CancelledError:
                    raise
                except Exception as e:  # noqa: BLE001
                    for j in range(len(clients[i]['queries'])):
                        results[i][j] = ('exc', type(e).__name__, 'connect: ' + str(e)[:90])
                    return
            for j, q in enumerate(clients[i]['queries']):
                if gaps:
                    g = gaps[j % len(gaps)]
                    if g:
                        await asyncio.sleep(g * 0.001)
                if j < len(pre) and pre[j]:
                    try:
                        await history_op(i, pre[j])
                    except asyncio.CancelledError:
                        raise
                    except Exception as e:  # noqa: BLE001 - coming back must work
                        for j2 in range(j, len(clients[i]['queries'])):
                            results[i][j2] = ('exc', type(e).__name__, f'{pre[j][0]}: ' + str(e)[:90])
                        return
                    if j and results[i][j - 1] and results[i][j - 1][0] == 'abandoned':
                        hist_labels.add('sdp:reopen_after_abandoned')
                limit = abandon[j] if j < len(abandon) else None
                kind_, _exp, size_ = model_answer(records, q)
                rx[i], need_now[i] = 0, responses_needed(kind_, size_, clients[i]['mtu'])
                try:
                    if limit is None:
                        results[i][j] = await one_query(sdp_clients[i], q)
                    else:
                        task = asyncio.ensure_future(one_query(sdp_clients[i], q))
                        done, _pending = await asyncio.wait([task], timeout=limit * 0.001)
                        if done:
                            results[i][j] = task.result()
                        else:
                            # the caller gives up (as asyncio.wait_for / a cancelled task would)
                            hist_labels.add('sdp:abandoned_mid_continuation' if 1 <= rx[i] < need_now[i]
                                            else 'sdp:abandoned')
                            task.cancel()
                            try:
                                await task
                            except asyncio.CancelledError:
                                pass
                            except Exception:  # noqa: BLE001 - the abandoned query's own fate is not judged
                                pass
                            results[i][j] = ('abandoned',)
                except asyncio.CancelledError:
                    raise
                except Exception as e:  # noqa: BLE001 - judged against the model below
                    results[i][j] = ('exc', type(e).__name__, str(e)[:100])
                finally:
                    need_now[i] = 0
                if j and results[i][j - 1] and results[i][j - 1][0] == 'abandoned' and not (j < len(pre) and pre[j]):
                    hist_labels.add('sdp:query_after_abandoned_same_channel')
            leave = clients[i].get('leave')
            if leave:
                if leave[1]:
                    await asyncio.sleep(leave[1] * 0.001)
                hist_labels.add(f'sdp:leave_{leave[0]}')
                if others_mid_continuation(i):
                    hist_labels.add('sdp:peer_left_mid_continuation')
                try:
                    if leave[0] == 'close':
                        await sdp_clients[i].disconnect()
                    else:
                        await conns[i].disconnect()
                except asyncio.CancelledError:
                    raise
                except Exception:  # noqa: BLE001 - leaving is not a transaction; the others' answers are judged
                    hist_labels.add('sdp:leave_raised')

        await asyncio.gather(*[one_client(i) for i in range(n)])
        state['phase'] = 'done'

    outcome = 'done'
    try:
        try:
            loop.complete(main(), horizon=SDP_HORIZON)
        except vloop.Stalled:
            outcome = 'stalled'
        except vloop.HorizonExceeded:
            outcome = 'horizon'
        except vloop.BudgetExceeded:
            outcome = 'budget'
        labels = {f'sdp:clients:{n}'} | hist_labels
        if any(c.get('join') is not None for c in clients):
            labels.add('sdp:late_joiner')
        if any(c.get('pre') or c.get('abandon') or c.get('leave') for c in clients):
            labels.add('sdp:history')
        nontrivial = n >= 2 or bool(hist_labels)
        results.loop_errors = list(loop.errors)
        if state['phase'] == 'setup':
            if outcome == 'budget':
                labels.add('sdp:iteration_budget_hit')
            else:
                fail(f'sdp/setup/{outcome}', f'connecting {n} SDP client(s) did not complete: {outcome}')
            ctx.case(('sdp', case), False, labels)
            return
        if state['max_pdu_over']:
            labels.add('sdp:pdu_exceeds_mtu')
        failed = False
        for i, c in enumerate(clients):
            for j, q in enumerate(c['queries']):
                kind, exp, size = model_answer(records, q)
                need = responses_needed(kind, size, c['mtu'])
                labels.add(f'sdp:{kind}')
                if need >= 2:
                    labels.add('sdp:continuation')
                    labels.add(f'sdp:{kind}_continuation')
                    nontrivial = True
                if need >= continuation_limit():
                    labels.add('sdp:at_continuation_limit')
                if kind == 'ss':
                    per = (c['mtu'] - 11) // 4
                    if need >= 3:
                        labels.add('sdp:ss_3plus_responses')
                    if need >= continuation_limit():
                        labels.add('sdp:ss_at_continuation_limit')
                    if size // 4 >= per - 1 and (size // 4) % per in (0, 1, per - 1):
                        labels.add('sdp:ss_handles_at_capacity_multiple')
                    if len(records) > 12:
                        labels.add('sdp:more_than_12_records')
                if kind != 'ss' and size and need >= 1 and size % (c['mtu'] - 9) in (0, 1, c['mtu'] - 10):
                    labels.add('sdp:size_at_capacity_multiple')
                if kind in ('ss', 'sa'):
                    if len(q[1]) >= 2:
                        labels.add('sdp:multi_uuid_pattern')
                        nontrivial = True
                    have_all = [model_match(r, q[1]) for r in records]
                    have_some = [bool(record_uuids(r) & {uuid128_be(x) for x, _ in q[1]}) for r in records]
                    if any(s and not a for s, a in zip(have_some, have_all)):
                        labels.add('sdp:record_with_some_but_not_all_uuids')
                    if any(have_all):
                        labels.add('sdp:pattern_matches')
                if failed:
                    continue
                failed = _judge_sdp(ctx, fail, multi, outcome, i, j, q, kind, exp, results, clients, records)
        if outcome == 'budget':
            labels.add('sdp:iteration_budget_hit')
        ctx.case(('sdp', case), nontrivial, labels,
                 sample={'sdp': {'records': len(records), 'mtus': [c['mtu'] for c in clients],
                                 'queries': [[q[0] for q in c['queries']] for c in clients]}})
    finally:
        loop.shutdown()


def _judge_sdp(ctx, fail, multi, outcome, i, j, q, kind, exp, results, clients, records) -> bool:
    """Compares one client's result with the model; returns True when a failure was recorded."""
    name = {'ss': 'search_services', 'ga': 'get_attributes', 'sa': 'search_attributes'}[kind]
    r = results[i][j]
    who = f'client {i} query {j} ({name})'
    if r is None:
        if outcome == 'budget':
            return False
        site, err = _loop_error_site(results)
        what = f'{who}: never completed ({outcome}): the response did not arrive' + (f'; {err}' if err else '')
        if site and site.split(':')[0] in ('controller.py', 'link.py', 'host.py', 'hci.py'):
            # the carrier (virtual controller / HCI) lost the PDU, not SDP
            fail(f'sdp/no_answer/carrier/{site}', what)
        else:
            fail(f'sdp/no_answer/{multi}', what)
        return True
    if r[0] == 'abandoned':
        return False  # the caller gave up on this one; the transactions after it are judged
    if r[0] == 'exc' and r[2].startswith(('reopen: ', 'rejoin: ')):
        op = r[2].split(':')[0]
        fail(f'sdp/{op}_failed/{r[1]}/{multi}',
             f'{who}: the client could not come back ({op}) before this query: {r[1]}({r[2]})')
        return True
    if r[0] == 'exc':
        if kind == 'ga' and exp is None:
            return False  # unknown handle: an error is the answer
        fail(f'sdp/exception/{r[1]}/{multi}', f'{who}: raised {r[1]}({r[2]})')
        return True
    got = r[1]

    def other_clients_answer():
        # does the result equal what ANOTHER client asked for? (diagnosis only)
        for i2, c2 in enumerate(clients):
            for q2 in c2['queries']:
                if i2 != i and q2 != q and q2[0] == kind:
                    e2 = model_answer(records, q2)[1]
                    if e2 and _same(kind, e2, got):
                        return True
        return False

    if kind == 'ss':
        if sorted(got) == sorted(exp):
            return False
        extra = sorted(set(got) - set(exp))
        missing = sorted(set(exp) - set(got))
        if len(got) != len(set(got)) and not extra and not missing:
            clause = 'duplicate_handles'
        elif extra and not missing:
            clause = 'extra_handles'
        elif missing and not extra:
            clause = 'missing_handles'
        else:
            clause = 'wrong_handles'
        fail(f'sdp/search_services/{clause}/{multi}',
             f'{who}: pattern {q[1]} returned {[hex(h) for h in got]}, the records matching EVERY UUID are '
             f'{[hex(h) for h in exp]}' + ('; equals another client\'s answer' if other_clients_answer() else ''))
        return True
    if kind == 'ga':
        want = [] if exp is None else [[a, canon(v)] for a, v in exp]
        if got == want:
            return False
        clause = 'order' if sorted(map(repr, got)) == sorted(map(repr, want)) else 'attributes'
        fail(f'sdp/get_attributes/{clause}/{multi}',
             f'{who}: handle {q[1]:#x} ids {q[2]}: got {len(got)} attribute(s) {[g[0] for g in got]}, expected '
             f'{[w[0] for w in want]} with equal values'
             + ('; equals another client\'s answer' if other_clients_answer() else ''))
        return True
    want = [[[a, canon(v)] for a, v in lst] for lst in exp]
    got = [lst for lst in got if lst]
    if sorted(map(repr, got)) == sorted(map(repr, want)):
        return False
    got_sets = sorted(repr(sorted(map(repr, lst))) for lst in got)
    want_sets = sorted(repr(sorted(map(repr, lst))) for lst in want)
    if got_sets == want_sets:
        clause = 'order'
    elif len(got) > len(want) and all(repr(x) in set(map(repr, got)) for x in want):
        clause = 'extra_records'
    elif len(got) < len(want) and all(repr(x) in set(map(repr, want)) for x in got):
        clause = 'missing_records'
    else:
        clause = 'attributes'
    fail(f'sdp/search_attributes/{clause}/{multi}',
         f'{who}: pattern {q[1]} ids {q[2]}: got {len(got)} attribute list(s), the model says {len(want)} '
         f'(records matching EVERY UUID, selected attributes in ascending id order)'
         + ('; equals another client\'s answer' if other_clients_answer() else ''))
    return True


def _loop_error_site(results):
    """(innermost bumble frame, text) of the first exception that escaped a loop callback."""
    errors = getattr(results, 'loop_errors', None) or []
    for e in errors:
        exc = e.get('exception')
        if exc is None:
            continue
        site, tb = '?', exc.__traceback__
        while tb is not None:
            fn = tb.tb_frame.f_code.co_filename
            if '/bumble/' in fn:
                site = f'{fn.split("/bumble/")[-1]}:{tb.tb_frame.f_code.co_name}'
            tb = tb.tb_next
        return site, f'a loop callback raised {exc!r} at {site}'
    return None, None


def _same(kind, exp, got) -> bool:
    try:
        if kind == 'ss':
            return sorted(got) == sorted(exp)
        if kind == 'ga':
            return got == [[a, canon(v)] for a, v in exp]
        return sorted(map(repr, got)) == sorted(map(repr, [[[a, canon(v)] for a, v in lst] for lst in exp]))
    except Exception:  # noqa: BLE001 - diagnosis only
        return False


# ===========================================================================
# Parts 2 + 3: AVDTP / AVCTP fragmentation and reassembly
# ===========================================================================
_P256 = bytes(range(256))
_P251 = bytes((i * 7 + 3) & 0xFF for i in range(251))


def payload_bytes(length: int, seed: int) -> bytes:
    """Deterministic content with period lcm(256, 251): equal-sized fragments differ."""
    if length == 0:
        return b''
    a = (_P256 * ((length + seed) // 256 + 1))[seed : seed + length]
    b = (_P251 * (length // 251 + 1))[:length]
    return (int.from_bytes(a, 'big') ^ int.from_bytes(b, 'big')).to_bytes(length, 'big')


FAULTS = ['drop', 'dup', 'label', 'type', 'truncate', 'stray_continue', 'stray_end']


def av_strategy(proto: str):
    """Cases: {'kind', 'mtu', 'msgs': [...], 'fault': None | [kind, index_seed]}"""

    def build(d):
        mtu = d['mtu']
        msgs = []
        # distinct content seeds: no two messages of a case are byte-identical
        d = dict(d, msgs=[dict(m, seed=(m['seed'] + 61 * k) & 0xFF) for k, m in enumerate(d['msgs'])])
        for m in d['msgs']:
            msgs.append(_av_message(proto, mtu, m))
        case = {'kind': proto, 'mtu': mtu, 'msgs': msgs, 'fault': None}
        if d['fault'] is not None:
            # layout: A (any), F (fragmented), B, C (one single, one fragmented)
            fkind, fidx, order = d['fault']
            a = msgs[0]
            s0 = d['msgs'][0]['seed']
            f = _av_message(proto, mtu, dict(d['msgs'][1 % len(d['msgs'])], size=('frag', d['fault_frags']), seed=(s0 + 17) & 0xFF))
            single = _av_message(proto, mtu, dict(d['msgs'][-1], size=('single', d['fault_frags']), seed=(s0 + 101) & 0xFF))
            frag = _av_message(proto, mtu, dict(d['msgs'][0], size=('frag', 1 + d['fault_frags'] % 3), seed=(s0 + 173) & 0xFF))
            case['msgs'] = [a, f] + ([single, frag] if order else [frag, single])
            case['fault'] = [fkind, fidx]
        return case

    size = st.one_of(
        st.tuples(st.just('edge'), st.integers(-3, 2)),  # around the single-packet limit
        st.tuples(st.just('k'), st.integers(1, 6), st.integers(-1, 1)),  # k full fragments +-1
        st.tuples(st.just('k'), st.sampled_from([7, 20, 100, 254, 255]), st.integers(-1, 0)),
        st.tuples(st.just('len'), st.integers(0, 3000)),
        st.tuples(st.just('len'), st.integers(0, 60)),
    )
    msg = st.fixed_dictionaries(
        {
            'label': st.integers(0, 15),
            'a': st.integers(0, 255),
            'b': st.integers(0, 0xFFFF),
            'size': size,
            'seed': st.integers(0, 255),
            'chunking': st.tuples(st.sampled_from(['max', 'max', 'random', 'random', 'min']),
                                  st.lists(st.integers(1, 1024), min_size=1, max_size=8)),
        }
    )
    return st.fixed_dictionaries(
        {
            'mtu': st.one_of(st.sampled_from([48, 48, 49, 50, 64, 100, 255, 256, 257, 672, 1024]), st.integers(48, 1024)),
            'msgs': st.lists(msg, min_size=1, max_size=3),
            'fault': st.one_of(
                st.none(),
                st.tuples(st.sampled_from(FAULTS), st.integers(0, 255), st.booleans()),
                st.tuples(st.sampled_from(FAULTS), st.integers(0, 255), st.booleans()),
            ),
            'fault_frags': st.integers(2, 5),
        }
    ).map(build)


def _av_message(proto: str, mtu: int, m) -> dict:
    """Explicit message description. AVDTP: fragment capacity MTU-3 (sender's choice); AVCTP: the
    harness sender's chunk list (start packet carries up to MTU-4 data bytes, others up to MTU-1)."""
    if proto == 'avdtp_peer':
        return _avdtp_peer_message(mtu, m)
    size = m['size']
    if proto == 'avdtp':
        frag_cap, single_max, max_len = mtu - 3, mtu - 2, 255 * (mtu - 3)
    else:
        frag_cap, single_max, max_len = mtu - 1, mtu - 3, (mtu - 4) + 254 * (mtu - 1)
    if size[0] == 'edge':
        length = max(0, single_max + size[1])
    elif size[0] == 'k':
        length = size[1] * frag_cap + size[2] if proto == 'avdtp' else (mtu - 4) + (size[1] - 1) * frag_cap + size[2]
    elif size[0] == 'frag':
        # needs exactly size[1] (>= 2) packets when filled
        k = max(2, size[1])
        length = (k - 1) * frag_cap + 2 + m['seed'] % max(1, frag_cap - 4) if proto == 'avdtp' else \
            (mtu - 4) + (k - 2) * frag_cap + 1 + m['seed'] % max(1, frag_cap - 1)
    elif size[0] == 'single':
        length = m['seed'] % (single_max + 1)
    else:
        length = size[1]
    length = max(0, min(length, max_len))
    out = {'label': m['label'], 'len': length, 'seed': m['seed']}
    if proto == 'avdtp':
        kinds = ['sec_cmd', 'sec_rsp', 'caps_rsp', 'generic']
        kind = kinds[m['a'] % 4]
        if kind == 'sec_cmd' and length < 1:
            kind = 'sec_rsp'
        if kind == 'caps_rsp' and length == 1:
            kind = 'sec_rsp'
        out['msg'] = kind
        return out
    c_r = m['a'] & 1
    ipid = 1 if (c_r == 1 and m['a'] & 0x0E == 0 and size[0] != 'frag') else 0
    if ipid:
        out['len'] = length = 0
    out['cr'], out['ipid'] = c_r, ipid
    out['pid'] = [0x110E, 0x110E, 0x0000, 0xFFFF][m['b'] & 3] if m['b'] & 4 else m['b']
    # chunk list
    mode, sizes = m['chunking']
    force_frag = size[0] == 'frag'
    if length <= single_max and not force_frag and (
        size[0] == 'single' or mode == 'max' or length == 0 or sizes[0] % 2 == 0
    ):
        out['chunks'] = None  # single packet
        return out
    chunks = []
    first_cap, rest_cap = mtu - 4, mtu - 1
    if mode == 'min' and length > 254:
        mode = 'random'
    remaining = length
    i = 0
    while True:
        cap = first_cap if not chunks else rest_cap
        if mode == 'max':
            n = min(cap, remaining)
        elif mode == 'min':
            n = min(1, remaining)
        else:
            n = min(cap, remaining, 1 + (sizes[i % len(sizes)] - 1) % cap)
        if not chunks and mode != 'max':
            n = min(n, sizes[0] % (first_cap + 1), remaining)  # a start packet may carry 0 data bytes
        # never run out of packets: the remaining bytes must fit in the remaining packet budget
        budget = 255 - len(chunks) - 1
        if remaining - n > budget * rest_cap:
            n = min(cap, remaining)
        chunks.append(n)
        remaining -= n
        i += 1
        if remaining <= 0 and len(chunks) >= 2:
            break
        if remaining <= 0:
            # one chunk only: split it so that a START/END pair exists (END carries >= 1 byte if any)
            if chunks[0] >= 1:
                chunks = [chunks[0] - 1, 1]
            else:
                chunks = None
            break
    out['chunks'] = chunks
    return out


def _avdtp_peer_message(mtu: int, m) -> dict:
    """A message as ANOTHER stack's AVDTP sender may fragment it: the start packet carries 0..MTU-3 payload bytes,
    continue/end packets 1..MTU-1, any split (Bumble's own sender always fills MTU-3 bytes per packet)."""
    first_cap, rest_cap, single_max = mtu - 3, mtu - 1, mtu - 2
    max_len = first_cap + 254 * rest_cap
    size = m['size']
    if size[0] == 'edge':
        length = max(0, single_max + size[1])
    elif size[0] == 'k':
        length = first_cap + (size[1] - 1) * rest_cap + size[2]
    elif size[0] == 'frag':
        k = max(2, size[1])
        length = first_cap + (k - 2) * rest_cap + 1 + m['seed'] % max(1, rest_cap - 1)
    elif size[0] == 'single':
        length = m['seed'] % (single_max + 1)
    else:
        length = size[1]
    length = max(0, min(length, max_len))
    kind = ['sec_cmd', 'sec_rsp', 'caps_rsp', 'generic'][m['a'] % 4]
    if kind == 'sec_cmd' and length < 1:
        kind = 'sec_rsp'
    if kind == 'caps_rsp' and length == 1:
        kind = 'sec_rsp'
    out = {'label': m['label'], 'len': length, 'seed': m['seed'], 'msg': kind}
    mode, sizes = m['chunking']
    if size[0] == 'single' or length == 0 or (length <= single_max and size[0] != 'frag'
                                              and (mode == 'max' or sizes[0] % 2 == 0)):
        out['chunks'] = None  # single packet
        return out
    if mode == 'min' and length > 254:
        mode = 'random'
    chunks, remaining, i = [], length, 0
    while remaining > 0 or len(chunks) < 2:
        cap = first_cap if not chunks else rest_cap
        if mode == 'max':
            n = min(cap, remaining)
        elif mode == 'min':
            n = min(1, remaining)
        else:
            n = min(cap, remaining, 1 + (sizes[i % len(sizes)] - 1) % cap)
        if not chunks and mode != 'max':
            # a start packet may carry no payload byte at all (one case in five)
            n = 0 if sizes[-1] % 5 == 0 else min(sizes[0] % (first_cap + 1), remaining - 1)
        if chunks:
            n = max(1, n)  # continue / end packets carry at least one byte
        budget = 255 - len(chunks) - 1  # packets left after this one
        if remaining - n > budget * rest_cap:
            n = min(cap, remaining)
        if not chunks and n >= remaining:
            n = remaining - 1  # at least a start / end pair
        chunks.append(n)
        remaining -= n
        i += 1
    out['chunks'] = chunks
    return out


# -- AVDTP ---------------------------------------------------------------------------
class StubChannel:
    """What avdtp.Protocol needs from an L2CAP channel."""

    EVENT_OPEN = 'open'
    EVENT_CLOSE = 'close'

    def __init__(self, peer_mtu: int):
        self.peer_mtu = peer_mtu
        self.mtu = peer_mtu
        self.sink = None
        self.connection = None
        self.pdus: list[bytes] = []

    def on(self, _event, _handler=None):
        return _handler

    def once(self, _event, _handler=None):
        return _handler

    def write(self, pdu) -> None:
        self.pdus.append(bytes(pdu))

    def send_pdu(self, pdu) -> None:
        self.pdus.append(bytes(pdu))


AVDTP_KINDS = {
    # kind -> (signal identifier, message type)
    'sec_cmd': (0x0B, 0),
    'sec_rsp': (0x0B, 2),
    'caps_rsp': (0x02, 2),
    'generic': (0x0D, 1),  # no registered class: carried as an opaque payload
}


def avdtp_payload(m) -> bytes:
    length, seed = m['len'], m['seed']
    if m['msg'] != 'caps_rsp':
        return payload_bytes(length, seed)
    # a list of service capabilities (category, length, bytes) of exactly `length` bytes
    out = bytearray()
    remaining, k = length, 0
    while remaining >= 2:
        n = min(255, remaining - 2)
        if remaining - 2 - n == 1:
            n -= 1
        cat = 1 + (seed + k) % 6  # never MEDIA_CODEC (7): its content is parsed further
        out += bytes([cat, n]) + payload_bytes(n, seed + k)
        remaining -= 2 + n
        k += 1
    return bytes(out)


def av_apply_fault(pdus_f: list, fault, proto: str) -> tuple[list, str]:
    """Returns (faulty PDU list replacing message F's PDUs, description)."""
    kind, seed = fault
    n = len(pdus_f)
    idx = seed % n
    out = list(pdus_f)

    def relabel(p, what):
        h = p[0]
        if what == 'label':
            h = (h & 0x0F) | ((((h >> 4) + 1 + seed % 15) & 0x0F) << 4)
        elif proto == 'avdtp':
            h = (h & 0xFC) | (((h & 3) + 1 + seed % 3) & 3)  # another message type
        else:
            h = h ^ 0x02  # the other C/R value
        return bytes([h]) + p[1:]

    if kind == 'drop':
        del out[idx]
        return out, f'fragment {idx} of {n} dropped'
    if kind == 'dup':
        out.insert(idx, out[idx])
        return out, f'fragment {idx} of {n} duplicated'
    if kind in ('label', 'type'):
        out[idx] = relabel(out[idx], kind)
        return out, f'fragment {idx} of {n} with a wrong ' + ('transaction label' if kind == 'label' else 'message type / C/R')
    if kind == 'truncate':
        keep = 1 + seed % (n - 1)
        return out[:keep], f'message abandoned after {keep} of {n} fragments (next start arrives inside it)'
    if kind == 'stray_continue':
        mid = [p for p in out[1:] if (p[0] >> 2) & 3 == 2] or [bytes([(out[-1][0] & 0xF3) | 0x08]) + out[-1][1:]]
        return [mid[seed % len(mid)]], 'a stray continue packet (no start before it)'
    if kind == 'stray_end':
        return [out[-1]], 'a stray end packet (no start before it)'
    raise HarnessError(f'bad fault {fault!r}')


def av_situation(faulty: list) -> str:
    """Reference walk over the faulty PDUs: how does the broken sequence leave a receiver?"""
    in_msg, stray = False, False
    for p in faulty:
        ptype = (p[0] >> 2) & 3
        if ptype == 1:
            in_msg = True
        elif ptype == 0:
            in_msg = False
        elif not in_msg:
            stray = True
        elif ptype == 3 and (p[0] >> 4, p[0] & 3) == (faulty[0][0] >> 4, faulty[0][0] & 3):
            in_msg = False
    if in_msg:
        return 'start_inside_unfinished'
    return 'after_stray_fragment' if stray else 'after_discarded_message'


def run_avdtp_case(ctx, case) -> None:
    from bumble import avdtp

    mtu = case['mtu']
    msgs = case['msgs']
    fault = case.get('fault') if len(case['msgs']) >= 3 else None
    loop = vloop.new_loop()
    try:
        channel = StubChannel(mtu)
        protocol = avdtp.Protocol(channel)
        delivered: list = []

        def on_message(label, message):
            delivered.append((label, int(message.signal_identifier), int(message.message_type), bytes(message.payload)))

        assembler = avdtp.MessageAssembler(on_message)
        labels = {'avdtp:fault' if fault else 'avdtp:good'}
        nontrivial = False

        def fail(sig, what):
            ctx.fail(sig, what, case)

        # ---- sender side
        expected, per_msg_pdus = [], []
        ok = True
        for k, m in enumerate(msgs):
            sid, mtype = AVDTP_KINDS[m['msg']]
            payload = avdtp_payload(m)
            try:
                message = avdtp.Message.create(avdtp.SignalIdentifier(sid), avdtp.Message.MessageType(mtype), payload)
            except Exception as e:  # noqa: BLE001
                raise HarnessError(f'cannot build AVDTP message {m!r}: {e!r}')
            channel.pdus = []
            try:
                protocol.send_message(m['label'], message)
            except Exception as e:  # noqa: BLE001 - sending a message within the domain must work
                fail(f'avdtp/send/exception/{type(e).__name__}',
                     f'send_message raised {e!r} for a {len(payload)}-byte payload at peer MTU {mtu}')
                ok = False
                break
            pdus = list(channel.pdus)
            expected.append((m['label'], sid, mtype, payload))
            per_msg_pdus.append(pdus)
            npk = len(pdus)
            if npk >= 2:
                labels.add('avdtp:fragmented')
                nontrivial = True
            else:
                labels.add('avdtp:single')
            if len(payload) in (mtu - 3, mtu - 2, mtu - 1, mtu):
                labels.add('avdtp:len_at_single_limit')
            if npk >= 2 and len(payload) % (mtu - 3) in (0, 1, mtu - 4):
                labels.add('avdtp:len_at_fragment_multiple')
            if npk == 255:
                labels.add('avdtp:255_packets')
            # sender-side rules
            if not pdus:
                fail('avdtp/send/nothing_sent', f'no PDU for a {len(payload)}-byte message')
                ok = False
                break
            if any(len(p) > mtu for p in pdus):
                fail('avdtp/send/pdu_exceeds_mtu', f'a {max(map(len, pdus))}-byte PDU for peer MTU {mtu} (payload {len(payload)})')
                ok = False
                break
            if any(len(p) < 1 for p in pdus):
                fail('avdtp/send/empty_pdu', 'an empty PDU was sent')
                ok = False
                break
            types = [(p[0] >> 2) & 3 for p in pdus]
            want_types = [0] if npk == 1 else [1] + [2] * (npk - 2) + [3]
            if types != want_types:
                fail('avdtp/send/packet_sequence', f'packet types {types[:6]}... for {npk} PDUs (payload {len(payload)}, MTU {mtu})')
                ok = False
                break
            if any((p[0] >> 4, p[0] & 3) != (m['label'], mtype) for p in pdus) or len(pdus[0]) < 2 or pdus[0][1] & 0x3F != sid:
                fail('avdtp/send/header', 'transaction label / message type / signal identifier wrong in a packet header')
                ok = False
                break
            if npk >= 2 and (len(pdus[0]) < 3 or pdus[0][2] != npk):
                fail('avdtp/send/packet_count', f'start packet announces {pdus[0][2] if len(pdus[0]) > 2 else None} packets, {npk} were sent (payload {len(payload)}, MTU {mtu})')
                ok = False
                break
            data = (pdus[0][2:] if npk == 1 else pdus[0][3:]) + b''.join(p[1:] for p in pdus[1:])
            if data != payload:
                fail('avdtp/send/payload', f'concatenated fragment data differs from the payload (payload {len(payload)}, MTU {mtu})')
                ok = False
                break
        # ---- receiver side
        if ok:
            what_fault, situation = '', ''
            stream = []
            if fault and len(per_msg_pdus[1]) < 2:
                # the sender put the message meant to be broken into one packet: nothing to break
                labels.add('avdtp:fault_not_applicable')
                fault = None
            for k, pdus in enumerate(per_msg_pdus):
                if fault and k == 1:
                    faulty, what_fault = av_apply_fault(pdus, fault, 'avdtp')
                    situation = av_situation(faulty)
                    labels.add(f'avdtp:fault:{fault[0]}')
                    labels.add(f'avdtp:{situation}')
                    stream.extend(faulty)
                else:
                    stream.extend(pdus)
            if fault:
                nontrivial = True
                if len(per_msg_pdus[2]) >= 2:
                    labels.add('avdtp:fragmented_after_fault')
                else:
                    labels.add('avdtp:single_after_fault')
            if fault:
                # the good messages alone must be reassembled before the fault can be judged
                good = [p for k, pdus in enumerate(per_msg_pdus) if k != 1 for p in pdus]
                good_excs = _feed(assembler, good)
                good_expected = [expected[0]] + expected[2:]
                if delivered != good_expected:
                    _judge_av(fail, 'avdtp', good_expected, list(delivered), None, '', '', good_excs, mtu)
                    fault = None
                    stream = []
                del delivered[:]
                assembler = avdtp.MessageAssembler(on_message)
            if stream:
                excs = _feed(assembler, stream)
                _judge_av(fail, 'avdtp', expected, delivered, fault, what_fault, situation, excs, mtu)
        ctx.case(('avdtp', case), nontrivial, labels,
                 sample={'avdtp': {'mtu': mtu, 'lens': [m['len'] for m in msgs], 'fault': fault}})
    finally:
        loop.shutdown()


def _feed(assembler, pdus) -> list:
    excs = []
    for p in pdus:
        try:
            assembler.on_pdu(p)
        except Exception as e:  # noqa: BLE001 - judged by its effect on delivery
            excs.append(e)
    return excs


def _judge_av(fail, proto, expected, delivered, fault, what_fault, situation, excs, mtu) -> None:
    exc_note = f' (on_pdu raised {excs[0]!r})' if excs else ''
    if not fault:
        if delivered == expected:
            return
        if excs and len(delivered) < len(expected):
            fail(f'{proto}/good/exception/{type(excs[0]).__name__}',
                 f'on_pdu raised {excs[0]!r} on a well-formed fragment sequence; {len(expected) - len(delivered)} message(s) not delivered (MTU {mtu})')
            return
        k = next((i for i, (a, b) in enumerate(zip(delivered, expected)) if a != b), min(len(delivered), len(expected)))
        if len(delivered) < len(expected) and delivered == [e for e in expected if e in delivered]:
            fail(f'{proto}/good/lost', f'message {k} ({len(expected[k][-1])} bytes) of a well-formed sequence was not delivered (MTU {mtu}){exc_note}')
        elif len(delivered) > len(expected) and all(d in expected for d in delivered):
            fail(f'{proto}/good/duplicate', f'a message was delivered more than once (MTU {mtu})')
        else:
            fail(f'{proto}/good/corrupt', f'message {k} delivered with different header fields or bytes (MTU {mtu}){exc_note}')
        return
    required = [expected[0]] + expected[2:]
    allowed = [required, [expected[0], expected[1]] + expected[2:]]
    if delivered in allowed:
        return
    unknown = [d for d in delivered if d not in expected]
    if unknown:
        fail(f'{proto}/fault/corrupt/{situation}',
             f'{what_fault}: a message was delivered that was never sent in this form ({len(unknown[0][-1])} bytes){exc_note}')
        return
    if len(delivered) != len(set(delivered)) and len(set(expected)) == len(expected):
        fail(f'{proto}/fault/duplicate/{situation}', f'{what_fault}: a message was delivered twice{exc_note}')
        return
    missing = [k for k, e in enumerate(expected) if k != 1 and delivered.count(e) < required.count(e)]
    if missing:
        k = missing[0] if delivered[:1] != [expected[0]] else next((x for x in missing if x >= 2), missing[0])
        which = 'preceding' if k == 0 else 'following'
        fail(f'{proto}/fault/{which}_lost/{situation}',
             f'{what_fault}: the well-formed {which} message #{k} ({len(expected[k][-1])} bytes) was not delivered; '
             f'only the broken message may be discarded{exc_note}')
        return
    fail(f'{proto}/fault/order/{situation}', f'{what_fault}: messages delivered out of order{exc_note}')


def avdtp_peer_pdus(m, mtu: int) -> list:
    """The peer's AVDTP sender (AVDTP 8.4: single | start with NOSP, continue*, end), harness arithmetic only."""
    sid, mtype = AVDTP_KINDS[m['msg']]
    payload = avdtp_payload(m)
    chunks = m.get('chunks')

    def head(ptype):
        return bytes([m['label'] << 4 | ptype << 2 | mtype])

    if not chunks:
        out = [head(0) + bytes([sid]) + payload]
    else:
        if sum(chunks) != len(payload) or not 2 <= len(chunks) <= 255 or any(n < 1 for n in chunks[1:]):
            raise HarnessError(f'bad chunk list for {m!r}')
        out, off = [], 0
        for k, n in enumerate(chunks):
            data = payload[off : off + n]
            off += n
            if k == 0:
                out.append(head(1) + bytes([sid, len(chunks)]) + data)
            else:
                out.append(head(2 if k < len(chunks) - 1 else 3) + data)
    if any(len(p) > mtu for p in out):
        raise HarnessError(f'harness AVDTP sender exceeds MTU {mtu}: {max(map(len, out))}')
    return out


def run_avdtp_peer_case(ctx, case) -> None:
    from bumble import avdtp

    mtu = case['mtu']
    msgs = case['msgs']
    fault = case.get('fault') if len(msgs) >= 3 else None
    loop = vloop.new_loop()
    try:
        delivered: list = []

        def on_message(label, message):
            delivered.append((label, int(message.signal_identifier), int(message.message_type), bytes(message.payload)))

        assembler = avdtp.MessageAssembler(on_message)
        labels = {'avdtp_peer:fault' if fault else 'avdtp_peer:good'}
        nontrivial = False

        def fail(sig, what):
            ctx.fail(sig, what, case)

        expected, per_msg_pdus = [], []
        for m in msgs:
            sid, mtype = AVDTP_KINDS[m['msg']]
            pdus = avdtp_peer_pdus(m, mtu)
            per_msg_pdus.append(pdus)
            expected.append((m['label'], sid, mtype, avdtp_payload(m)))
            if len(pdus) >= 2:
                labels.add('avdtp_peer:fragmented')
                nontrivial = True
                if len(pdus[0]) == 3:
                    labels.add('avdtp_peer:start_without_payload')
                if any(len(p) == 2 for p in pdus[1:]):
                    labels.add('avdtp_peer:one_byte_fragment')
                if len(pdus[0]) < mtu or any(len(p) < mtu for p in pdus[1:-1]):
                    labels.add('avdtp_peer:short_fragments')
                if any(len(p) > mtu - 2 for p in pdus[1:]):
                    labels.add('avdtp_peer:fragment_longer_than_bumble_sends')
                if m['len'] <= mtu - 2:
                    labels.add('avdtp_peer:fragmented_though_it_fits')
                if len(pdus) == 255:
                    labels.add('avdtp_peer:255_packets')
            else:
                labels.add('avdtp_peer:single')
        if fault and len(per_msg_pdus[1]) < 2:
            labels.add('avdtp_peer:fault_not_applicable')
            fault = None
        what_fault, situation = '', ''
        stream = []
        for k, pdus in enumerate(per_msg_pdus):
            if fault and k == 1:
                faulty, what_fault = av_apply_fault(pdus, fault, 'avdtp')
                situation = av_situation(faulty)
                labels.add(f'avdtp_peer:fault:{fault[0]}')
                labels.add(f'avdtp_peer:{situation}')
                stream.extend(faulty)
            else:
                stream.extend(pdus)
        if fault:
            nontrivial = True
            labels.add('avdtp_peer:fragmented_after_fault' if len(per_msg_pdus[2]) >= 2 else 'avdtp_peer:single_after_fault')
            # the good messages alone must be reassembled before the fault can be judged
            good = [p for k, pdus in enumerate(per_msg_pdus) if k != 1 for p in pdus]
            good_excs = _feed(assembler, good)
            good_expected = [expected[0]] + expected[2:]
            if delivered != good_expected:
                _judge_av(fail, 'avdtp_peer', good_expected, list(delivered), None, '', '', good_excs, mtu)
                fault = None
                stream = []
            del delivered[:]
            assembler = avdtp.MessageAssembler(on_message)
        if stream:
            excs = _feed(assembler, stream)
            _judge_av(fail, 'avdtp_peer', expected, delivered, fault, what_fault, situation, excs, mtu)
        ctx.case(('avdtp_peer', case), nontrivial, labels,
                 sample={'avdtp_peer': {'mtu': mtu, 'lens': [m['len'] for m in msgs],
                                        'packets': [len(p) for p in per_msg_pdus], 'fault': fault}})
    finally:
        loop.shutdown()


# -- AVCTP ---------------------------------------------------------------------------
SPEC_LAYOUT = 'spec'
LEGACY_LAYOUT = 'pid_in_every_packet'


def avctp_pdus(m, mtu: int, layout: str = SPEC_LAYOUT) -> list:
    """The peer's sender, by the AVCTP specification (6.1 packet formats).

    layout 'pid_in_every_packet' (continue/end packets repeat the PID) is NOT the specification's;
    it is only used behind the known finding F19d so that the remaining oracles stay exercised."""
    pid_again = struct.pack('>H', m['pid']) if layout == LEGACY_LAYOUT else b''
    payload = payload_bytes(m['len'], m['seed'])
    low = (m['cr'] << 1) | m['ipid']
    chunks = m.get('chunks')
    if not chunks:
        return [bytes([m['label'] << 4 | 0 << 2 | low]) + struct.pack('>H', m['pid']) + payload]
    if sum(chunks) != len(payload) or len(chunks) > 255 or len(chunks) < 2:
        raise HarnessError(f'bad chunk list for {m!r}')
    out, off = [], 0
    for k, n in enumerate(chunks):
        data = payload[off : off + n]
        off += n
        if k == 0:
            p = bytes([m['label'] << 4 | 1 << 2 | low, len(chunks)]) + struct.pack('>H', m['pid']) + data
        elif k < len(chunks) - 1:
            p = bytes([m['label'] << 4 | 2 << 2 | low]) + pid_again + data
        else:
            p = bytes([m['label'] << 4 | 3 << 2 | low]) + pid_again + data
        if len(p) > mtu + len(pid_again):
            raise HarnessError(f'harness sender exceeds MTU: {len(p)} > {mtu}')
        out.append(p)
    return out


def run_avctp_case(ctx, case) -> None:
    from bumble import avctp

    mtu = case['mtu']
    msgs = case['msgs']
    fault = case.get('fault') if len(case['msgs']) >= 3 else None
    layout = case.get('layout', SPEC_LAYOUT)
    proto = 'avctp' if layout == SPEC_LAYOUT else f'avctp_{layout}'
    loop = vloop.new_loop()
    try:
        delivered: list = []

        def on_message(label, is_command, ipid, pid, payload):
            delivered.append((label, 0 if is_command else 1, 1 if ipid else 0, pid, bytes(payload)))

        assembler = avctp.MessageAssembler(on_message)
        labels = {'avctp:fault' if fault else 'avctp:good'}
        nontrivial = False

        def fail(sig, what):
            ctx.fail(sig, what, case)

        expected, per_msg_pdus = [], []
        for m in msgs:
            pdus = avctp_pdus(m, mtu, layout)
            per_msg_pdus.append(pdus)
            expected.append((m['label'], m['cr'], m['ipid'], m['pid'], payload_bytes(m['len'], m['seed'])))
            if len(pdus) >= 2:
                labels.add('avctp:fragmented')
                nontrivial = True
                # (a continue/end packet has 1 header byte in the specification's layout, 3 where the PID is repeated)
                if any(len(p) <= (2 if layout == SPEC_LAYOUT else 4) for p in pdus[1:]):
                    labels.add('avctp:tiny_fragment')
                if all(len(p) == mtu for p in pdus[:-1]):
                    labels.add('avctp:full_fragments')
                if len(pdus) == 255:
                    labels.add('avctp:255_packets')
            else:
                labels.add('avctp:single')
        if layout != SPEC_LAYOUT and 'avctp:fragmented' in labels:
            ctx.exclude('avctp: spec-conformant continue/end packets (no PID) replaced by the PID-in-every-packet '
                        'layout the implementation expects (known finding F19d)')
        what_fault, situation = '', ''
        stream = []
        for k, pdus in enumerate(per_msg_pdus):
            if fault and k == 1:
                faulty, what_fault = av_apply_fault(pdus, fault, 'avctp')
                situation = av_situation(faulty)
                labels.add(f'avctp:fault:{fault[0]}')
                labels.add(f'avctp:{situation}')
                stream.extend(faulty)
            else:
                stream.extend(pdus)
        if fault:
            nontrivial = True
            labels.add('avctp:fragmented_after_fault' if len(per_msg_pdus[2]) >= 2 else 'avctp:single_after_fault')
        if fault:
            good = [p for k, pdus in enumerate(per_msg_pdus) if k != 1 for p in pdus]
            good_excs = _feed(assembler, good)
            good_expected = [expected[0]] + expected[2:]
            if delivered != good_expected:
                _judge_av(fail, proto, good_expected, list(delivered), None, '', '', good_excs, mtu)
                fault = None
                stream = []
            del delivered[:]
            assembler = avctp.MessageAssembler(on_message)
        if stream:
            excs = _feed(assembler, stream)
            _judge_av(fail, proto, expected, delivered, fault, what_fault, situation, excs, mtu)
        ctx.case(('avctp', case), nontrivial, labels,
                 sample={'avctp': {'mtu': mtu, 'lens': [m['len'] for m in msgs],
                                   'packets': [len(p) for p in per_msg_pdus], 'fault': fault}})
    finally:
        loop.shutdown()


# ===========================================================================
# Part 4: AVDTP stream state machine
# ===========================================================================
STREAM_OPS = ['configure', 'open', 'start', 'suspend', 'close', 'abort']
# model: state -> op -> next state (absent = illegal)
STREAM_MODEL = {
    'IDLE': {'configure': 'CONFIGURED'},
    'CONFIGURED': {'open': 'OPEN', 'abort': 'IDLE'},
    'OPEN': {'start': 'STREAMING', 'close': 'IDLE', 'abort': 'IDLE'},
    'STREAMING': {'suspend': 'OPEN', 'close': 'IDLE', 'abort': 'IDLE'},
}


def stream_strategy():
    """Operation lists biased towards legal operations by a walk over the model (plain data out)."""

    def build(d):
        model, ops = 'IDLE', []
        for r, k, mode in d['ops']:
            legal = sorted(STREAM_MODEL[model])
            name = legal[k % len(legal)] if r < 60 else STREAM_OPS[k % len(STREAM_OPS)]
            ops.append([name, mode])
            if name in STREAM_MODEL[model]:
                model = STREAM_MODEL[model][name]
            elif name == 'start' and model == 'CONFIGURED':
                model = 'STREAMING'  # (generation bias only; the run decides which of the two happened)
        return {'kind': 'stream', 'create_stream': d['create_stream'], 'delays': d['delays'], 'ops': ops}

    op = st.tuples(st.integers(0, 99), st.integers(0, 11), st.sampled_from(['api', 'api', 'raw']))
    return st.fixed_dictionaries(
        {
            'create_stream': st.booleans(),
            'delays': st.lists(st.sampled_from([0, 0, 0, 1, 7]), max_size=3),
            'ops': st.lists(op, min_size=1, max_size=14),
        }
    ).map(build)


def stream_multi_strategy():
    """Histories over 1..2 streams whose INT and ACP stream end point identifiers differ (unused end points in front
    of the used ones / crossed pairing), with operations that follow each other without a pause."""

    def build(d):
        ns = d['nstreams']
        model, ops = ['IDLE'] * ns, []
        for r, k, mode, sidx, fast in d['ops']:
            s = sidx % ns
            legal = sorted(STREAM_MODEL[model[s]])
            name = legal[k % len(legal)] if r < 70 else STREAM_OPS[k % len(STREAM_OPS)]
            ops.append([name, mode, s, 1 if fast else 0])
            if name in STREAM_MODEL[model[s]]:
                model[s] = STREAM_MODEL[model[s]][name]
            elif name == 'start' and model[s] == 'CONFIGURED':
                model[s] = 'STREAMING'  # (generation bias only)
        pads = list(d['pads'])
        if ns == 1 and pads[0] == pads[1]:
            pads[d['ops'][0][1] % 2] += 1  # one stream: the two identifiers always differ
        return {'kind': 'stream', 'create_stream': d['create_stream'], 'delays': d['delays'], 'nstreams': ns,
                'pads': pads, 'cross': bool(d['cross'] and ns == 2), 'ops': ops}

    op = st.tuples(st.integers(0, 99), st.integers(0, 11), st.sampled_from(['api', 'api', 'raw']), st.integers(0, 1),
                   st.sampled_from([False, False, True]))
    return st.fixed_dictionaries(
        {
            'create_stream': st.booleans(),
            'delays': st.lists(st.sampled_from([0, 0, 0, 1, 7]), max_size=3),
            'nstreams': st.sampled_from([1, 2, 2]),
            'pads': st.tuples(st.integers(0, 2), st.integers(0, 2)),
            'cross': st.booleans(),
            'ops': st.lists(op, min_size=2, max_size=20),
        }
    ).map(build)


def _codec(source: bool):
    from bumble import a2dp, avdtp

    I = a2dp.SbcMediaCodecInformation
    if source:
        info = I(
            sampling_frequency=I.SamplingFrequency.SF_44100, channel_mode=I.ChannelMode.JOINT_STEREO,
            block_length=I.BlockLength.BL_16, subbands=I.Subbands.S_8,
            allocation_method=I.AllocationMethod.LOUDNESS, minimum_bitpool_value=2, maximum_bitpool_value=53,
        )
    else:
        info = I(
            sampling_frequency=I.SamplingFrequency.SF_48000 | I.SamplingFrequency.SF_44100,
            channel_mode=I.ChannelMode.MONO | I.ChannelMode.STEREO | I.ChannelMode.JOINT_STEREO,
            block_length=I.BlockLength.BL_4 | I.BlockLength.BL_8 | I.BlockLength.BL_12 | I.BlockLength.BL_16,
            subbands=I.Subbands.S_4 | I.Subbands.S_8,
            allocation_method=I.AllocationMethod.LOUDNESS | I.AllocationMethod.SNR,
            minimum_bitpool_value=2, maximum_bitpool_value=53,
        )
    return avdtp.MediaCodecCapabilities(
        media_type=avdtp.MediaType.AUDIO, media_codec_type=a2dp.CodecType.SBC, media_codec_information=info
    )


def run_stream_case(ctx, case) -> None:
    """One history. Optional keys (absent in cases of the first build): 'pads' = [k, m]: k unused source endpoints
    are registered on the initiator and m unused sink endpoints on the acceptor BEFORE the ones the streams
    use, so that the INT and ACP stream end point identifiers differ; 'nstreams' = 2: two streams between the
    two devices (operations carry the stream index as third element), 'cross': stream 0 uses the acceptor's
    second sink and stream 1 its first; a truthy fourth element of an operation = the next operation is issued as
    soon as this call returns (no pause; the sink is compared at the next pause)."""
    from bumble import avdtp

    ops = [list(o) for o in case['ops']]
    ns = 2 if case.get('nstreams') == 2 else 1
    src_pad, snk_pad = (list(case.get('pads') or []) + [0, 0])[:2]
    cross = bool(case.get('cross')) and ns == 2
    loop = vloop.new_loop()
    loop.max_iterations = 2_000_000
    state: dict = {'phase': 'setup', 'step': -1, 'model': ['IDLE'] * ns, 'failed': False, 'stream': [None] * ns}
    labels: set = set()

    def fail(sig, what, step):
        state['failed'] = True
        ctx.fail(sig, what, dict(case, ops=ops[: step + 1]))

    def states_of(s):
        stream = state['stream'][s]
        sink = state['sink'][s] if state.get('sink') else None
        src = stream.state.name if stream is not None else 'IDLE'
        snk = sink.stream.state.name if (sink is not None and sink.stream is not None) else 'IDLE'
        return src, snk

    def states():
        return states_of(0) if ns == 1 else tuple(states_of(s) for s in range(ns))

    async def issue(name, mode, s):
        """Runs one operation from the initiating side; returns None or the exception it raised."""
        stream = state['stream'][s]
        remote = state['remote_sink'][s]
        source = state['source'][s]
        try:
            if mode == 'raw':
                if name == 'configure':
                    await remote.set_configuration(source.seid, source.configuration)
                elif name == 'open':
                    await remote.open()
                elif name == 'start':
                    await remote.start()
                elif name == 'suspend':
                    await remote.stop()
                elif name == 'close':
                    await remote.close()
                else:
                    await remote.abort()
            elif name == 'configure':
                if stream is None:
                    state['stream'][s] = await state['client'].create_stream(source, remote)
                else:
                    await stream.configure()
            elif name == 'open':
                await stream.open()
            elif name == 'start':
                await stream.start()
            elif name == 'suspend':
                await stream.stop()
            elif name == 'close':
                await stream.close()
            else:
                if hasattr(stream, 'abort'):
                    await stream.abort()
                else:
                    await stream.remote_endpoint.abort()
            return None
        except asyncio.CancelledError:
            raise
        except Exception as e:  # noqa: BLE001 - a refusal
            return e

    async def main():
        delays = list(case.get('delays') or []) or [0]
        w = world.World(2, classic=True, delays=[delays, delays], geometry=ACL_GEOMETRY)
        await w.power_on()
        listener = avdtp.Listener.for_device(w[1].device)

        def on_avdtp_connection(server):
            state['server'] = server
            for _ in range(snk_pad):
                server.add_sink(_codec(False))
            sinks = [server.add_sink(_codec(False)) for _ in range(ns)]
            state['sink'] = sinks[::-1] if cross else sinks

        listener.on('connection', on_avdtp_connection)
        conn, _ = await w.connect_classic(0, 1)
        client = await avdtp.Protocol.connect(conn)
        endpoints = list(await client.discover_remote_endpoints())
        if len(endpoints) != snk_pad + ns or state.get('sink') is None:
            raise HarnessError('stream set-up: sink endpoint not discovered')
        for _ in range(src_pad):
            client.add_source(_codec(True), None)
        sources = [client.add_source(_codec(True), None) for _ in range(ns)]
        remotes = [next(e for e in endpoints if e.seid == state['sink'][s].seid) for s in range(ns)]
        state.update(client=client, source=sources, remote_sink=remotes)
        if any(sources[s].seid != remotes[s].seid for s in range(ns)):
            labels.add('stream:seids_differ')
        if ns == 2:
            labels.add('stream:two_streams')
        if not case.get('create_stream'):
            for s in range(ns):
                stream = avdtp.Stream(client, sources[s], remotes[s])
                client.streams[sources[s].seid] = stream
                state['stream'][s] = stream
        state['phase'] = 'ops'
        for step, op in enumerate(ops):
            name, mode = op[0], op[1]
            s = (op[2] if len(op) > 2 else 0) % ns
            model = state['model'][s]
            legal = name in STREAM_MODEL[model]
            if state['stream'][s] is None and name != 'configure':
                mode = 'raw'  # no Stream object yet: only the signalling command can be issued
            if legal or (name == 'abort') or (name == 'start' and model == 'CONFIGURED'):
                mode = 'api' if state['stream'][s] is not None or name == 'configure' else 'raw'
            state.update(step=step, op=name, mode=mode)
            before = states_of(s)
            if ns == 2 and state['model'][1 - s] != 'IDLE':
                labels.add('stream:op_while_other_stream_active')
            exc = await issue(name, mode, s)
            if len(op) > 3 and op[3] and step + 1 < len(ops):
                # the next operation follows at once; the states are compared after it
                labels.add('stream:no_pause_before_next_op')
                settled = False
            else:
                await asyncio.sleep(0.2)
                settled = True
            after = states_of(s)
            state['last'] = (before, after, exc)
            on = f' (stream {s})' if ns == 2 else ''

            def others_unchanged():
                # an operation on one stream leaves the other where the state diagram has it
                if ns == 1 or not settled:
                    return True
                t = 1 - s
                mt = state['model'][t]
                if states_of(t) == (mt, mt):
                    return True
                fail(f'stream/other_stream_changed/{name}',
                     f'{name} ({mode}) on stream {s} in state {model}: stream {t}, which the state diagram has in {mt}, '
                     f'is now source {states_of(t)[0]}, sink {states_of(t)[1]}', step)
                return False

            if legal:
                labels.add(f'stream:{model}->{name}')
                want = STREAM_MODEL[model][name]
                if exc is not None:
                    fail(f'stream/legal_refused/{name}',
                         f'{name} in state {model}{on} raised {type(exc).__name__}({exc}); states source/sink = {after}', step)
                    return
                if (after if settled else after[:1]) != ((want, want) if settled else (want,)):
                    fail(f'stream/state_mismatch/{name}',
                         f'after {name} in state {model}{on}: source {after[0]}, sink {after[1]}, state diagram says {want}', step)
                    return
                state['model'][s] = want
                state['transitions'] = state.get('transitions', 0) + 1
                if not others_unchanged():
                    return
                continue
            # open cases: both behaviours accepted
            if name == 'start' and model == 'CONFIGURED':
                labels.add('stream:start_in_configured')
                if not settled:
                    await asyncio.sleep(0.2)
                    settled, after = True, states_of(s)
                if exc is None and after == ('STREAMING', 'STREAMING'):
                    state['model'][s] = 'STREAMING'
                    if not others_unchanged():
                        return
                    continue
                if exc is not None and after == (model, model):
                    if not others_unchanged():
                        return
                    continue
                fail('stream/state_mismatch/start',
                     f'start in CONFIGURED{on} (auto-open or refusal allowed): raised {exc!r}, source {after[0]}, sink {after[1]}', step)
                return
            if name == 'abort' and model == 'IDLE':
                labels.add('stream:abort_in_idle')
                if not settled:
                    await asyncio.sleep(0.2)
                    settled, after = True, states_of(s)
                if after == ('IDLE', 'IDLE'):
                    if not others_unchanged():
                        return
                    continue
                fail('stream/state_mismatch/abort', f'abort in IDLE{on} left source {after[0]}, sink {after[1]}', step)
                return
            # illegal operation
            labels.add('stream:illegal_op')
            labels.add(f'stream:illegal_{mode}')
            state['illegal'] = state.get('illegal', 0) + 1
            if exc is None:
                fail(f'stream/illegal_accepted/{name}/{mode}',
                     f'{name} ({mode}) in state {model}{on} was not refused; states source/sink {before} -> {after}', step)
                return
            if (after if settled else after[:1]) != ((model, model) if settled else (model,)):
                fail(f'stream/illegal_changed_state/{name}/{mode}',
                     f'refused {name} ({mode}) in state {model}{on} changed the states: source {after[0]}, sink {after[1]}', step)
                return
            if not others_unchanged():
                return
        state['phase'] = 'done'

    outcome = 'done'
    try:
        try:
            loop.complete(main(), horizon=STREAM_HORIZON)
        except vloop.Stalled:
            outcome = 'stalled'
        except vloop.HorizonExceeded:
            outcome = 'horizon'
        except vloop.BudgetExceeded:
            outcome = 'budget'
        if state['phase'] == 'setup':
            if outcome != 'budget':
                ctx.fail(f'stream/setup/{outcome}', f'A2DP source/sink set-up did not complete: {outcome}', case)
            ctx.case(('stream', case), False, {'stream:setup_failed'})
            return
        if state['phase'] == 'ops' and not state['failed'] and outcome != 'budget':
            step, name = state['step'], state['op']
            fail(f'stream/hang/{name}',
                 f'{name} ({state["mode"]}) in state {state["model"]} never completed ({outcome}); states source/sink = {states()}',
                 step)
        if outcome == 'budget':
            labels.add('stream:iteration_budget_hit')
        illegal = state.get('illegal', 0)
        nontrivial = illegal >= 1 or state.get('transitions', 0) >= 3
        if state.get('transitions', 0) >= 5:
            labels.add('stream:second_cycle')
        ctx.case(('stream', case), nontrivial, labels, sample={'stream': ops})
    finally:
        loop.shutdown()


# ===========================================================================
def avctp_probe(ctx) -> str:
    """Does the assembler accept a message fragmented by the specification's packet layout?

    If not (F19d) the violation is recorded once from this probe and the generated AVCTP cases use
    the layout the implementation expects, so that the search continues behind the finding."""
    probe = {'kind': 'avctp', 'mtu': 48, 'fault': None, 'layout': SPEC_LAYOUT,
             'msgs': [{'label': 3, 'len': 50, 'seed': 9, 'cr': 0, 'ipid': 0, 'pid': 0x110E, 'chunks': [44, 6]}]}
    sub = type(ctx)(ctx.prop, ctx.tier, ctx.seed)
    sub.replaying = True
    run_avctp_case(sub, probe)
    if not sub.failures:
        return SPEC_LAYOUT
    run_avctp_case(ctx, probe)
    return LEGACY_LAYOUT


def run(ctx) -> None:
    vloop.selftest()
    continuation_limit()
    layout = avctp_probe(ctx)
    ctx.extra['avctp_sender_layout'] = layout
    ctx.hyp('sdp', lambda d: run_sdp_case(ctx, sdp_finalize(d)), sdp_strategy(), max_examples=ctx.n(400, 8000))
    ctx.hyp('sdp_history', lambda d: run_sdp_case(ctx, sdp_finalize(d)), sdp_strategy(history=True),
            max_examples=ctx.n(160, 8000))
    ctx.hyp('sdp_handles', lambda c: run_sdp_case(ctx, c), sdp_handles_strategy(), max_examples=ctx.n(60, 3000))
    ctx.hyp('avdtp', lambda c: run_avdtp_case(ctx, c), av_strategy('avdtp'), max_examples=ctx.n(2000, 150000))
    ctx.hyp('avctp', lambda c: run_avctp_case(ctx, dict(c, layout=layout)), av_strategy('avctp'), max_examples=ctx.n(2000, 150000))
    ctx.hyp('avdtp_peer', lambda c: run_avdtp_peer_case(ctx, c), av_strategy('avdtp_peer'), max_examples=ctx.n(1000, 150000))
    ctx.hyp('stream', lambda c: run_stream_case(ctx, c), stream_strategy(), max_examples=ctx.n(300, 5000))
    ctx.hyp('stream_multi', lambda c: run_stream_case(ctx, c), stream_multi_strategy(), max_examples=ctx.n(150, 5000))
    for label, n in (
        ('sdp:clients:1', 20), ('sdp:clients:2', 10), ('sdp:clients:3', 10), ('sdp:late_joiner', 20),
        ('sdp:continuation', 20), ('sdp:ss_continuation', 3), ('sdp:ga_continuation', 5), ('sdp:sa_continuation', 5),
        ('sdp:size_at_capacity_multiple', 10), ('sdp:at_continuation_limit', 2),
        ('sdp:multi_uuid_pattern', 20), ('sdp:record_with_some_but_not_all_uuids', 10), ('sdp:pattern_matches', 20),
        ('avdtp:fragmented', 50), ('avdtp:len_at_single_limit', 20), ('avdtp:len_at_fragment_multiple', 20),
        ('avdtp:fragmented_after_fault', 20), ('avdtp:single_after_fault', 20),
        ('avdtp:start_inside_unfinished', 10), ('avdtp:after_stray_fragment', 10),
        ('avctp:fragmented', 50), ('avctp:tiny_fragment', 10), ('avctp:full_fragments', 10),
        ('avctp:fragmented_after_fault', 20), ('avctp:single_after_fault', 20),
        ('avctp:start_inside_unfinished', 10), ('avctp:after_stray_fragment', 10),
        ('stream:illegal_op', 20), ('stream:illegal_raw', 10), ('stream:second_cycle', 5),
    ):
        ctx.floor(label, n)
    for label, n in (
        # extensions: histories, record counts, the peer's AVDTP sender, several streams / differing SEIDs
        ('sdp:history', 40), ('sdp:reopen', 20), ('sdp:rejoin', 5), ('sdp:leave_close', 10), ('sdp:leave_drop', 10),
        ('sdp:peer_left_mid_continuation', 5), ('sdp:peer_reopened_mid_continuation', 3),
        ('sdp:abandoned_mid_continuation', 5), ('sdp:query_after_abandoned_same_channel', 8),
        ('sdp:more_than_12_records', 15), ('sdp:ss_3plus_responses', 10), ('sdp:ss_handles_at_capacity_multiple', 10),
        ('sdp:ss_at_continuation_limit', 1),
        ('avdtp_peer:fragmented', 100), ('avdtp_peer:start_without_payload', 20), ('avdtp_peer:one_byte_fragment', 20),
        ('avdtp_peer:short_fragments', 50), ('avdtp_peer:fragment_longer_than_bumble_sends', 50),
        ('avdtp_peer:fragmented_though_it_fits', 20), ('avdtp_peer:fragmented_after_fault', 20),
        ('avdtp_peer:single_after_fault', 20), ('avdtp_peer:start_inside_unfinished', 10),
        ('avdtp_peer:after_stray_fragment', 10),
        ('stream:seids_differ', 30), ('stream:two_streams', 30), ('stream:op_while_other_stream_active', 20),
        ('stream:no_pause_before_next_op', 20),
    ):
        ctx.floor(label, n)
    for f in FAULTS:
        ctx.floor(f'avdtp:fault:{f}', 5)
        ctx.floor(f'avctp:fault:{f}', 5)
        ctx.floor(f'avdtp_peer:fault:{f}', 3)
    for s, ops in STREAM_MODEL.items():
        for op in ops:
            ctx.floor(f'stream:{s}->{op}', 3)


def replay(ctx, case) -> None:
    kind = case['kind']
    if kind == 'sdp':
        run_sdp_case(ctx, case)
    elif kind == 'avdtp':
        run_avdtp_case(ctx, case)
    elif kind == 'avctp':
        run_avctp_case(ctx, case)
    elif kind == 'avdtp_peer':
        run_avdtp_peer_case(ctx, case)
    elif kind == 'stream':
        run_stream_case(ctx, case)
    else:
        raise ValueError(kind)
