"""
C20 - RFCOMM carries the exact byte stream; HFP on top negotiates consistently.

rfcomm: two full devices (vlib.world.World(2), BR/EDR link or LE link as the suite does), a real
`rfcomm.Server` on node 1 and `rfcomm.Client` on node 0, generated L2CAP MTUs, PN parameters on
each side of 1..4 data links, write programs in both directions, close / reopen / refused-open
orders, multiplexer teardown, order-preserving HCI delays.  Oracles: harness-side pseudo-random
reference streams per (link, incarnation, direction); a wire monitor with the harness's own
RFCOMM frame decoder and FCS fed from both L2CAP channels (send_pdu / sink wrappers); progress on
the virtual loop; DLC / multiplexer states of both ends.

hfp: `hfp.HfProtocol` <-> `hfp.AgProtocol` over such a data link with generated feature masks,
indicator / HF-indicator / codec / call-hold lists; negotiated views of both ends are compared
after `initiate_slc()`; an AT monitor on the gateway's DLC pairs every command line the gateway
receives with the result codes it writes (commands driven through the HF API and written raw).

extension: readers that are without a sink for a while (the DLC's queue for a late sink, up to its capacity),
the receiver-side credit ledger (DLC.rx_credits against the wire), several RFCOMM sessions one after the other
between the same devices (Client.shutdown / multiplexer disconnect / ACL loss, then set-up again), a data link
closed while the others are busy; HFP: bursts of command lines (several per chunk, lines cut by the frame size),
codec connection set-up started by either side with the active codec of both ends compared.

extension 2 (hfp): sessions in which the hands-free side sets modes (AT+CMEE=1 / 0 above all) before commands the
gateway grants or refuses from its configuration (call-hold operations and call indexes, AT+CMER values, AT+CIND with
no indicators, HF indicators); the harness can play the hands-free side itself, line by line, so that gateways whose
SLC is refused get sessions too.
"""

from __future__ import annotations

import asyncio
import hashlib

from hypothesis import strategies as st

from bumble import core, hfp, rfcomm
from vlib import vloop, world
from vlib.runner import HarnessError

PROPERTY = 'C20'
LIVELOCK_ITERATIONS = 300_000  # per case; see rfcomm/progress/livelock
LEVEL = 'exploration'
RULE = (
    'rfcomm: carrier {BR/EDR, LE} x L2CAP MTU of client and server (48..65535, dense around the 1-/2-byte '
    'length boundary and around max_frame_size+5) x 1..4 data links on distinct channels, each with '
    'max_frame_size 23..32767 and initial_credits 1..7 drawn independently for client and server x programs of '
    'write(size) / write(size) x count in both directions (sizes 1 byte .. 3 x effective frame size, dense at '
    'multiples of the frame size +-1), run, sync, close by client, by server or by both at once, reopen, refused open, early write '
    'by the server before the client has a sink x end action {none, multiplexer disconnect by client / by server '
    'with data links open, Client.shutdown} x order-preserving HCI delays per device. non-trivial = some '
    'direction of some link carries more than initial_credits x frame size bytes, or >=2 data links, or a '
    'close / reopen; distinct by the whole parameter tuple and program. '
    'hfp: HF feature masks (12 bits) x AG feature masks (14 bits): a pairwise-covering array over all 26 flags, '
    'all 64 combinations of the six flags the negotiation branches on, all/none corners, Hypothesis-sampled '
    'masks x AG indicator lists (0..8 entries, duplicates, non-contiguous value sets) x HF-indicator lists on '
    'each side x codec lists x call-hold operation subsets x PN parameters of the carrying data link; after '
    'the SLC a program of commands: every command of the harness table of HF-role commands through the HF API '
    '(HfProtocol methods / execute_command) with valid values, and raw lines AT+<known or unknown '
    'name><form><0..5 valid values> written on the DLC. non-trivial = (HF mask, AG mask) is not one of the two '
    'pairs tests/hfp_test.py uses, or the program is not empty; distinct by configuration + program. '
    'EXTENSION rfcomm: (a) readers without sink: DLC.sink = None on either side of one of 1..3 data links, then '
    '0 .. DEFAULT_RX_QUEUE_SIZE frames towards it (directed family: exactly 1, 15, 16, 17, cap-1, cap frames, one '
    'write per frame with the credits coming back in between, frame sizes 23/128/1000, both readers, both '
    'carriers), the sink-less side keeps writing (its frames carry the credits), traffic on the other links, then '
    'the sink is set again - twice in a row, the second assignment must deliver nothing - or the link is closed / '
    'the session ends; up to 4 rounds per case; (b) the receiver-side ledger is compared at every comparison point '
    'of every rfcomm case; (c) sessions one after the other: 2..3 RFCOMM sessions between the same two devices, each '
    'ended by Client.shutdown, multiplexer disconnect by client / server, or loss of the ACL link closed by client / '
    'server (data links open), the next one on a new L2CAP channel (new ACL link after a loss) with the same or a '
    'new Client object and the same or another client L2CAP MTU, the data links opened again on the same channels '
    '(directed: every ending x carrier x same/new Client x 3 frame-size layouts); (d) a data link closed while the '
    'OTHER links have frames in flight (only the closing link is drained). '
    'EXTENSION hfp: (e) bursts: 2..10 command lines (raw table, HF-role table, lines of 20..80 bytes that do not '
    'fit a small frame) written in ONE DLC.write or one write per line without waiting, frame sizes 23..64 and 1000, '
    'credits 1..7: the gateway reader gets chunks with several commands, with the tail of one and the head of the '
    'next; every raw arity / form variant of the enumeration again in bursts of 8 (thorough: 8, 3, 5) lines; (f) '
    'codec connection set-up after the SLC: started by the gateway (AgProtocol.negotiate_codec with the HF routine '
    'HfProtocol.run() answering +BCS) and by the HF (setup_codec_connection), each codec of the HF list, mixed '
    'with AT+BCS / AT+BAC in bursts; codecs the HF does not have (HF re-sends AT+BAC). '
    'EXTENSION 2 hfp (family hfp_modes + a directed family every process runs): AT sessions of 4..14 steps (single '
    'lines or bursts of 2..5) in which mode-setting commands - AT+CMEE=1 / =0 (20 % of the lines), AT+CMER=3,0,0,x, '
    'AT+CCWA, AT+CLIP, AT+BVRA, AT+NREC, AT+BIND=<list>, AT+BIA, AT+BAC, AT+BRSF=<mask> again - come at generated '
    'points between commands the gateway grants or refuses from its configuration and from the modes set so far: '
    'AT+CHLD=<n> for every call-hold operation incl. 1<idx> / 2<idx> with call indexes 1..12 against the generated '
    'operation set (any subset, all, all but one) and call list, AT+CMER=<mode>[,<keyp>[,<disp>[,<ind>]]] over the '
    '3GPP 27.007 value ranges (mode 0..3, keyp / disp / ind 0..2, 1..4 parameters), AT+CIND=? / AT+CIND? also '
    'against a gateway WITHOUT indicators (a third of the sessions), AT+CHLD=? / AT+BIND=? / AT+BIND? / AT+BIEV=i,v '
    'against the features and the HF indicators agreed last. The hands-free side is HfProtocol (initiate_slc, then '
    'lines through execute_command or raw) or the harness itself writing every line on the data link (no '
    'HfProtocol; the SLC script AT+BRSF / AT+CIND=? / AT+CIND? / AT+CMER / AT+CHLD=? line by line, in one write, or '
    'absent), which is how a gateway whose SLC is refused gets a session at all. Directed: 18 granted / refused '
    'lines under every error-report history (default, =1, =0 again, =1 again: line by line, in one write, one '
    'write per line, and with the AT+CMEE switches INSIDE a burst) x 3 gateway configurations x harness / HfProtocol. '
    'Classes are counted from a harness-side model of the INPUT (mode asked for so far x what the configuration '
    'can grant), never from the result code the gateway chose.'
)
ASSUMPTIONS = [
    '"negotiated maximum payload" is taken per direction as the value the RECEIVER advertised in its PN '
    '(credit byte excluded); the single-N1 reading of the RFCOMM spec is not imposed; a frame must also fit the '
    'L2CAP MTU the receiver configured',
    'credits are counted from the sender\'s point of view: granted when the frame carrying the credit byte is '
    'RECEIVED by the sender\'s L2CAP channel, spent when a UIH frame with a non-empty payload is handed to '
    'L2CAP; DLC.tx_credits is additionally compared with that wire ledger (a credit-only frame must not cost one)',
    'progress / hang are decided on the virtual loop: drain() and arrival must finish without the loop '
    'stalling and within 600 virtual seconds',
    'a DLC is closed only after its streams were drained and delivered (loss of data in flight at close is left open)',
    'an audio gateway configured with NO AG indicators refuses AT+CIND=? with an error by design '
    '(AgProtocol._on_cind_test); for that configuration a clean HfpProtocolError from initiate_slc() is accepted',
    'raw AT lines are syntactically valid (AT+NAME[=|?|=?][v,..] with decimal values that are valid for the '
    'command); malformed lines belong to C17',
    'HFP cases use HCI delays <= 5 ms so that the 1 s command timeout of HfProtocol is not what is tested',
    'a reader without a sink (DLC.sink = None, as every DLC is between open_dlc() and the first sink assignment) is '
    'inside the domain as long as no more frames arrive than the DLC keeps for a late sink '
    '(rfcomm.DEFAULT_RX_QUEUE_SIZE, read from the module); the harness charges ceil(size / (frame size - 1)) frames '
    'per write against that bound and skips the writes beyond it; what happens to frame cap+1 is left open; the '
    'sink goes away only when nothing is in flight towards it',
    'receiver-side ledger: DLC.rx_credits is compared with (credits advertised in its PN + credits it sent on the '
    'wire - data frames it received), the mirror image of the sender-side comparison: by the receiver\'s own books '
    'the sender must not be transmitting without a credit either; no upper bound on granted credits is imposed',
    'after the loss of the ACL link only MATCHING multiplexer states are demanded (Bumble leaves both CONNECTED); '
    'the data links that were open must be closed on both ends, as after Client.shutdown()',
    'bursts: the gateway handles the command lines of a chunk synchronously one after the other, so the k-th final '
    'result code written while a chunk is processed is attributed to the k-th command line completed by that chunk; '
    'a result code written while no command of the chunk is open counts for the last command before it; result '
    'codes the harness makes the gateway send unsolicited (+BCS:) are attributed to no command',
    '"the same negotiated codecs" includes the codec selected by a COMPLETED codec connection set-up '
    '(HfProtocol.active_codec == AgProtocol.active_codec == the codec), judged only when both sides have the '
    'codec-negotiation feature and the HF offers that codec (for other codecs the HF answers AT+BAC and '
    'AgProtocol.negotiate_codec() waits for ever by design - not generated); indicator values pushed by +CIEV after '
    'the SLC are not judged (the statement speaks of the indicators the SLC ends with)',
    'OK, ERROR and "+CME ERROR: <n>" each count as ONE final result code whatever AT+CMEE mode is in effect: the '
    'statement fixes the NUMBER of final result codes per command, not which of ERROR / +CME ERROR a refusal uses, so '
    'neither the form nor the error number is judged (a gateway that ignored AT+CMEE would pass)',
    'AT+CMEE=<n>, AT+CHLD=<n> with any operation digit 0..4 and call index, and AT+CMER with any values of the 27.007 '
    'ranges are commands a hands-free unit can emit (HFP 1.9 4.9, 4.22, 4.2 / 3GPP 27.007 8.10); omitted AT+CMER '
    '<mode> and non-decimal values are not generated',
    'a session written by the harness without HfProtocol is inside "every AT command the gateway receives": the '
    'clause speaks about the gateway; in such sessions only the AT clause (and the RFCOMM wire rules) are judged, '
    'the negotiated views are not (nothing negotiates on the hands-free end)',
]
SHRINK_KEYS = ('ops', 'commands', 'dc', 'ds', 'ag_indicators')

HORIZON = 600.0
CLIENT, SERVER = 'c', 's'
OTHER = {CLIENT: SERVER, SERVER: CLIENT}


# ---------------------------------------------------------------------------
# harness-side RFCOMM frame decoder (independent of bumble.rfcomm)
# ---------------------------------------------------------------------------
def own_fcs(data: bytes) -> int:
    """TS 07.10 FCS: CRC-8, polynomial x^8+x^2+x+1 (reflected 0xE0), init 0xFF, ones' complement."""
    crc = 0xFF
    for b in data:
        crc ^= b
        for _ in range(8):
            crc = (crc >> 1) ^ 0xE0 if crc & 1 else crc >> 1
    return 0xFF - crc


T_SABM, T_UA, T_DM, T_DISC, T_UIH = 0x2F, 0x63, 0x0F, 0x43, 0xEF


class Frame:
    __slots__ = ('dlci', 'cr', 'pf', 'type', 'length', 'credit', 'payload', 'error', 'size')


def decode_frame(pdu: bytes) -> Frame:
    f = Frame()
    f.error = None
    f.size = len(pdu)
    f.credit = None
    f.payload = b''
    f.length = 0
    if len(pdu) < 4:
        f.error = 'frame shorter than 4 bytes'
        f.dlci = f.cr = f.pf = f.type = -1
        return f
    addr, ctrl = pdu[0], pdu[1]
    f.dlci = addr >> 2
    f.cr = (addr >> 1) & 1
    f.pf = (ctrl >> 4) & 1
    f.type = ctrl & 0xEF
    if not addr & 1:
        f.error = 'address EA bit clear'
        return f
    if pdu[2] & 1:
        f.length = pdu[2] >> 1
        hdr = 3
    else:
        f.length = (pdu[2] >> 1) | (pdu[3] << 7)
        hdr = 4
    fcs_span = pdu[:2] if f.type == T_UIH else pdu[:hdr]
    if f.type == T_UIH and f.pf == 1 and f.dlci != 0:
        if len(pdu) < hdr + 2:
            f.error = 'credit byte missing'
            return f
        f.credit = pdu[hdr]
        hdr += 1
    f.payload = pdu[hdr:-1]
    if len(f.payload) != f.length:
        f.error = f'length field {f.length} but {len(f.payload)} information bytes'
        return f
    if own_fcs(fcs_span) != pdu[-1]:
        f.error = f'FCS {pdu[-1]:02X}, expected {own_fcs(fcs_span):02X}'
    return f


def decode_pn(payload: bytes):
    """(is_command, dlci, n1, k) for a PN multiplexer command on DLCI 0, else None."""
    if len(payload) < 10 or (payload[0] >> 2) != 0x20:
        return None
    v = payload[2:10]
    return bool((payload[0] >> 1) & 1), v[0] & 0x3F, v[4] | (v[5] << 8), v[7] & 7


class WireMonitor:
    """Records (kind, side, pdu) at both L2CAP channels and checks the frame/credit rules."""

    def __init__(self, l2cap_mtu: dict):
        self.events: list[tuple[str, str, bytes]] = []
        self.l2cap_mtu = l2cap_mtu  # side -> MTU that side accepts
        self.hooked: set = set()

    def hook(self, side: str, channel) -> None:
        if side in self.hooked:
            return
        self.hooked.add(side)
        events = self.events
        send_pdu = channel.send_pdu
        sink = channel.sink

        def tapped_send(pdu, _send=send_pdu):
            events.append(('tx', side, bytes(pdu)))
            return _send(pdu)

        def tapped_sink(pdu, _sink=sink):
            events.append(('rx', side, bytes(pdu)))
            return _sink(pdu)

        channel.send_pdu = tapped_send
        channel.sink = tapped_sink

    def analyse(self):
        """Returns (failure | None, stats). failure = (signature, what)."""
        n1: dict = {}  # (dlci, side) -> max frame size that side advertised
        k: dict = {}  # (dlci, side) -> initial credits that side advertised
        avail: dict = {}  # (dlci, sender side) -> credits the sender holds
        book: dict = {}  # (dlci, receiver side) -> credits that side has put on the wire and not yet seen used
        stats = {'data_frames': {}, 'credit_only': 0, 'two_byte_len': 0, 'frames': 0, 'avail': avail,
                 'max_payload': 0, 'grants': {}, 'book': book}
        for kind, side, pdu in self.events:
            f = decode_frame(pdu)
            peer = OTHER[side]
            if kind == 'tx':
                stats['frames'] += 1
                if f.error:
                    return ('rfcomm/wire/malformed_frame', f'{side} sent a frame the harness decoder rejects: '
                            f'{f.error} ({pdu[:12].hex()}..)'), stats
                if len(pdu) > self.l2cap_mtu[peer]:
                    return ('rfcomm/wire/frame_exceeds_l2cap_mtu',
                            f'{side} sent an RFCOMM frame of {len(pdu)} bytes (payload {f.length}, '
                            f'credit byte {"yes" if f.credit is not None else "no"}); the peer\'s L2CAP MTU is '
                            f'{self.l2cap_mtu[peer]}'), stats
                if f.type == T_UIH and f.dlci == 0:
                    pn = decode_pn(f.payload)
                    if pn is not None:
                        # the sender of a PN opens its own book with the credits it advertises
                        book[(pn[1], side)] = pn[3]
                        if pn[0]:
                            book.pop((pn[1], peer), None)
                elif f.type == T_UIH and f.credit is not None and (f.dlci, side) in book:
                    book[(f.dlci, side)] += f.credit
                if f.type == T_UIH and f.dlci != 0:
                    limit = n1.get((f.dlci, peer))
                    if limit is not None and f.length > limit:
                        return ('rfcomm/wire/payload_exceeds_max_frame_size',
                                f'{side} sent {f.length} payload bytes on DLCI {f.dlci}; the receiver advertised '
                                f'max_frame_size {limit} in its PN'), stats
                    if f.length > 0:
                        key = (f.dlci, side)
                        if key in avail:
                            if avail[key] <= 0:
                                return ('rfcomm/wire/data_without_credit',
                                        f'{side} sent a data frame on DLCI {f.dlci} holding {avail[key]} credits'), stats
                            avail[key] -= 1
                        stats['data_frames'][key] = stats['data_frames'].get(key, 0) + 1
                        stats['max_payload'] = max(stats['max_payload'], f.length)
                        if f.length > 127:
                            stats['two_byte_len'] += 1
                    elif f.credit is not None:
                        stats['credit_only'] += 1
            else:  # rx at `side`
                if f.error:
                    continue
                if f.type == T_UIH and f.dlci == 0:
                    pn = decode_pn(f.payload)
                    if pn is not None:
                        is_cmd, dlci, size, credits = pn
                        # the receiver of a PN learns what the peer advertised
                        n1[(dlci, peer)] = size
                        k[(dlci, peer)] = credits
                        avail[(dlci, side)] = credits
                        if is_cmd:
                            # new incarnation of the data link: forget the old responder values
                            n1.pop((dlci, side), None)
                            avail.pop((dlci, peer), None)
                elif f.type == T_UIH and f.credit is not None:
                    key = (f.dlci, side)
                    if key in avail:
                        avail[key] += f.credit
                        stats['grants'][key] = stats['grants'].get(key, 0) + 1
                if f.type == T_UIH and f.dlci != 0 and f.length > 0 and book.get((f.dlci, side), 0) > 0:
                    book[(f.dlci, side)] -= 1
        return None, stats


# ---------------------------------------------------------------------------
# reference streams
# ---------------------------------------------------------------------------
class Stream:
    """Pseudo-random reference bytes for one (link, incarnation, direction)."""

    def __init__(self, key: str):
        self.key = key.encode()
        self.written = 0
        self.received = 0
        self._cache = bytearray()

    def _extend(self, n: int) -> None:
        while len(self._cache) < n:
            block = len(self._cache) // 64
            self._cache += hashlib.blake2b(self.key + block.to_bytes(4, 'big'), digest_size=64).digest()

    def take(self, n: int) -> bytes:
        self._extend(self.written + n)
        out = bytes(self._cache[self.written : self.written + n])
        self.written += n
        return out

    def sent(self) -> bytes:
        return bytes(self._cache[: self.written])


class Collector:
    def __init__(self):
        self.fails: list[tuple[str, str]] = []
        self.labels: set = set()

    def fail(self, sig: str, what: str) -> None:
        if not any(s == sig for s, _ in self.fails):
            self.fails.append((sig, what))


def _site(exc) -> str:
    tb = exc.__traceback__
    site = '?'
    while tb is not None:
        fn = tb.tb_frame.f_code.co_filename
        if '/bumble/' in fn:
            site = f'{fn.split("/bumble/")[-1]}:{tb.tb_frame.f_code.co_name}'
        tb = tb.tb_next
    return site


# ---------------------------------------------------------------------------
# shared set-up: world, link, RFCOMM server and client multiplexer
# ---------------------------------------------------------------------------
class Rig:
    def __init__(self, case):
        self.case = case
        self.phase = 'world'
        self.client = None
        self.client_mux = None
        self.server_mux = None
        self.server = None
        self.accepted: dict[int, list] = {}  # channel -> server-side DLCs in order of acceptance
        self.on_accept = None
        mtu = case['l2cap_mtu']
        self.monitor = WireMonitor({CLIENT: int(mtu[0]), SERVER: int(mtu[1])})
        self.monitors = [self.monitor]  # one per RFCOMM session (L2CAP channel)
        self.conn_c = None
        self.conn_s = None

    async def build(self):
        case = self.case
        classic = case['carrier'] == 'classic'
        w = world.World(2, classic=classic, delays=[list(case.get('dc') or []), list(case.get('ds') or [])])
        self.world = w
        await w.power_on()
        if classic:
            conn_c, conn_s = await w.connect_classic(0, 1)
        else:
            conn_c, conn_s = await w.connect_le(0, 1)
        self.conn_c, self.conn_s = conn_c, conn_s
        self.phase = 'mux_setup'
        self.server = rfcomm.Server(w[1].device, l2cap_mtu=int(case['l2cap_mtu'][1]))

        def on_start(mux):
            self.server_mux = mux
            self.monitor.hook(SERVER, mux.l2cap_channel)

        self.server.on('start', on_start)
        self.client = rfcomm.Client(conn_c, l2cap_mtu=int(case['l2cap_mtu'][0]))
        self.client_mux = await self.client.start()
        self.monitor.hook(CLIENT, self.client_mux.l2cap_channel)

    async def new_session(self, client_mtu: int, new_acl: bool, same_client: bool) -> None:
        """Another RFCOMM session after a teardown: new L2CAP channel (on a new ACL link if asked)."""
        if new_acl:
            if self.case['carrier'] == 'classic':
                self.conn_c, self.conn_s = await self.world.connect_classic(0, 1)
            else:
                self.conn_c, self.conn_s = await self.world.connect_le(0, 1)
        self.monitor = WireMonitor({CLIENT: int(client_mtu), SERVER: self.monitors[0].l2cap_mtu[SERVER]})
        self.monitors.append(self.monitor)
        self.server_mux = None
        if not (same_client and not new_acl and self.client.l2cap_mtu == int(client_mtu)):
            self.client = rfcomm.Client(self.conn_c, l2cap_mtu=int(client_mtu))
        self.client_mux = await self.client.start()
        self.monitor.hook(CLIENT, self.client_mux.l2cap_channel)

    def listen(self, channel: int, max_frame_size: int, initial_credits: int) -> None:
        def acceptor(dlc, channel=channel):
            self.accepted.setdefault(channel, []).append(dlc)
            if self.on_accept:
                self.on_accept(channel, dlc)

        # (re)register with possibly new parameters
        self.server.acceptors.pop(channel, None)
        got = self.server.listen(acceptor, channel=channel, max_frame_size=max_frame_size,
                                 initial_credits=initial_credits)
        if got != channel:
            raise HarnessError(f'Server.listen({channel}) returned {got}')


def _run_rig(loop, rig: Rig, col: Collector, driver) -> str:
    """Build the rig and run the driver; returns outcome string."""

    async def main():
        await rig.build()
        rig.phase = 'driver'
        await driver()

    try:
        loop.complete(main(), horizon=HORIZON)
        return 'done'
    except vloop.Stalled:
        return 'stalled'
    except vloop.HorizonExceeded:
        return 'horizon'
    except vloop.BudgetExceeded:
        return 'budget'
    except HarnessError:
        raise
    except Exception as e:  # noqa: BLE001
        if rig.phase == 'world':
            raise HarnessError(f'C20 world set-up failed: {e!r}') from e
        if rig.phase == 'mux_setup':
            col.fail(f'rfcomm/mux_setup_fails/{type(e).__name__}',
                     f'Client.start() raised {e!r} at {_site(e)}')
            return 'failed'
        raise


# ---------------------------------------------------------------------------
# RFCOMM cases
# ---------------------------------------------------------------------------
class Link:
    def __init__(self, index: int, spec: dict):
        self.index = index
        self.spec = spec
        self.channel = int(spec['ch'])
        self.dlci = self.channel << 1
        self.inc = 0
        self.dlc = {CLIENT: None, SERVER: None}
        self.stream = {CLIENT: None, SERVER: None}  # by WRITER side
        self.open = False
        self.bad = None


def exec_rfcomm(case) -> Collector:
    col = Collector()
    loop = vloop.new_loop()
    loop.max_iterations = LIVELOCK_ITERATIONS
    rig = Rig(case)
    links = [Link(i, spec) for i, spec in enumerate(case['links'])]
    by_channel = {l.channel: l for l in links}
    arrived = None
    all_streams: list[Stream] = []
    state = {'op': None, 'wait': None}
    held: dict = {}  # (link index, reader side) -> frames that may still arrive while that reader has no sink
    queue_cap = int(getattr(rfcomm, 'DEFAULT_RX_QUEUE_SIZE', 32))

    def make_sink(link: Link, reader: str):
        writer = OTHER[reader]
        stream = link.stream[writer]

        def sink(data: bytes):
            data = bytes(data)
            pos = stream.received
            stream.received += len(data)
            if link.bad is None:
                expected = bytes(stream._cache[pos : min(pos + len(data), stream.written)])
                if expected != data:
                    link.bad = (writer, pos, data, expected)
            if arrived is not None:
                arrived.set()

        return sink

    def new_streams(link: Link):
        for side in (CLIENT, SERVER):
            s = Stream(f'{link.index}/{link.inc}/{side}')
            link.stream[side] = s
            all_streams.append(s)

    def on_accept(channel, dlc):
        link = by_channel.get(channel)
        if link is None:
            return
        link.dlc[SERVER] = dlc
        dlc.sink = make_sink(link, SERVER)
        early = int(link.spec.get('early') or 0)
        if early and link.inc == 1:
            col.labels.add('early_write')
            dlc.write(link.stream[SERVER].take(early))

    rig.on_accept = on_accept

    def frame_of(link: Link, writer: str) -> int:
        """Payload bytes per frame of `writer` in the current session (receiver's PN and L2CAP MTU)."""
        reader = OTHER[writer]
        return max(2, min(int(link.spec[reader][0]), rig.monitor.l2cap_mtu[reader] - 5))

    def check_streams() -> bool:
        for link in links:
            if link.bad is not None:
                writer, pos, data, expected = link.bad
                # where do the wrong bytes come from?
                probe = data[:16]
                origin = None
                if len(probe) >= 6:
                    for s in all_streams:
                        if s is not link.stream[writer] and probe in s.sent():
                            origin = s.key.decode()
                            break
                if origin is not None:
                    col.fail('rfcomm/interference',
                             f'link {link.index} ({writer}->{OTHER[writer]}) received at offset {pos} bytes that were '
                             f'written on stream {origin}')
                elif pos + len(data) > link.stream[writer].written:
                    col.fail('rfcomm/stream/more_than_written',
                             f'link {link.index} ({writer}->{OTHER[writer]}): {pos + len(data)} bytes delivered, '
                             f'{link.stream[writer].written} written')
                else:
                    own = link.stream[writer].sent()
                    where = own.find(probe) if len(probe) >= 6 else -1
                    kind = 'reordered_or_duplicated' if where >= 0 else 'corrupt'
                    col.fail(f'rfcomm/stream/{kind}',
                             f'link {link.index} ({writer}->{OTHER[writer]}): bytes at offset {pos} differ from the '
                             f'bytes written (got {data[:8].hex()}, expected {expected[:8].hex()}'
                             f'{", found at offset %d of the same stream" % where if where >= 0 else ""})')
                return False
        return True

    def pending() -> list:
        out = []
        for link in links:
            for w in (CLIENT, SERVER):
                s = link.stream[w]
                if s is not None and link.open and s.received < s.written and (link.index, OTHER[w]) not in held:
                    out.append((link, w))
        return out

    async def sync(only=None):
        for link in links:
            if not link.open or (only is not None and link is not only):
                continue
            for side in (CLIENT, SERVER):
                if link.stream[side].written and link.dlc[side] is not None:
                    state['wait'] = ('drain', link.index, side)
                    await link.dlc[side].drain()
        while [p for p in pending() if only is None or p[0] is only]:
            link, w = [p for p in pending() if only is None or p[0] is only][0]
            state['wait'] = ('arrival', link.index, w)
            arrived.clear()
            await arrived.wait()
        state['wait'] = None

    def release(link: Link, reader: str) -> None:
        """Give the reader its sink back: everything that arrived meanwhile is delivered now, once, in order."""
        if held.pop((link.index, reader), None) is None:
            return
        calls = [0]
        inner = make_sink(link, reader)

        def counting(data):
            calls[0] += 1
            inner(data)

        link.dlc[reader].sink = counting
        flushed = calls[0]
        link.dlc[reader].sink = inner  # (a second assignment must not deliver anything again)
        link.releases = getattr(link, 'releases', 0) + 1
        col.labels.add('sink_release')
        if flushed:
            col.labels.add('sink_release_delivers_queue')
        if flushed >= 16:
            col.labels.add('sink_release_16plus_frames')
        if flushed >= queue_cap:
            col.labels.add('sink_release_full_queue')
        if link.releases >= 2:
            col.labels.add('sink_released_twice_on_one_link')

    def check_ledger() -> bool:
        failure, stats = rig.monitor.analyse()
        if failure:
            col.fail(*failure)
            return False
        for link in links:
            if not link.open:
                continue
            for side in (CLIENT, SERVER):
                dlc = link.dlc[side]
                wire = stats['avail'].get((link.dlci, side))
                have = getattr(dlc, 'tx_credits', None)
                if wire is not None and have is not None and wire != have:
                    col.fail('rfcomm/credit_ledger_drift',
                             f'link {link.index}: the {side} DLC believes it holds {have} credits; initial + granted '
                             f'- data frames on the wire = {wire}')
                    return False
                # the same ledger seen from the receiver: what it advertised + what it granted on the wire
                # - data frames it received
                book = stats['book'].get((link.dlci, side))
                mine = getattr(dlc, 'rx_credits', None)
                if book is not None and mine is not None and book != mine:
                    col.fail('rfcomm/credit_ledger_drift/receiver',
                             f'link {link.index}: the {side} DLC believes its peer holds {mine} credits '
                             f'(rx_credits); initial + credits it sent - data frames it received = {book}')
                    return False
                if book is not None:
                    col.labels.add('receiver_ledger_compared')
        return True

    async def open_link(link: Link, reopen: bool) -> bool:
        spec = link.spec
        link.inc += 1
        new_streams(link)
        link.dlc = {CLIENT: None, SERVER: None}
        rig.listen(link.channel, int(spec['s'][0]), int(spec['s'][1]))
        n_before = len(rig.accepted.get(link.channel, []))
        state['wait'] = ('open', link.index)
        tag = 'reopen' if reopen else 'open'
        try:
            dlc = await rig.client_mux.open_dlc(link.channel, max_frame_size=int(spec['c'][0]),
                                                initial_credits=int(spec['c'][1]))
        except asyncio.CancelledError:
            raise
        except Exception as e:  # noqa: BLE001
            col.fail(f'rfcomm/{tag}_fails/{type(e).__name__}',
                     f'open_dlc(channel {link.channel}) raised {e!r} at {_site(e)}')
            return False
        state['wait'] = None
        link.dlc[CLIENT] = dlc
        dlc.sink = make_sink(link, CLIENT)
        link.open = True
        sdlc = link.dlc[SERVER]
        if len(rig.accepted.get(link.channel, [])) != n_before + 1 or sdlc is None:
            col.fail(f'rfcomm/state/{tag}_not_mirrored',
                     f'open_dlc(channel {link.channel}) returned but the server acceptor was called '
                     f'{len(rig.accepted.get(link.channel, [])) - n_before} times')
            return False
        ok = (
            dlc.state == rfcomm.DLC.State.CONNECTED and sdlc.state == rfcomm.DLC.State.CONNECTED
            and dlc.dlci == sdlc.dlci == link.dlci
            and rig.client_mux.dlcs.get(link.dlci) is dlc and rig.server_mux.dlcs.get(link.dlci) is sdlc
            and rig.client_mux.state == rfcomm.Multiplexer.State.CONNECTED
            and rig.server_mux.state == rfcomm.Multiplexer.State.CONNECTED
        )
        if not ok:
            col.fail(f'rfcomm/state/after_{tag}',
                     f'after open_dlc(channel {link.channel}): client DLC {dlc.state.name} dlci {dlc.dlci}, server DLC '
                     f'{sdlc.state.name} dlci {sdlc.dlci}, multiplexers {rig.client_mux.state.name}/'
                     f'{rig.server_mux.state.name}')
            return False
        return True

    CLOSED = (rfcomm.DLC.State.DISCONNECTED, rfcomm.DLC.State.RESET)

    async def driver():
        nonlocal arrived
        arrived = asyncio.Event()
        if rig.server_mux is None or rig.server_mux.state != rfcomm.Multiplexer.State.CONNECTED \
                or rig.client_mux.state != rfcomm.Multiplexer.State.CONNECTED:
            col.fail('rfcomm/state/after_mux_connect',
                     f'after Client.start(): client multiplexer {rig.client_mux.state.name}, server multiplexer '
                     f'{rig.server_mux.state.name if rig.server_mux else "never created"}')
            return
        for link in links:
            if not await open_link(link, False):
                return
        for i, op in enumerate(case['ops']):
            state['op'] = i
            kind = op[0]
            if kind in ('w', 'wn'):
                li, side, size = int(op[1]), op[2], int(op[3])
                count = int(op[4]) if kind == 'wn' else 1
                if li >= len(links) or not links[li].open or size < 1:
                    continue
                link = links[li]
                try:
                    for _ in range(count):
                        if (li, OTHER[side]) in held:
                            # the reader has no sink: stay within the frames a DLC keeps for a late sink
                            cost = -(-size // max(1, frame_of(link, side) - 1))
                            if held[(li, OTHER[side])] < cost:
                                break
                            held[(li, OTHER[side])] -= cost
                        link.dlc[side].write(link.stream[side].take(size))
                except Exception as e:  # noqa: BLE001
                    col.fail(f'rfcomm/write_raises/{type(e).__name__}',
                             f'DLC.write({size} bytes) on an open DLC raised {e!r} at {_site(e)}')
                    return
            elif kind == 'run':
                await asyncio.sleep(int(op[1]) / 1000.0)
            elif kind == 'sync':
                await sync()
                if not check_streams() or not check_ledger():
                    return
            elif kind == 'hold':
                li, reader = int(op[1]), op[2]
                if li >= len(links) or not links[li].open or (li, reader) in held:
                    continue
                link = links[li]
                # nothing of this direction is in flight when the sink goes away
                await sync(only=link)
                if not check_streams() or not check_ledger():
                    return
                col.labels.add('sink_hold')
                link.dlc[reader].sink = None
                held[(li, reader)] = queue_cap
            elif kind == 'release':
                li, reader = int(op[1]), op[2]
                if li >= len(links) or not links[li].open:
                    continue
                release(links[li], reader)
                if not check_streams():
                    return
            elif kind == 'session':
                if not await next_session(op):
                    return
            elif kind == 'close':
                li, side = int(op[1]), op[2]
                if li >= len(links) or not links[li].open:
                    continue
                link = links[li]
                for reader in (CLIENT, SERVER):
                    release(link, reader)
                if len(op) > 3 and op[3]:
                    # only this link is drained: the others may have frames in flight while it closes
                    if any(p[0] is not link for p in pending()):
                        col.labels.add('close_while_other_links_in_flight')
                    await sync(only=link)
                else:
                    await sync()
                if not check_streams() or not check_ledger():
                    return
                col.labels.add({CLIENT: 'close_by_client', SERVER: 'close_by_server'}.get(side, 'close_by_both'))
                state['wait'] = ('disconnect', li, side)
                try:
                    if side in (CLIENT, SERVER):
                        await link.dlc[side].disconnect()
                    else:
                        # both ends close at the same time
                        await asyncio.gather(link.dlc[CLIENT].disconnect(), link.dlc[SERVER].disconnect())
                        side = CLIENT
                except asyncio.CancelledError:
                    raise
                except Exception as e:  # noqa: BLE001
                    col.fail(f'rfcomm/close_fails/{type(e).__name__}', f'DLC.disconnect() raised {e!r} at {_site(e)}')
                    return
                state['wait'] = None
                await asyncio.sleep(1.0)
                link.open = False
                muxes = {CLIENT: rig.client_mux, SERVER: rig.server_mux}
                mine, theirs = link.dlc[side], link.dlc[OTHER[side]]
                if mine.state not in CLOSED or muxes[side].dlcs.get(link.dlci) is mine:
                    col.fail('rfcomm/state/closer_not_closed',
                             f'after disconnect() returned the closing DLC is {mine.state.name} '
                             f'(still in Multiplexer.dlcs: {muxes[side].dlcs.get(link.dlci) is mine})')
                    return
                if theirs.state not in CLOSED or muxes[OTHER[side]].dlcs.get(link.dlci) is theirs:
                    col.fail('rfcomm/state/dlc_close_not_mirrored',
                             f'DLC closed by the {"client" if side == CLIENT else "server"}: closing side '
                             f'{mine.state.name}, peer DLC {theirs.state.name} '
                             f'(still in the peer Multiplexer.dlcs: {muxes[OTHER[side]].dlcs.get(link.dlci) is theirs})')
                    return
            elif kind == 'reopen':
                li = int(op[1])
                if li >= len(links) or links[li].open or links[li].inc == 0:
                    continue
                col.labels.add('reopen')
                if not await open_link(links[li], True):
                    return
            elif kind == 'refused':
                channel = int(op[1])
                if channel in by_channel or channel in rig.server.acceptors:
                    continue
                col.labels.add('refused_open')
                state['wait'] = ('refused_open', channel)
                try:
                    await rig.client_mux.open_dlc(channel)
                    col.fail('rfcomm/state/open_without_listener',
                             f'open_dlc({channel}) succeeded although nothing listens on that channel')
                    return
                except asyncio.CancelledError:
                    raise
                except core.ConnectionError:
                    pass
                except Exception as e:  # noqa: BLE001
                    col.fail(f'rfcomm/refused_open_raises/{type(e).__name__}',
                             f'open_dlc on a channel without listener raised {e!r} (ConnectionError expected)')
                    return
                state['wait'] = None
                if rig.client_mux.state != rfcomm.Multiplexer.State.CONNECTED or (channel << 1) in rig.client_mux.dlcs \
                        or (channel << 1) in rig.server_mux.dlcs:
                    col.fail('rfcomm/state/after_refused_open',
                             f'after a refused open: client multiplexer {rig.client_mux.state.name}, DLC tables '
                             f'{sorted(rig.client_mux.dlcs)}/{sorted(rig.server_mux.dlcs)}')
                    return
        state['op'] = 'end'
        await teardown(case.get('end') or 'none')

    async def teardown(end: str) -> bool:
        """Drain, compare, then end the RFCOMM session as `end` says; False = a violation was recorded."""
        for link in links:
            if link.open:
                for reader in (CLIENT, SERVER):
                    release(link, reader)
        await sync()
        if not check_streams() or not check_ledger():
            return False
        if end == 'none':
            return True
        n_open = sum(1 for l in links if l.open)
        if n_open:
            col.labels.add('mux_teardown_with_open_dlcs')
        state['wait'] = ('end', end)
        try:
            if end == 'mux_disc_c':
                await rig.client_mux.disconnect()
            elif end == 'mux_disc_s':
                await rig.server_mux.disconnect()
            elif end == 'shutdown':
                await rig.client.shutdown()
            elif end == 'acl_c':
                await rig.conn_c.disconnect()
            elif end == 'acl_s':
                await rig.conn_s.disconnect()
        except asyncio.CancelledError:
            raise
        except Exception as e:  # noqa: BLE001
            col.fail(f'rfcomm/teardown_fails/{end}/{type(e).__name__}', f'{end} raised {e!r} at {_site(e)}')
            return False
        state['wait'] = None
        await asyncio.sleep(1.0)
        D = rfcomm.Multiplexer.State.DISCONNECTED
        if end in ('acl_c', 'acl_s'):
            # the link is gone under an open session: both ends must see the same thing
            col.labels.add('acl_loss_under_session')
            if rig.client_mux.state != rig.server_mux.state:
                col.fail('rfcomm/state/after_acl_disconnect',
                         f'after the ACL link was closed ({end}): client multiplexer {rig.client_mux.state.name}, '
                         f'server multiplexer {rig.server_mux.state.name}')
                return False
        elif rig.client_mux.state != D or rig.server_mux.state != D:
            col.fail('rfcomm/state/mux_disconnect_not_mirrored',
                     f'after {end}: client multiplexer {rig.client_mux.state.name}, server multiplexer '
                     f'{rig.server_mux.state.name}')
            return False
        if end in ('shutdown', 'acl_c', 'acl_s'):
            for link in links:
                if link.open:
                    a, b = link.dlc[CLIENT].state, link.dlc[SERVER].state
                    if (a in CLOSED) != (b in CLOSED) or a not in CLOSED:
                        col.fail('rfcomm/state/dlc_open_after_shutdown' if end == 'shutdown' else
                                 'rfcomm/state/dlc_open_after_acl_disconnect',
                                 f'after {end}: client DLC {a.name}, server DLC {b.name}')
                        return False
        return True

    async def next_session(op) -> bool:
        """['session', how, client L2CAP MTU, same Client object, [links to open again]]"""
        how, client_mtu, same_client = op[1], int(op[2]), bool(op[3])
        if not await teardown(how):
            return False
        for link in links:
            link.open = False
        col.labels.add(f'session_after:{how}')
        state['wait'] = ('session', how)
        try:
            await rig.new_session(client_mtu, how in ('acl_c', 'acl_s'), same_client)
        except asyncio.CancelledError:
            raise
        except Exception as e:  # noqa: BLE001
            col.fail(f'rfcomm/session_after_{how}_fails/{type(e).__name__}',
                     f'a new RFCOMM session after {how} could not be set up: {e!r} at {_site(e)}')
            return False
        state['wait'] = None
        C = rfcomm.Multiplexer.State.CONNECTED
        if rig.server_mux is None or rig.server_mux.state != C or rig.client_mux.state != C:
            col.fail('rfcomm/state/after_mux_connect',
                     f'after Client.start() (session after {how}): client multiplexer {rig.client_mux.state.name}, '
                     f'server multiplexer {rig.server_mux.state.name if rig.server_mux else "never created"}')
            return False
        for li in op[4]:
            if int(li) < len(links) and not links[int(li)].open:
                if not await open_link(links[int(li)], True):
                    return False
        return True

    try:
        outcome = _run_rig(loop, rig, col, driver)
        if outcome in ('stalled', 'horizon'):
            if rig.phase == 'world':
                raise HarnessError(f'C20 world set-up {outcome}')
            wait = state['wait']
            how = 'the loop stalled (nothing can ever complete it)' if outcome == 'stalled' else \
                f'not finished after {HORIZON} virtual seconds'
            if rig.phase == 'mux_setup':
                col.fail('rfcomm/mux_setup_hangs', f'Client.start(): {how}')
            elif wait is None:
                raise HarnessError(f'C20 driver {outcome} outside an awaited protocol operation (op {state["op"]})')
            elif wait[0] == 'drain':
                check_streams()
                check_ledger()
                col.fail('rfcomm/progress/drain_hangs',
                         f'drain() of the {wait[2]} DLC of link {wait[1]}: {how}; '
                         f'{len(links[wait[1]].dlc[wait[2]].tx_buffer)} bytes still buffered, '
                         f'tx_credits={links[wait[1]].dlc[wait[2]].tx_credits}')
            elif wait[0] == 'arrival':
                check_streams()
                check_ledger()
                s = links[wait[1]].stream[wait[2]]
                col.fail('rfcomm/progress/bytes_never_arrive',
                         f'link {wait[1]} {wait[2]}->{OTHER[wait[2]]}: drain() finished but only {s.received} of '
                         f'{s.written} bytes were delivered; {how}')
            elif wait[0] == 'open':
                col.fail('rfcomm/open_hangs' if links[wait[1]].inc <= 1 else 'rfcomm/reopen_hangs',
                         f'open_dlc(channel {links[wait[1]].channel}) (incarnation {links[wait[1]].inc}): {how}')
            elif wait[0] == 'disconnect':
                col.fail('rfcomm/close_hangs', f'DLC.disconnect() by {wait[2]}: {how}')
            elif wait[0] == 'refused_open':
                col.fail('rfcomm/refused_open_hangs', f'open_dlc on a channel without listener: {how}')
            elif wait[0] == 'end':
                col.fail(f'rfcomm/teardown_hangs/{wait[1]}', f'{wait[1]}: {how}')
            elif wait[0] == 'session':
                col.fail(f'rfcomm/session_after_{wait[1]}_hangs',
                         f'Client.start() for a new RFCOMM session after {wait[1]}: {how}')
        elif outcome == 'budget':
            # 300 000 loop iterations without reaching the end of the script (the longest well-behaved case needs
            # about 1 000): the two ends keep each other busy without virtual time advancing
            col.labels.add('iteration_budget_hit')
            col.fail('rfcomm/progress/livelock', f'{LIVELOCK_ITERATIONS} event-loop iterations spent waiting for {state.get("wait")!r}: the '
                                                 'stack keeps exchanging frames and never finishes the operation')
        # labels / statistics from the wire (all sessions)
        stats = None
        for n, monitor in enumerate(rig.monitors):
            failure, st_n = monitor.analyse()
            if failure and n < len(rig.monitors) - 1 and not col.fails:
                # frames of an earlier session (its teardown included)
                col.fail(*failure)
            if stats is None:
                stats = st_n
            else:
                for key in ('data_frames', 'grants'):
                    stats[key].update({(n,) + k: v for k, v in st_n[key].items()})
                for key in ('credit_only', 'two_byte_len', 'frames'):
                    stats[key] += st_n[key]
        col.stats = stats
        col.links = links
        col.loop_errors = list(loop.errors)
    finally:
        loop.shutdown()
    return col


def eff_frame(case, spec, writer: str) -> int:
    """Payload bytes per frame for data written by `writer` on a link (receiver's PN and L2CAP MTU)."""
    reader = OTHER[writer]
    mtu = case['l2cap_mtu'][0 if reader == CLIENT else 1]
    return max(1, min(int(spec[reader][0]), int(mtu) - 5))


def run_rfcomm_case(ctx, case, record=True) -> None:
    col = exec_rfcomm(case)
    if col.fails:
        other = dict(case, carrier='le' if case['carrier'] == 'classic' else 'classic')
        # a case that fails on one carrier and holds on the other is reported with the carrier
        clean_elsewhere = not exec_rfcomm(other).fails
        for sig, what in col.fails:
            if clean_elsewhere:
                sig = f'{sig}@{case["carrier"]}-only'
            errs = '; '.join(sorted({repr(e.get('exception')) for e in getattr(col, 'loop_errors', [])}))[:300]
            ctx.fail(sig, what + (f' [loop errors: {errs}]' if errs else ''), case)
    if not record:
        return
    labels = set(col.labels)
    labels.add(f'carrier:{case["carrier"]}')
    labels.add(f'dlcs:{len(case["links"])}')
    if any(case.get('dc') or []) or any(case.get('ds') or []):
        labels.add('delayed')
    stats = getattr(col, 'stats', None)
    ledger = False
    if stats:
        for key, n in stats['data_frames'].items():
            if stats['grants'].get(key, 0) >= 3:
                labels.add('ledger_replenished_3x')
            if n > 7 + 32:
                labels.add('ledger_wrapped')
        if stats['credit_only']:
            labels.add('credit_only_frames')
        if stats['two_byte_len']:
            labels.add('two_byte_length')
    for link in getattr(col, 'links', []):
        for w in (CLIENT, SERVER):
            spec = link.spec
            eff = eff_frame(case, spec, w)
            if eff < int(spec[OTHER[w]][0]):
                labels.add('l2cap_mtu_limits_frame')
    # transfer volume per direction (from the program, incarnation-agnostic upper bound)
    volume: dict = {}
    for op in case['ops']:
        if op[0] in ('w', 'wn') and int(op[1]) < len(case['links']):
            n = int(op[3]) * (int(op[4]) if op[0] == 'wn' else 1)
            volume[(int(op[1]), op[2])] = volume.get((int(op[1]), op[2]), 0) + n
    for (li, w), n in volume.items():
        spec = case['links'][li]
        if n > int(spec[OTHER[w]][1]) * eff_frame(case, spec, w):
            ledger = True
    if ledger:
        labels.add('beyond_initial_credits')
    if len({(li, w) for (li, w) in volume}) >= 2:
        labels.add('several_streams')
    end = case.get('end') or 'none'
    labels.add(f'end:{end}')
    nontrivial = ledger or len(case['links']) >= 2 or \
        any(op[0] in ('close', 'reopen', 'hold', 'session') for op in case['ops'])
    ctx.case(('rfcomm', case), nontrivial, labels,
             sample={'rfcomm': {k: case[k] for k in ('carrier', 'l2cap_mtu', 'links', 'end')}, 'ops': case['ops'][:8]})


# ---------------------------------------------------------------------------
# RFCOMM generator
# ---------------------------------------------------------------------------
FS = [23, 24, 31, 43, 64, 100, 126, 127, 128, 129, 255, 512, 1000, 1024, 2043, 4096, 32767]
MTUS = [48, 49, 64, 131, 132, 133, 134, 256, 672, 1005, 1006, 1024, 2048, 4096, 32772, 65535]


@st.composite
def rfcomm_cases(draw, budget: int):
    fs = st.one_of(st.sampled_from(FS), st.sampled_from(FS), st.integers(23, 32767))
    cr = st.integers(1, 7)
    mtu = st.one_of(st.sampled_from(MTUS), st.sampled_from(MTUS), st.integers(48, 65535))
    case = {
        'kind': 'rfcomm',
        'carrier': draw(st.sampled_from(['classic', 'le'])),
        'l2cap_mtu': [draw(mtu), draw(mtu)],
        'dc': draw(st.lists(st.sampled_from([0, 0, 0, 1, 7, 50]), max_size=5)),
        'ds': draw(st.lists(st.sampled_from([0, 0, 0, 1, 7, 50]), max_size=5)),
    }
    n = draw(st.sampled_from([1, 1, 1, 2, 2, 3, 4]))
    channels = draw(st.lists(st.integers(1, 30), min_size=n, max_size=n, unique=True))
    links = []
    for ch in channels:
        spec = {'ch': ch, 'c': [draw(fs), draw(cr)], 's': [draw(fs), draw(cr)],
                'early': draw(st.sampled_from([0, 0, 0, 1, 30, 200]))}
        # a frame-size-limited link now and then: make the L2CAP MTU just fit / just not fit
        links.append(spec)
    case['links'] = links
    left = budget
    ops = []
    shape = draw(st.sampled_from(['mixed', 'mixed', 'mixed', 'long_then_reverse', 'ping_pong']))

    def size_for(li, w):
        eff = eff_frame(case, links[li], w)
        return draw(st.one_of(
            st.sampled_from([1, 2, eff - 1, eff, eff + 1, 2 * eff - 1, 2 * eff, 2 * eff + 1, 3 * eff - 1, 3 * eff]),
            st.integers(1, 3 * eff),
        ))

    def add_write(li, w, size, count=1):
        nonlocal left
        size = max(1, size)
        if size > left:
            size = left
        if size < 1:
            return
        count = max(1, min(count, left // size))
        left -= size * count
        ops.append(['w', li, w, size] if count == 1 else ['wn', li, w, size, count])

    if shape == 'long_then_reverse':
        li = draw(st.integers(0, n - 1))
        w = draw(st.sampled_from([CLIENT, SERVER]))
        eff = eff_frame(case, links[li], w)
        frames = draw(st.integers(40, 700))
        size = draw(st.sampled_from([eff, eff, 2 * eff, eff - 1, 1]))
        add_write(li, w, size, max(1, frames * eff // max(1, size)))
        ops.append(['sync'])
        add_write(li, OTHER[w], size_for(li, OTHER[w]), draw(st.integers(1, 40)))
    elif shape == 'ping_pong':
        li = draw(st.integers(0, n - 1))
        for _ in range(draw(st.integers(2, 12))):
            for w in (CLIENT, SERVER):
                add_write(li, w, size_for(li, w), draw(st.sampled_from([1, 1, 2, 5, 20])))
            if draw(st.booleans()):
                ops.append(['run', draw(st.sampled_from([0, 1, 10, 100]))])
    else:
        for _ in range(draw(st.integers(1, 14))):
            kind = draw(st.sampled_from(['w', 'w', 'w', 'w', 'wn', 'wn', 'run', 'sync', 'close', 'reopen', 'refused']))
            li = draw(st.integers(0, n - 1))
            w = draw(st.sampled_from([CLIENT, SERVER]))
            if kind == 'w':
                add_write(li, w, size_for(li, w))
            elif kind == 'wn':
                add_write(li, w, size_for(li, w), draw(st.sampled_from([2, 3, 8, 20, 40, 100])))
            elif kind == 'run':
                ops.append(['run', draw(st.sampled_from([0, 1, 10, 100]))])
            elif kind == 'sync':
                ops.append(['sync'])
            elif kind == 'close':
                ops.append(['close', li, draw(st.sampled_from([CLIENT, SERVER, CLIENT, SERVER, 'b']))])
                if draw(st.booleans()):
                    ops.append(['reopen', li])
            elif kind == 'reopen':
                ops.append(['reopen', li])
            elif kind == 'refused':
                ops.append(['refused', draw(st.integers(1, 30))])
    case['ops'] = ops
    case['end'] = draw(st.sampled_from(['none', 'none', 'mux_disc_c', 'mux_disc_s', 'shutdown']))
    return case


@st.composite
def rfcomm_hold_cases(draw):
    """A reader is without sink for a while (DLC.sink = None ... DLC.sink = f): 1 .. DEFAULT_RX_QUEUE_SIZE frames
    arrive meanwhile, the reader itself keeps writing, then the sink comes back; several rounds per link."""
    fs = st.sampled_from([23, 24, 31, 43, 64, 100, 127, 128, 129, 255, 1000])
    mtu = st.sampled_from([48, 64, 132, 133, 134, 256, 672, 1024, 2048])
    cr = st.integers(1, 7)
    case = {
        'kind': 'rfcomm',
        'carrier': draw(st.sampled_from(['classic', 'le'])),
        'l2cap_mtu': [draw(mtu), draw(mtu)],
        'dc': draw(st.lists(st.sampled_from([0, 0, 0, 1, 7, 50]), max_size=4)),
        'ds': draw(st.lists(st.sampled_from([0, 0, 0, 1, 7, 50]), max_size=4)),
    }
    n = draw(st.sampled_from([1, 1, 2, 3]))
    channels = draw(st.lists(st.integers(1, 30), min_size=n, max_size=n, unique=True))
    links = [{'ch': ch, 'c': [draw(fs), draw(cr)], 's': [draw(fs), draw(cr)], 'early': 0} for ch in channels]
    case['links'] = links
    cap = int(getattr(rfcomm, 'DEFAULT_RX_QUEUE_SIZE', 32))
    ops = []
    for _ in range(draw(st.integers(1, 4))):
        li = draw(st.integers(0, n - 1))
        reader = draw(st.sampled_from([CLIENT, SERVER]))
        writer = OTHER[reader]
        eff = eff_frame(case, links[li], writer)
        back = eff_frame(case, links[li], reader)
        if draw(st.booleans()):
            # the ledger is somewhere in its cycle when the sink goes away
            ops.append(['wn', li, writer, eff, draw(st.integers(1, 40))])
            if draw(st.booleans()):
                ops.append(['wn', li, reader, back, draw(st.integers(1, 20))])
        ops.append(['hold', li, reader])
        frames = draw(st.sampled_from([0, 1, 2, 3, 8, 15, 16, 17, 24, cap - 1, cap, cap]))
        left = frames
        while left > 0:
            per = draw(st.sampled_from([1, 1, 1, 2, 3]))       # frames per write
            size = draw(st.sampled_from([per * (eff - 1), per * (eff - 1), per * (eff - 1) - 1, 1]))
            size = max(1, size)
            count = max(1, min(left // per, draw(st.sampled_from([1, 2, 5, 32]))))
            ops.append(['wn', li, writer, size, count])
            left -= per * count
            what = draw(st.sampled_from(['', '', 'back', 'back', 'run', 'drain']))
            if what == 'back':
                ops.append(['wn', li, reader, draw(st.sampled_from([1, back - 1, back, 2 * back])),
                            draw(st.sampled_from([1, 1, 3, 20]))])
            elif what == 'run':
                ops.append(['run', draw(st.sampled_from([0, 1, 10, 100]))])
            elif what == 'drain':
                ops.append(['sync'])
        if n > 1 and draw(st.booleans()):
            other = draw(st.integers(0, n - 1))
            ops.append(['wn', other, draw(st.sampled_from([CLIENT, SERVER])), draw(st.integers(1, 300)),
                        draw(st.integers(1, 10))])
        ops.append(['run', draw(st.sampled_from([0, 10, 100, 1000]))])
        tail = draw(st.sampled_from(['release', 'release', 'release', 'release+hold+release', 'close', 'end']))
        if tail.startswith('release'):
            ops.append(['release', li, reader])
            if tail != 'release':
                ops += [['hold', li, reader], ['release', li, reader]]
            ops.append(['wn', li, writer, draw(st.sampled_from([1, eff, 3 * eff])), draw(st.sampled_from([1, 20, 60]))])
            if draw(st.booleans()):
                ops.append(['sync'])
        elif tail == 'close':
            ops.append(['close', li, draw(st.sampled_from([CLIENT, SERVER, 'b'])), draw(st.sampled_from([0, 1]))])
            ops.append(['reopen', li])
    case['ops'] = ops
    case['end'] = draw(st.sampled_from(['none', 'none', 'mux_disc_c', 'mux_disc_s', 'shutdown']))
    return case


SESSION_ENDS = ['shutdown', 'mux_disc_c', 'mux_disc_s', 'acl_c', 'acl_s']


@st.composite
def rfcomm_session_cases(draw):
    """Set-up, traffic, teardown and again: 2..3 RFCOMM sessions between the same two devices (same ACL link or a
    new one), the data links re-opened on the same channels with a different client L2CAP MTU; data links closed
    while the other links still have frames in flight."""
    fs = st.one_of(st.sampled_from(FS), st.integers(23, 2000))
    mtu = st.one_of(st.sampled_from(MTUS), st.integers(48, 4096))
    cr = st.integers(1, 7)
    case = {
        'kind': 'rfcomm',
        'carrier': draw(st.sampled_from(['classic', 'le'])),
        'l2cap_mtu': [draw(mtu), draw(mtu)],
        'dc': draw(st.lists(st.sampled_from([0, 0, 0, 1, 7, 50]), max_size=4)),
        'ds': draw(st.lists(st.sampled_from([0, 0, 0, 1, 7, 50]), max_size=4)),
    }
    n = draw(st.sampled_from([1, 2, 2, 3]))
    channels = draw(st.lists(st.integers(1, 30), min_size=n, max_size=n, unique=True))
    links = [{'ch': ch, 'c': [draw(fs), draw(cr)], 's': [draw(fs), draw(cr)],
              'early': draw(st.sampled_from([0, 0, 30]))} for ch in channels]
    case['links'] = links
    ops = []

    def traffic():
        for _ in range(draw(st.integers(1, 4))):
            li = draw(st.integers(0, n - 1))
            w = draw(st.sampled_from([CLIENT, SERVER]))
            eff = eff_frame(case, links[li], w)
            size = draw(st.sampled_from([1, eff - 1, eff, eff + 1, 2 * eff, 3 * eff]))
            count = draw(st.sampled_from([1, 2, 8, 20, 45]))
            count = max(1, min(count, 20_000 // max(1, size)))
            ops.append(['wn', li, w, max(1, size), count])
            if n > 1 and draw(st.integers(0, 3)) == 0:
                # close one link while the others are busy, open it again later (or in the next session)
                victim = draw(st.integers(0, n - 1))
                ops.append(['close', victim, draw(st.sampled_from([CLIENT, SERVER, 'b'])), 1])
                if draw(st.booleans()):
                    ops.append(['reopen', victim])

    traffic()
    for _ in range(draw(st.sampled_from([1, 1, 2]))):
        how = draw(st.sampled_from(SESSION_ENDS))
        again = draw(st.lists(st.integers(0, n - 1), min_size=1, max_size=n, unique=True))
        ops.append(['session', how, draw(st.one_of(st.just(case['l2cap_mtu'][0]), mtu)),
                    draw(st.sampled_from([0, 1])), again])
        traffic()
    case['ops'] = ops
    case['end'] = draw(st.sampled_from(['none'] + SESSION_ENDS))
    return case


def hold_enumeration(quick: bool) -> list:
    """Directed: exactly k frames arrive while the reader has no sink, k around the replenishment threshold and
    up to the capacity of the DLC's queue; one write per frame with the credits coming back in between."""
    cap = int(getattr(rfcomm, 'DEFAULT_RX_QUEUE_SIZE', 32))
    out = []
    i = 0
    for frames in (1, 15, 16, 17, cap - 1, cap):
        for reader in (CLIENT, SERVER):
            for carrier in ('classic', 'le'):
                for fs in (23, 128, 1000):
                    i += 1
                    if quick and i % 3 != frames % 3:
                        continue
                    writer = OTHER[reader]
                    case = {'kind': 'rfcomm', 'carrier': carrier, 'l2cap_mtu': [2048, 2048],
                            'dc': [1] if i % 2 else [], 'ds': [],
                            'links': [{'ch': 1 + i % 30, 'c': [fs, 1 + i % 7], 's': [fs, 1 + (i // 2) % 7], 'early': 0}]}
                    ops = [['wn', 0, writer, fs, 5 * (i % 9)], ['hold', 0, reader]]
                    for n in range(frames):
                        ops += [['w', 0, writer, fs - 1], ['run', 2]]
                        if n % 5 == 4:
                            ops.append(['w', 0, reader, fs + 1])
                    ops += [['release', 0, reader], ['wn', 0, writer, fs, 20], ['sync'],
                            ['hold', 0, reader], ['w', 0, writer, 1], ['run', 2], ['release', 0, reader]]
                    case['ops'] = ops
                    case['end'] = 'none'
                    out.append(case)
    return out


def session_enumeration(quick: bool) -> list:
    """Directed: every way a session can end x carrier x same / new Client object, two data links, one of them
    closed while the other is busy; the next session re-opens both with another client L2CAP MTU."""
    out = []
    i = 0
    for how in SESSION_ENDS:
        for carrier in ('classic', 'le'):
            for same in (0, 1):
                for fs, mtu2 in ((100, 64), (23, 2048), (1000, 133)):
                    i += 1
                    if quick and i % 3 != 0:
                        continue
                    case = {'kind': 'rfcomm', 'carrier': carrier, 'l2cap_mtu': [672, 672], 'dc': [], 'ds': [1] if i % 2 else [],
                            'links': [{'ch': 3, 'c': [fs, 2], 's': [fs, 7], 'early': 0},
                                      {'ch': 30, 'c': [127, 7], 's': [128, 1], 'early': 30}]}
                    case['ops'] = [
                        ['wn', 0, CLIENT, fs, 9], ['wn', 1, SERVER, 300, 3], ['wn', 0, SERVER, 2 * fs + 1, 2],
                        ['close', 1, SERVER if i % 2 else CLIENT, 1], ['reopen', 1], ['wn', 1, CLIENT, 129, 4],
                        ['session', how, mtu2 if not same else 672, same, [1, 0]],
                        ['wn', 0, CLIENT, fs, 36], ['wn', 1, SERVER, 300, 3], ['wn', 0, SERVER, 2 * fs + 1, 2],
                        ['close', 0, 'b', 1], ['wn', 1, CLIENT, 129, 4],
                        ['session', SESSION_ENDS[(i + 2) % 5], 672, 1 - same, [0]],
                        ['wn', 0, SERVER, 3 * fs, 3], ['wn', 0, CLIENT, 1, 9],
                    ]
                    case['end'] = (['none'] + SESSION_ENDS)[i % 6]
                    out.append(case)
    return out


# ---------------------------------------------------------------------------
# HFP
# ---------------------------------------------------------------------------
HF_BITS = [int(f) for f in hfp.HfFeature]
AG_BITS = [int(f) for f in hfp.AgFeature]
HF_ALL = sum(HF_BITS)
AG_ALL = sum(AG_BITS)
HF = hfp.HfFeature
AG = hfp.AgFeature
# the two (HF mask, AG mask) pairs tests/hfp_test.py uses
SUITE_MASKS = {
    (int(HF.CODEC_NEGOTIATION | HF.ESCO_S4_SETTINGS_SUPPORTED | HF.HF_INDICATORS | HF.ENHANCED_CALL_STATUS
         | HF.THREE_WAY_CALLING | HF.CLI_PRESENTATION_CAPABILITY),
     int(AG.HF_INDICATORS | AG.IN_BAND_RING_TONE_CAPABILITY | AG.REJECT_CALL | AG.CODEC_NEGOTIATION
         | AG.ESCO_S4_SETTINGS_SUPPORTED | AG.ENHANCED_CALL_STATUS | AG.THREE_WAY_CALLING)),
    (0, 0),
}
AG_INDICATOR_NAMES = [i.value for i in hfp.AgIndicator]
CHLD_OPS = [o.value for o in hfp.CallHoldOperation]
FINALS = ('OK', 'ERROR')


def is_final(line: str) -> bool:
    return line in FINALS or line.startswith('+CME ERROR')


class AtTap:
    """AT monitor on the gateway's DLC: command lines in, response lines out, in causal order."""

    def __init__(self, ag, whole_chunks: bool = False):
        self.ag = ag
        self.events: list = []
        self.shadow = bytearray()
        # whole_chunks: the gateway's reader gets every DLC chunk as it arrived (several command lines and
        # partial lines in one piece); responses are then attributed in order of the final result codes
        self.whole_chunks = whole_chunks
        self.chunk_shapes: set = set()
        self.unsolicited = False  # set by the harness while it makes the gateway send an unsolicited result code
        self._sink = ag.dlc.sink
        self._write = ag.dlc.write
        ag.dlc.sink = self.feed
        ag.dlc.write = self.write

    def feed(self, data: bytes) -> None:
        data = bytes(data)
        if self.whole_chunks:
            return self.feed_whole(data)
        pieces = []
        while data:
            i = data.find(b'\r')
            if i < 0:
                pieces.append(data)
                break
            pieces.append(data[: i + 1])
            data = data[i + 1 :]
        for n, piece in enumerate(pieces):
            self.shadow += piece
            if piece.endswith(b'\r'):
                self.events.append(('cmd', bytes(self.shadow[:-1]).decode('utf-8', 'replace')))
                self.shadow.clear()
            try:
                self._sink(piece)
            except Exception as e:  # noqa: BLE001 - recorded, then behaves as without the tap
                self.events.append(('exc', e))
                rest = b''.join(pieces[n + 1 :])
                if rest:
                    self.ag.read_buffer.extend(rest)
                    for later in pieces[n + 1 :]:
                        self.shadow += later
                        if later.endswith(b'\r'):
                            self.shadow.clear()
                raise

    def feed_whole(self, data: bytes) -> None:
        started_mid_line = bool(self.shadow)
        self.shadow += data
        lines = []
        while True:
            i = self.shadow.find(b'\r')
            if i < 0:
                break
            line = bytes(self.shadow[:i]).decode('utf-8', 'replace').strip()
            del self.shadow[: i + 1]
            if line:
                lines.append(line)
        if len(lines) >= 2:
            self.chunk_shapes.add('multi_command')
        if lines and started_mid_line:
            self.chunk_shapes.add('split_command')
        if lines and self.shadow:
            self.chunk_shapes.add('command_then_partial')
        self.events.append(('chunk', lines))
        try:
            self._sink(data)
        except Exception as e:  # noqa: BLE001 - recorded, then behaves as without the tap
            self.events.append(('exc', e))
            raise

    def write(self, data) -> None:
        text = data.decode('utf-8', 'replace') if isinstance(data, (bytes, bytearray)) else str(data)
        self.events.append(('uns' if self.unsolicited else 'rsp', text))
        return self._write(data)

    def exchanges(self):
        """[(command line, [response lines], [exceptions])] in order of reception."""
        out = []
        room = 0  # commands of the current chunk that have no final result code yet (whole_chunks)
        for ev in self.events:
            if ev[0] == 'cmd':
                out.append((ev[1], [], []))
            elif ev[0] == 'chunk':
                # the gateway handles the lines of a chunk one after the other, synchronously: the k-th final
                # result code written while the chunk is processed concludes its k-th command
                for line in ev[1]:
                    out.append((line, [], []))
                room = len(ev[1])
                continue
            elif not out or ev[0] == 'uns':
                continue
            elif ev[0] == 'rsp' and room > 0:
                for l in ev[1].split('\r\n'):
                    if not l.strip():
                        continue
                    out[-room][1].append(l)
                    if is_final(l) and room > 1:
                        room -= 1
            elif ev[0] == 'rsp':
                out[-1][1].extend(l for l in ev[1].split('\r\n') if l.strip())
            else:
                out[-1][2].append(ev[1])
        return out


def handler_of(line: str) -> str:
    if line.startswith('AT+'):
        body = line[3:]
        name = ''
        for ch in body:
            if ch.isalpha():
                name += ch
            else:
                break
        rest = body[len(name):]
        form = '_test' if rest.startswith('=?') else ('_read' if rest.startswith('?') else '')
        return f'_on_{name.lower()}{form}'
    if line.startswith('ATA'):
        return '_on_a'
    if line.startswith('ATD'):
        return '_on_d'
    return '?'


def judge_at(col: Collector, tap: AtTap) -> None:
    """Exactly one final result code per command line, after the intermediate responses."""
    for line, responses, excs in tap.exchanges():
        finals = [r for r in responses if is_final(r)]
        handler = handler_of(line)
        if len(finals) == 1 and is_final(responses[-1]):
            continue
        if not finals:
            if excs:
                e = excs[0]
                site = _site(e)
                if isinstance(e, TypeError) and site.endswith(':_read_at'):
                    col.fail('at/no_final/arity_TypeError',
                             f'"{line}": the number of parameters does not match {handler}; {e!r} escapes '
                             f'AgProtocol._read_at after the line was consumed and no result code is sent')
                else:
                    col.fail(f'at/no_final/{site.split(":")[-1]}/{type(e).__name__}',
                             f'"{line}": {e!r} raised at {site}; no result code is sent')
            else:
                col.fail(f'at/no_final/{handler}', f'"{line}": the gateway sent no final result code '
                         f'(responses: {responses})')
        elif len(finals) > 1:
            col.fail(f'at/several_finals/{handler}',
                     f'"{line}": the gateway sent {len(finals)} final result codes: {responses}')
        else:
            col.fail(f'at/final_not_last/{handler}', f'"{line}": responses {responses}')
        # every exchange is judged on its own: the gateway handles a received line synchronously and the
        # monitor records its responses when they are written, whatever the state of the RFCOMM ledger


def exec_hfp(case) -> Collector:
    col = Collector()
    loop = vloop.new_loop()
    loop.max_iterations = LIVELOCK_ITERATIONS
    rf = case['rf']
    rcase = {'carrier': case['carrier'], 'l2cap_mtu': rf['l2cap_mtu'], 'dc': case.get('dc'), 'ds': case.get('ds')}
    rig = Rig(rcase)
    state = {'wait': None, 'slc': None, 'tap': None, 'last_cmd': None}
    hf_mask, ag_mask = int(case['hf_features']), int(case['ag_features'])

    def configs():
        hf_config = hfp.HfConfiguration(
            supported_hf_features=[f for f in hfp.HfFeature if int(f) & hf_mask],
            supported_hf_indicators=[hfp.HfIndicator(int(i)) for i in case['hf_ind_hf']],
            supported_audio_codecs=[hfp.AudioCodec(int(c)) for c in case['hf_codecs']],
        )
        ag_config = hfp.AgConfiguration(
            supported_ag_features=[f for f in hfp.AgFeature if int(f) & ag_mask],
            supported_ag_indicators=[
                hfp.AgIndicatorState(indicator=hfp.AgIndicator(name), supported_values={int(v) for v in values},
                                     current_status=int(status))
                for name, values, status in case['ag_indicators']
            ],
            supported_hf_indicators=[hfp.HfIndicator(int(i)) for i in case['hf_ind_ag']],
            supported_ag_call_hold_operations=[hfp.CallHoldOperation(v) for v in case['chld']],
            supported_audio_codecs=[hfp.AudioCodec(int(c)) for c in case['ag_codecs']],
        )
        return hf_config, ag_config

    async def driver():
        rig.listen(int(rf['ch']), int(rf['s'][0]), int(rf['s'][1]))
        state['wait'] = 'open'
        try:
            cdlc = await rig.client_mux.open_dlc(int(rf['ch']), max_frame_size=int(rf['c'][0]),
                                                 initial_credits=int(rf['c'][1]))
        except asyncio.CancelledError:
            raise
        except Exception as e:  # noqa: BLE001
            col.fail(f'rfcomm/open_fails/{type(e).__name__}', f'open_dlc raised {e!r} at {_site(e)}')
            return
        sdlc = rig.accepted[int(rf['ch'])][-1]
        hf_config, ag_config = configs()
        ag = hfp.AgProtocol(sdlc, ag_config)
        for c in case.get('calls') or []:
            ag.calls.append(hfp.CallInfo(
                index=int(c[0]), direction=hfp.CallInfoDirection(int(c[1])), status=hfp.CallInfoStatus(int(c[2])),
                mode=hfp.CallInfoMode(int(c[3])), multi_party=hfp.CallInfoMultiParty(int(c[4])),
                number=c[5], type=c[6]))
        raw_hf = case.get('hf') == 'raw'
        if raw_hf:
            # the harness itself plays the hands-free role on the client end of the data link: every line of the
            # session (the service-level connection too, if the program has one) is written as bytes; no HfProtocol
            hf = None
            got = bytearray()
            cdlc.sink = got.extend
            col.labels.add('hf_raw_session')
        else:
            hf = hfp.HfProtocol(cdlc, hf_config)
        tap = AtTap(ag, whole_chunks=bool(case.get('whole_chunks')))
        state.update(tap=tap, hf=hf, ag=ag)
        # remember the last command the HF wrote (for signatures)
        hf_write = cdlc.write

        def hf_tapped_write(data, _w=hf_write):
            text = data if isinstance(data, str) else bytes(data).decode('utf-8', 'replace')
            state['last_cmd'] = text.strip()
            return _w(data)

        cdlc.write = hf_tapped_write
        if not raw_hf:
            state['wait'] = 'slc'
            try:
                await hf.initiate_slc()
                state['slc'] = ('ok', None)
            except asyncio.CancelledError:
                raise
            except Exception as e:  # noqa: BLE001
                state['slc'] = ('exc', e)
            state['wait'] = None
            await asyncio.sleep(0.5)
            # the negotiated views are compared now, before the command program can change them
            judge_hfp(col, case, state, hf_mask, ag_mask)
            if state['slc'][0] != 'ok':
                return
        both_codec = bool(hf_mask & int(HF.CODEC_NEGOTIATION)) and bool(ag_mask & int(AG.CODEC_NEGOTIATION))
        hf_codecs = [int(c) for c in case['hf_codecs']]
        if case.get('hf_loop') and not raw_hf:
            # the hands-free routine that answers unsolicited result codes (+BCS: ...)
            state['hf_task'] = asyncio.ensure_future(hf.run())

        async def compare_active_codec(how: str, codec: int) -> None:
            await asyncio.sleep(0.5)
            col.labels.add('active_codec_compared')
            if not (int(hf.active_codec) == int(ag.active_codec) == codec):
                col.fail('hfp/view/active_codec',
                         f'after the codec connection set-up for codec {codec} ({how}) the HF holds active codec '
                         f'{int(hf.active_codec)}, the AG {int(ag.active_codec)}')

        for i, cmd in enumerate(case.get('commands') or []):
            state['wait'] = ('command', i)
            kind = cmd[0]
            if raw_hf and kind not in ('raw', 'burst'):
                continue  # (there is no HfProtocol to drive)
            try:
                if kind == 'api':
                    await getattr(hf, cmd[1])(*[int(a) for a in cmd[2:]])
                    if cmd[1] == 'setup_codec_connection':
                        if int(cmd[2]) in hf_codecs:
                            await compare_active_codec('AT+BCS by the HF', int(cmd[2]))
                        else:
                            # the HF does not have that codec: it has sent its list again (AT+BAC)
                            await asyncio.sleep(0.2)
                            col.labels.add('codecs_resent')
                            if [int(c) for c in ag.supported_audio_codecs] != hf_codecs:
                                col.fail('hfp/view/codecs', f'AG holds HF codecs '
                                         f'{[int(c) for c in ag.supported_audio_codecs]} after the HF has sent its '
                                         f'list again, the HF offers {hf_codecs}')
                elif kind == 'ag':
                    # codec connection set-up started by the gateway: +BCS: <codec>, answered by AT+BCS=<codec>
                    codec = int(cmd[2])
                    if cmd[1] != 'negotiate_codec' or not both_codec or codec not in hf_codecs \
                            or not case.get('hf_loop'):
                        continue
                    col.labels.add('command:ag_negotiate_codec')
                    tap.unsolicited = True
                    task = asyncio.ensure_future(ag.negotiate_codec(hfp.AudioCodec(codec)))
                    await asyncio.sleep(0)
                    tap.unsolicited = False
                    try:
                        await asyncio.wait_for(task, 10.0)
                    except asyncio.TimeoutError:
                        col.fail('hfp/codec_negotiation_hangs',
                                 f'AgProtocol.negotiate_codec({codec}) not finished after 10 virtual seconds although '
                                 f'both sides support codec negotiation and the HF offers {hf_codecs}')
                        break
                    except hfp.HfpProtocolError as e:
                        col.fail('hfp/codec_negotiation_fails', f'AgProtocol.negotiate_codec({codec}) raised {e!r}')
                        break
                    await compare_active_codec('+BCS by the AG', codec)
                elif kind == 'burst':
                    # several command lines handed to RFCOMM at once (one write, or one write per line without
                    # waiting): the gateway gets them in chunks cut by the frame size and the credits
                    text = [line + '\r' for line in cmd[1]]
                    limit = min(int(rf['s'][0]), int(rf['l2cap_mtu'][1]) - 5)
                    if any(len(t) > limit for t in text):
                        col.labels.add('at_command_longer_than_frame')
                    if cmd[2] == 'one':
                        cdlc.write(''.join(text))
                    else:
                        for t in text:
                            cdlc.write(t)
                    await asyncio.sleep(1.0 + 0.1 * len(text))
                elif kind == 'cmd':
                    rt = {'none': hfp.AtResponseType.NONE, 'single': hfp.AtResponseType.SINGLE,
                          'multiple': hfp.AtResponseType.MULTIPLE}[cmd[2] if len(cmd) > 2 else 'none']
                    await hf.execute_command(cmd[1], response_type=rt)
                elif kind == 'raw':
                    cdlc.write(cmd[1] + '\r')
                    await asyncio.sleep(1.5)
            except asyncio.CancelledError:
                raise
            except Exception as e:  # noqa: BLE001 - HF-side outcome; the gateway is judged from the AT monitor
                col.labels.add(f'hf_api_raises:{type(e).__name__}')
            await asyncio.sleep(0.2)
        state['wait'] = None
        await asyncio.sleep(2.0)
        if state.get('hf_task') is not None:
            state['hf_task'].cancel()

    try:
        outcome = _run_rig(loop, rig, col, driver)
        if outcome in ('stalled', 'horizon'):
            if rig.phase == 'world':
                raise HarnessError(f'C20 world set-up {outcome}')
            if rig.phase == 'mux_setup':
                col.fail('rfcomm/mux_setup_hangs', f'Client.start(): {outcome}')
            elif state['wait'] == 'open':
                col.fail('rfcomm/open_hangs', f'open_dlc: {outcome}')
            elif state['wait'] == 'slc':
                col.fail(f'hfp/slc_hangs/{handler_of(state["last_cmd"] or "")}',
                         f'initiate_slc() never finished ({outcome}); last command written: {state["last_cmd"]!r}')
            elif isinstance(state['wait'], tuple):
                cmd = case['commands'][state['wait'][1]]
                col.fail(f'hfp/command_hangs/{cmd[1]}', f'{cmd}: {outcome}')
            else:
                raise HarnessError(f'C20 hfp driver {outcome} outside a protocol operation')
        tap = state['tap']
        if tap is not None:
            judge_at(col, tap)
        failure, _stats = rig.monitor.analyse()
        if failure:
            col.fail(*failure)
        col.loop_errors = list(loop.errors)
        col.exchanges = tap.exchanges() if tap is not None else []
        for shape in (tap.chunk_shapes if tap is not None else ()):
            col.labels.add(f'at_chunk:{shape}')
    finally:
        loop.shutdown()
    return col


def judge_hfp(col: Collector, case, state, hf_mask: int, ag_mask: int) -> None:
    slc = state['slc']
    if slc is None:
        return
    hf, ag = state['hf'], state['ag']
    if slc[0] == 'exc':
        e = slc[1]
        last = state['last_cmd'] or ''
        if not case['ag_indicators'] and isinstance(e, hfp.HfpProtocolError) and last.startswith('AT+CIND=?'):
            col.labels.add('slc_refused_without_ag_indicators')
            return
        # a missing / doubled result code is reported by the AT monitor with the gateway-side cause
        tap = state['tap']
        before = len(col.fails)
        judge_at(col, tap)
        if len(col.fails) > before:
            return
        col.fail(f'hfp/slc_fails/{handler_of(last)}/{type(e).__name__}',
                 f'initiate_slc() raised {e!r} at {_site(e)} after writing {last!r}')
        return
    col.labels.add('slc_completed')
    both = lambda h, a: bool(hf_mask & int(h)) and bool(ag_mask & int(a))  # noqa: E731
    if hf.supported_ag_features != ag_mask:
        col.fail('hfp/view/ag_features', f'HF holds AG features {hf.supported_ag_features:#x}, the AG is configured '
                 f'with {ag_mask:#x}')
    if ag.supported_hf_features != hf_mask:
        col.fail('hfp/view/hf_features', f'AG holds HF features {ag.supported_hf_features:#x}, the HF is configured '
                 f'with {hf_mask:#x}')
    want = [(name, int(status)) for name, _values, status in case['ag_indicators']]
    got = [(s.indicator.value, s.current_status) for s in hf.ag_indicators]
    if got != want:
        col.fail('hfp/view/ag_indicators', f'HF indicator table {got} differs from the AG\'s list {want}')
    else:
        want_sets = [sorted({int(v) for v in values}) for _n, values, _s in case['ag_indicators']]
        try:
            got_sets = [sorted(s.supported_values) for s in hf.ag_indicators]
        except TypeError:
            got_sets = [s.supported_values for s in hf.ag_indicators]
        if got_sets != want_sets:
            col.fail('hfp/view/ag_indicator_value_ranges',
                     f'HF holds supported value sets {got_sets} for the AG indicators, the AG advertised {want_sets} '
                     f'(HF index fields: {[s.index for s in hf.ag_indicators]})')
    hf_list = list(dict.fromkeys(int(i) for i in case['hf_ind_hf']))
    ag_set = {int(i) for i in case['hf_ind_ag']}
    if both(HF.HF_INDICATORS, AG.HF_INDICATORS):
        col.labels.add('hf_indicators_negotiated')
        inter = {i for i in hf_list if i in ag_set}
        enabled_hf = {int(i) for i, s in hf.hf_indicators.items() if s.enabled}
        supported_hf = {int(i) for i, s in hf.hf_indicators.items() if s.supported}
        ag_view = {int(i) for i in ag.hf_indicators}
        if enabled_hf != inter or ag_view != inter or supported_hf != inter:
            col.fail('hfp/view/hf_indicators',
                     f'HF supports {hf_list}, AG supports {sorted(ag_set)}: HF holds enabled={sorted(enabled_hf)} '
                     f'supported={sorted(supported_hf)}, AG holds {sorted(ag_view)}; expected {sorted(inter)}')
    else:
        if any(s.enabled for s in hf.hf_indicators.values()) or ag.hf_indicators:
            col.fail('hfp/view/hf_indicators_without_feature',
                     'HF indicators enabled although one side lacks the HF-indicators feature')
    if both(HF.CODEC_NEGOTIATION, AG.CODEC_NEGOTIATION):
        col.labels.add('codecs_negotiated')
        if [int(c) for c in ag.supported_audio_codecs] != [int(c) for c in case['hf_codecs']]:
            col.fail('hfp/view/codecs', f'AG holds HF codecs {[int(c) for c in ag.supported_audio_codecs]}, the HF '
                     f'offers {list(case["hf_codecs"])}')
    if both(HF.THREE_WAY_CALLING, AG.THREE_WAY_CALLING):
        col.labels.add('chld_negotiated')
        got = [o.value for o in hf.supported_ag_call_hold_operations]
        if got != list(case['chld']):
            col.fail('hfp/view/call_hold', f'HF knows call-hold operations {got}, the AG supports {list(case["chld"])}')


def session_lines(case) -> list:
    """The command lines of the program in the order the gateway gets them."""
    out = []
    for cmd in case.get('commands') or []:
        if cmd[0] in ('raw', 'cmd'):
            out.append(str(cmd[1]))
        elif cmd[0] == 'burst':
            out += [str(l) for l in cmd[1]]
    return out


def _decimals(text: str):
    parts = text.split(',')
    return [int(p) if p.isdigit() else None for p in parts]


def refusal_class(case, line: str):
    """Harness-side model of the INPUT: does this line ask for something the gateway's configuration cannot
    grant (whatever result code it then uses)?  None when the line is none of the commands modelled here."""
    if line.startswith('AT+CHLD=') and line[8:].isdigit():
        digits = line[8:]
        op = digits[0] + ('x' if len(digits) > 1 else '')
        if op not in CHLD_OPS:
            return 'chld_invalid_op'
        if op not in list(case['chld']):
            return 'chld_unsupported_op'
        if len(digits) > 1 and int(digits[1:]) not in [int(c[0]) for c in case.get('calls') or []]:
            return 'chld_unknown_index'
        return 'chld_granted'
    if line.startswith('AT+CMER=') and line[8:]:
        v = _decimals(line[8:])
        if not 1 <= len(v) <= 4 or None in v:
            return None
        v += [0] * (4 - len(v))
        return 'cmer_granted' if v[0] == 3 and v[1] == 0 and v[2] == 0 and v[3] in (0, 1) else 'cmer_bad_values'
    if line in ('AT+CIND=?', 'AT+CIND?'):
        return 'cind_granted' if case['ag_indicators'] else 'cind_no_indicators'
    return None


def mode_labels(case) -> set:
    """Which (error-report mode in effect, refusable command) pairs does the session contain?  The mode is what
    the HF has asked for so far: default (no AT+CMEE yet), 1, or 0 (switched off again)."""
    labels = set()
    mode, switches = 'default', 0
    for line in session_lines(case):
        if line.startswith('AT+CMEE=') and line[8:].isdigit():
            new = '1' if int(line[8:]) else '0'
            if new != mode:
                switches += 1
            mode = new
            labels.add(f'cmee_set:{new}')
            continue
        cls = refusal_class(case, line)
        if cls is not None:
            labels.add(f'cmee_{mode}_then:{cls}')
    if switches >= 2:
        labels.add('cmee_switched_twice')
    return labels


def run_hfp_case(ctx, case, record=True) -> None:
    col = exec_hfp(case)
    if col.fails:
        other = dict(case, carrier='le' if case['carrier'] == 'classic' else 'classic')
        clean_elsewhere = not exec_hfp(other).fails
        for sig, what in col.fails:
            if clean_elsewhere:
                sig = f'{sig}@{case["carrier"]}-only'
            ctx.fail(sig, what, case)
    if not record:
        return
    labels = set(col.labels)
    labels.add(f'hfp_carrier:{case["carrier"]}')
    hf_mask, ag_mask = int(case['hf_features']), int(case['ag_features'])
    if hf_mask == HF_ALL and ag_mask == AG_ALL:
        labels.add('all_features')
    if hf_mask == 0 and ag_mask == 0:
        labels.add('no_features')
    names = [n for n, _v, _s in case['ag_indicators']]
    if len(set(names)) < len(names):
        labels.add('duplicate_ag_indicator')
    if not names:
        labels.add('no_ag_indicators')
    for cmd in case.get('commands') or []:
        labels.add(f'command:{cmd[0]}')
    for line, responses, _e in getattr(col, 'exchanges', []):
        labels.add(f'at:{handler_of(line)}')
        for r in responses:
            if is_final(r):
                labels.add('at_final:' + r.split(':')[0])  # (observed; no floor: the statement does not fix the form)
    if case.get('hf') == 'raw' or 'slc_completed' in labels:
        labels |= mode_labels(case)  # (the program was run)
    nontrivial = (hf_mask, ag_mask) not in SUITE_MASKS or bool(case.get('commands'))
    ctx.case(('hfp', case), nontrivial, labels,
             sample={'hfp': {'hf': hex(hf_mask), 'ag': hex(ag_mask), 'ag_indicators': case['ag_indicators'],
                             'hf_ind': [case['hf_ind_hf'], case['hf_ind_ag']], 'codecs': case['hf_codecs'],
                             'chld': case['chld'], 'hf': case.get('hf') or 'HfProtocol',
                             'commands': (case.get('commands') or [])[:6]}})


# ---------------------------------------------------------------------------
# HFP generators
# ---------------------------------------------------------------------------
def pairwise_masks() -> list[tuple[int, int]]:
    """Covering array of strength 2 over the 26 feature flags (binary-code construction)."""
    flags = [('h', b) for b in HF_BITS] + [('a', b) for b in AG_BITS]
    rows = [[0] * len(flags), [1] * len(flags)]
    bit = 0
    while (1 << bit) < len(flags) + 1:
        row = [((i + 1) >> bit) & 1 for i in range(len(flags))]
        rows.append(row)
        rows.append([1 - v for v in row])
        bit += 1
    out = []
    for row in rows:
        h = sum(b for (side, b), v in zip(flags, row) if v and side == 'h')
        a = sum(b for (side, b), v in zip(flags, row) if v and side == 'a')
        out.append((h, a))
    return out


FUNCTIONAL_HF = [int(HF.CODEC_NEGOTIATION), int(HF.THREE_WAY_CALLING), int(HF.HF_INDICATORS)]
FUNCTIONAL_AG = [int(AG.CODEC_NEGOTIATION), int(AG.THREE_WAY_CALLING), int(AG.HF_INDICATORS)]

ag_indicator_st = st.tuples(
    st.sampled_from(AG_INDICATOR_NAMES),
    st.one_of(
        st.sampled_from([[0, 1], [0, 1, 2], [0, 1, 2, 3], [0, 1, 2, 3, 4, 5], [1], [0, 2, 5], [3, 4, 5, 6, 7]]),
        st.lists(st.integers(0, 9), min_size=1, max_size=5, unique=True),
    ),
).flatmap(lambda t: st.tuples(st.just(t[0]), st.just(sorted(t[1])), st.sampled_from(sorted(t[1]))).map(list))

SUITE_INDICATORS = [['call', [0, 1], 0], ['service', [0, 1], 0], ['callsetup', [0, 1, 2, 3], 0],
                    ['callsetup', [0, 1, 2, 3], 0], ['signal', [0, 1, 2, 3, 4, 5], 0], ['call', [0, 1], 0],
                    ['battchg', [0, 1, 2, 3, 4, 5], 0]]

rf_st = st.fixed_dictionaries({
    'ch': st.integers(1, 30),
    'c': st.tuples(st.sampled_from([23, 30, 64, 127, 1000, 32767]), st.integers(1, 7)).map(list),
    's': st.tuples(st.sampled_from([23, 30, 64, 127, 1000, 32767]), st.integers(1, 7)).map(list),
    'l2cap_mtu': st.tuples(st.sampled_from([48, 64, 672, 2048]), st.sampled_from([48, 64, 672, 2048])).map(list),
})


def hf_role_commands():
    """Strategy: one command the HF role can emit, driven through the HF API, with valid values."""
    d = st.integers
    cmd = lambda s, rt='none': st.just(['cmd', s, rt])  # noqa: E731
    return st.one_of(
        st.just(['api', 'setup_audio_connection']),
        st.sampled_from([1, 2, 3]).map(lambda c: ['api', 'setup_codec_connection', c]),
        st.just(['api', 'answer_incoming_call']),
        st.just(['api', 'reject_incoming_call']),
        st.just(['api', 'terminate_call']),
        st.just(['api', 'query_current_calls']),
        st.sampled_from(['AT+CMEE=0', 'AT+CMEE=1', 'AT+CCWA=0', 'AT+CCWA=1', 'AT+CLIP=0', 'AT+CLIP=1', 'AT+BVRA=0',
                         'AT+BVRA=1', 'AT+BVRA=2', 'AT+NREC=0', 'AT+BLDN', 'AT+CNUM', 'AT+COPS=3,0', 'AT+BTRH=0',
                         'AT+BTRH=1', 'AT+BINP=1', 'AT+CMER=3,0,0,1', 'AT+CMER=3,0,0,0', 'AT+BCC', 'AT+CHUP', 'ATA',
                         'AT+BCS=1', 'AT+BCS=2', 'AT+BAC=1', 'AT+BAC=1,2', 'AT+BIND=1,2', 'AT+BIND=2', 'AT+BIND=',
                         ]).map(lambda s: ['cmd', s, 'none']),
        st.sampled_from(['AT+CIND=?', 'AT+CIND?', 'AT+BIND=?', 'AT+CHLD=?']).map(lambda s: ['cmd', s, 'single']),
        st.sampled_from(['AT+COPS?', 'AT+BTRH?', 'AT+CLCC', 'AT+BIND?']).map(lambda s: ['cmd', s, 'multiple']),
        d(0, 15).map(lambda n: ['cmd', f'AT+VGS={n}', 'none']),
        d(0, 15).map(lambda n: ['cmd', f'AT+VGM={n}', 'none']),
        st.sampled_from(['0', '1', '2', '3', '4', '11', '12', '21', '22']).map(lambda n: ['cmd', f'AT+CHLD={n}', 'none']),
        st.tuples(st.sampled_from([1, 2, 3]), d(0, 100)).map(lambda t: ['cmd', f'AT+BIEV={t[0]},{t[1]}', 'none']),
        st.lists(st.sampled_from(['0', '1', '']), min_size=0, max_size=7).map(
            lambda l: ['cmd', 'AT+BIA=' + ','.join(l), 'none']),
        st.text('0123456789', min_size=1, max_size=12).map(lambda n: ['cmd', f'ATD{n};', 'none']),
        d(1, 9).map(lambda n: ['cmd', f'ATD>{n};', 'none']),
        st.sampled_from(list('0123456789ABCD')).map(lambda c: ['cmd', f'AT+VTS={c}', 'none']),
        d(0, HF_ALL).map(lambda n: ['cmd', f'AT+BRSF={n}', 'single']),
    )


# name -> positional valid values (None = variadic command; values drawn from the list)
RAW_TABLE = {
    'BRSF': ['0'], 'BCS': ['1'], 'BVRA': ['1'], 'CHLD': ['2'], 'CMER': ['3', '0', '0', '1'], 'CMEE': ['1'],
    'CCWA': ['1'], 'BIEV': ['1', '1'], 'CLIP': ['1'], 'VGS': ['7'], 'VGM': ['7'],
    'BCC': [], 'CHUP': [], 'CLCC': [], 'CIND': [], 'BAC': None, 'BIND': None, 'BIA': None,
    # HF-role commands Bumble's gateway has no handler for, and unknown names
    'NREC': ['0'], 'BLDN': [], 'VTS': ['1'], 'CNUM': [], 'COPS': ['3', '0'], 'BTRH': ['1'], 'BINP': ['1'],
    'XAPL': ['1'], 'ZZZ': [],
}


@st.composite
def raw_commands(draw):
    name = draw(st.sampled_from(sorted(RAW_TABLE)))
    form = draw(st.sampled_from(['=', '=', '=', '', '?', '=?']))
    if form != '=':
        return ['raw', f'AT+{name}{form}']
    valid = RAW_TABLE[name]
    k = draw(st.integers(0, 5))
    if valid is None:
        values = [draw(st.sampled_from(['1', '2'])) for _ in range(k)]
    else:
        values = [(valid[i] if i < len(valid) else '0') for i in range(k)]
    return ['raw', f'AT+{name}=' + ','.join(values)]


def raw_enumeration() -> list[str]:
    lines = ['ATA', 'ATD123;', 'ATD>1;']
    for name in sorted(RAW_TABLE):
        valid = RAW_TABLE[name]
        lines += [f'AT+{name}', f'AT+{name}?', f'AT+{name}=?']
        for k in range(6):
            values = [((valid[i] if i < len(valid) else '0') if valid is not None else '1') for i in range(k)]
            lines.append(f'AT+{name}=' + ','.join(values))
    return lines


_ENUM_BASE = {'kind': 'hfp', 'rf': {'ch': 3, 'c': [1000, 7], 's': [1000, 7], 'l2cap_mtu': [2048, 2048]},
              'dc': [], 'ds': [], 'hf_codecs': [1, 2], 'ag_codecs': [1, 2], 'calls': []}
ENUM_CONFIGS = [
    dict(_ENUM_BASE, hf_features=0, ag_features=0, ag_indicators=[['call', [0, 1], 0]], hf_ind_hf=[], hf_ind_ag=[],
         chld=[]),
    dict(_ENUM_BASE, hf_features=HF_ALL, ag_features=AG_ALL, ag_indicators=SUITE_INDICATORS, hf_ind_hf=[1, 2],
         hf_ind_ag=[1, 2], chld=CHLD_OPS, rf={'ch': 5, 'c': [23, 1], 's': [23, 1], 'l2cap_mtu': [48, 48]}),
    dict(_ENUM_BASE, hf_features=HF_ALL, ag_features=0, ag_indicators=SUITE_INDICATORS[:3], hf_ind_hf=[1],
         hf_ind_ag=[2], chld=['1', '2'], dc=[1, 0, 5], ds=[0, 5]),
    dict(_ENUM_BASE, hf_features=0, ag_features=AG_ALL, ag_indicators=SUITE_INDICATORS[:3], hf_ind_hf=[1],
         hf_ind_ag=[2], chld=['1', '2'], rf={'ch': 30, 'c': [30, 2], 's': [64, 3], 'l2cap_mtu': [64, 48]}),
]


def hf_role_lines():
    """The command lines of the HF-role table (as text)."""
    return hf_role_commands().filter(lambda c: c[0] == 'cmd').map(lambda c: c[1])


def long_lines():
    """Valid command lines that do not fit a small RFCOMM frame."""
    return st.one_of(
        st.text('0123456789', min_size=20, max_size=70).map(lambda n: f'ATD{n};'),
        st.lists(st.sampled_from(['0', '1', '']), min_size=10, max_size=40).map(lambda l: 'AT+BIA=' + ','.join(l)),
        st.lists(st.sampled_from(['1', '2', '3']), min_size=10, max_size=30).map(lambda l: 'AT+BAC=' + ','.join(l)),
        st.lists(st.sampled_from(['1', '2']), min_size=10, max_size=30).map(lambda l: 'AT+BIND=' + ','.join(l)),
    )


def burst_commands():
    line = st.integers(0, 9).flatmap(
        lambda n: raw_commands().map(lambda c: c[1]) if n < 4 else (hf_role_lines() if n < 7 else long_lines()))
    return st.tuples(st.lists(line, min_size=2, max_size=10), st.sampled_from(['one', 'one', 'each'])).map(
        lambda t: ['burst', t[0], t[1]])


def codec_commands():
    return st.one_of(
        st.sampled_from([1, 2, 3]).map(lambda c: ['ag', 'negotiate_codec', c]),
        st.sampled_from([1, 2, 3]).map(lambda c: ['api', 'setup_codec_connection', c]),
    )


def codec_enumeration() -> list:
    """Directed: codec connection set-ups started by the gateway and by the hands-free side, one after the other,
    for every codec of three HF codec lists, over 23- and 1000-byte frames."""
    out = []
    for k, base in enumerate((ENUM_CONFIGS[1], dict(ENUM_CONFIGS[1], rf=_ENUM_BASE['rf']))):
        for codecs in ([1, 2], [1, 2, 3], [2, 1], [1]):
            commands = []
            for c in codecs:
                other = [x for x in (1, 2, 3) if x != c]
                commands += [['ag', 'negotiate_codec', c], ['api', 'setup_codec_connection', other[0]],
                             ['burst', ['AT+BCC', f'AT+BCS={other[1]}', 'AT+VGS=3'], 'one'],
                             ['api', 'setup_codec_connection', c], ['ag', 'negotiate_codec', c]]
            out.append(dict(base, hf_codecs=codecs, carrier='le' if (k + len(codecs)) % 2 else 'classic',
                            whole_chunks=True, hf_loop=True, commands=commands))
    return out


def hfp_session_cases():
    """Configurations as in hfp_cases; programs of bursts of command lines, codec connection set-ups started by
    either side (the HF routine that answers unsolicited result codes is running), single commands; small frames."""
    codec = (int(HF.CODEC_NEGOTIATION), int(AG.CODEC_NEGOTIATION))
    masks = st.one_of(
        st.tuples(st.integers(0, HF_ALL), st.integers(0, AG_ALL)),
        st.tuples(st.integers(0, HF_ALL).map(lambda h: h | codec[0]), st.integers(0, AG_ALL).map(lambda a: a | codec[1])),
        st.tuples(st.integers(0, HF_ALL).map(lambda h: h | codec[0]), st.integers(0, AG_ALL).map(lambda a: a | codec[1])),
        st.tuples(st.integers(0, HF_ALL).map(lambda h: h | codec[0]), st.integers(0, AG_ALL).map(lambda a: a | codec[1])),
    )
    fs = st.sampled_from([23, 23, 24, 27, 30, 40, 64, 1000])
    rf = st.fixed_dictionaries({
        'ch': st.integers(1, 30),
        'c': st.tuples(fs, st.integers(1, 7)).map(list),
        's': st.tuples(fs, st.integers(1, 7)).map(list),
        'l2cap_mtu': st.tuples(st.sampled_from([48, 64, 672]), st.sampled_from([48, 64, 672])).map(list),
    })
    one = st.integers(0, 9).flatmap(
        lambda n: burst_commands() if n < 5 else (codec_commands() if n < 8 else
                                                  (raw_commands() if n < 9 else hf_role_commands())))
    return hfp_cases(masks=masks, commands=st.lists(one, min_size=1, max_size=5), rf=rf,
                     extra={'whole_chunks': st.just(True), 'hf_loop': st.sampled_from([True, True, True, False])})


# -- sessions with mode-setting commands ---------------------------------------------------------------------
def cmee_lines():
    return st.sampled_from(['AT+CMEE=1', 'AT+CMEE=1', 'AT+CMEE=1', 'AT+CMEE=0', 'AT+CMEE=0'])


def mode_lines():
    """Commands that set a mode / a table of the gateway that later commands are answered from."""
    return st.one_of(
        st.sampled_from(['AT+CMER=3,0,0,1', 'AT+CMER=3,0,0,0', 'AT+CCWA=0', 'AT+CCWA=1', 'AT+CLIP=0', 'AT+CLIP=1',
                         'AT+NREC=0', 'AT+BVRA=1', 'AT+BVRA=0']),
        st.lists(st.sampled_from(['1', '2', '3']), max_size=3).map(lambda l: 'AT+BIND=' + ','.join(l)),
        st.lists(st.sampled_from(['0', '1', '']), max_size=7).map(lambda l: 'AT+BIA=' + ','.join(l)),
        st.lists(st.sampled_from(['1', '2', '3']), min_size=1, max_size=3).map(lambda l: 'AT+BAC=' + ','.join(l)),
        st.integers(0, HF_ALL).map(lambda n: f'AT+BRSF={n}'),
    )


def chld_lines():
    """AT+CHLD=<n>: every call-hold operation, <idx> forms with call indexes 1..12 (existing or not)."""
    idx = st.one_of(st.integers(1, 3), st.integers(1, 12))
    return st.integers(0, 4).flatmap(
        lambda n: st.sampled_from(['0', '1', '2', '3', '4']) if n < 2 else
        st.tuples(st.sampled_from(['1', '2']), idx).map(lambda t: f'{t[0]}{t[1]}')).map(lambda n: f'AT+CHLD={n}')


def cmer_lines():
    """AT+CMER=<mode>[,<keyp>[,<disp>[,<ind>]]] over the value ranges of 3GPP TS 27.007 8.10 (the gateway takes
    3,0,0,0 and 3,0,0,1 only)."""
    return st.tuples(st.sampled_from([3, 3, 3, 0, 1, 2]), st.sampled_from([0, 0, 1, 2]), st.sampled_from([0, 0, 1, 2]),
                     st.sampled_from([0, 1, 1, 2]), st.sampled_from([4, 4, 4, 3, 2, 1])).map(
        lambda t: 'AT+CMER=' + ','.join(str(v) for v in t[:4][:t[4]]))


def refusable_lines():
    """Commands the gateway grants or refuses depending on its configuration and on the modes set before."""
    return st.integers(0, 9).flatmap(
        lambda n: chld_lines() if n < 3 else (cmer_lines() if n < 5 else (
            st.sampled_from(['AT+CIND=?', 'AT+CIND?']) if n < 8 else st.one_of(
                st.sampled_from(['AT+CHLD=?', 'AT+BIND=?', 'AT+BIND?']),
                st.tuples(st.sampled_from([1, 2, 3]), st.integers(0, 100)).map(lambda t: f'AT+BIEV={t[0]},{t[1]}')))))


def mode_session_line():
    return st.integers(0, 19).flatmap(
        lambda n: cmee_lines() if n < 4 else (mode_lines() if n < 7 else
                                              (refusable_lines() if n < 16 else hf_role_lines())))


def response_type_of(line: str) -> str:
    if line in ('AT+CIND=?', 'AT+CIND?', 'AT+BIND=?', 'AT+CHLD=?') or line.startswith('AT+BRSF='):
        return 'single'
    if line in ('AT+BIND?', 'AT+COPS?', 'AT+BTRH?', 'AT+CLCC'):
        return 'multiple'
    return 'none'


def slc_script(hf_mask: int) -> list:
    """The command lines of a service-level connection, as a hands-free unit writes them."""
    return [f'AT+BRSF={hf_mask}', 'AT+CIND=?', 'AT+CIND?', 'AT+CMER=3,0,0,1', 'AT+CHLD=?']


@st.composite
def mode_session_cases(draw):
    """AT sessions in which mode-setting commands (AT+CMEE=0/1 above all; AT+CMER, AT+CCWA, AT+CLIP, AT+BIND,
    AT+BIA, AT+BAC, AT+BRSF again) come at generated points between commands the gateway grants or refuses from
    its configuration: AT+CHLD=<n> for every operation and call indexes that exist or not against the generated
    call-hold set and call list, AT+CMER over the 27.007 value ranges, AT+CIND=? / AT+CIND? also against a gateway
    WITHOUT indicators, AT+BIEV against the negotiated HF indicators.  The hands-free side is HfProtocol (SLC by
    initiate_slc, lines through execute_command or raw) or the harness itself writing every line (then also on
    configurations whose SLC the gateway refuses)."""
    fs = st.sampled_from([23, 30, 64, 127, 1000])
    rf = st.fixed_dictionaries({
        'ch': st.integers(1, 30),
        'c': st.tuples(fs, st.integers(1, 7)).map(list),
        's': st.tuples(fs, st.integers(1, 7)).map(list),
        'l2cap_mtu': st.tuples(st.sampled_from([48, 64, 672]), st.sampled_from([48, 64, 672])).map(list),
    })
    case = dict(draw(hfp_cases(commands=st.just([]), rf=rf, extra={'whole_chunks': st.booleans()})))
    if draw(st.integers(0, 2)) == 0:
        case['ag_indicators'] = []
    # call-hold sets: any subset (as drawn), all operations, all but one
    k = draw(st.integers(0, 3))
    if k >= 2:
        case['chld'] = [o for o in CHLD_OPS if k == 2 or o != draw(st.sampled_from(CHLD_OPS))]
    raw_hf = not case['ag_indicators'] or draw(st.booleans())
    commands = []
    if raw_hf:
        case['hf'] = 'raw'
        how = draw(st.sampled_from(['none', 'lines', 'lines', 'one', 'each']))
        script = slc_script(int(case['hf_features']))
        if how == 'lines':
            commands += [['raw', l] for l in script]
        elif how != 'none':
            commands.append(['burst', script, how])
    for _ in range(draw(st.integers(4, 14))):
        if draw(st.integers(0, 9)) < 7:
            line = draw(mode_session_line())
            if raw_hf or draw(st.booleans()):
                commands.append(['raw', line])
            else:
                commands.append(['cmd', line, response_type_of(line)])
        else:
            lines = draw(st.lists(mode_session_line(), min_size=2, max_size=5))
            commands.append(['burst', lines, draw(st.sampled_from(['one', 'one', 'each']))])
    case['commands'] = commands
    return case


def mode_enumeration() -> list:
    """Directed: the same set of granted / refused commands under every error-report mode history
    (default, AT+CMEE=1, =0 again, =1 again), line by line and in bursts; three gateway configurations (a subset
    of the call-hold operations + one call; no indicators, no operations; everything + 23-byte frames); the
    harness or HfProtocol as hands-free side."""
    call = lambda i: [i, 0, 0, 0, 0, '123', 129]  # noqa: E731
    a = dict(_ENUM_BASE, hf_features=HF_ALL, ag_features=AG_ALL, ag_indicators=SUITE_INDICATORS[:3],
             hf_ind_hf=[1, 2], hf_ind_ag=[1], chld=['0', '1', '1x', '2'], calls=[call(1)])
    b = dict(a, hf_features=0, ag_features=0, ag_indicators=[], chld=[], calls=[], hf_ind_hf=[], hf_ind_ag=[])
    c = dict(a, chld=list(CHLD_OPS), calls=[call(1), call(2)],
             rf={'ch': 7, 'c': [23, 1], 's': [23, 2], 'l2cap_mtu': [48, 48]})
    refusable = ['AT+CHLD=4', 'AT+CHLD=3', 'AT+CHLD=17', 'AT+CHLD=11', 'AT+CHLD=21', 'AT+CHLD=23', 'AT+CHLD=0',
                 'AT+CMER=2,0,0,1', 'AT+CMER=3,1,0,1', 'AT+CMER=3,0,2', 'AT+CMER=3,0,0,2', 'AT+CMER=3,0,0,1',
                 'AT+CMER=3', 'AT+CIND=?', 'AT+CIND?', 'AT+BIEV=2,1', 'AT+BIEV=1,1', 'AT+CHLD=2']
    out = []
    for k, (cfg, hf_side) in enumerate(((a, 'raw'), (a, 'api'), (b, 'raw'), (b, 'raw'), (c, 'raw'), (c, 'api'))):
        one = (lambda l: ['raw', l]) if hf_side == 'raw' or k % 2 else (lambda l: ['cmd', l, response_type_of(l)])
        commands = [['raw', l] for l in slc_script(int(cfg['hf_features']))] if hf_side == 'raw' else []
        commands += [one(l) for l in refusable]
        commands += [one('AT+CMEE=1')] + [one(l) for l in refusable]
        commands += [one('AT+CMEE=0')] + [one(l) for l in refusable]
        commands += [one('AT+CMEE=1'), ['burst', refusable, 'one'], one('AT+CMEE=0'), ['burst', refusable, 'each'],
                     ['burst', ['AT+CMEE=1'] + refusable[:6] + ['AT+CMEE=0'] + refusable[:6] + ['AT+CMEE=1']
                      + refusable[6:], 'one']]
        case = dict(cfg, carrier='le' if k % 2 else 'classic', whole_chunks=bool(k % 3 == 0), commands=commands)
        if hf_side == 'raw':
            case['hf'] = 'raw'
        out.append(case)
    return out


def hfp_cases(masks=None, with_commands=True, commands=None, rf=None, extra=None):
    mask_st = masks if masks is not None else st.one_of(
        st.tuples(st.integers(0, HF_ALL), st.integers(0, AG_ALL)),
        st.tuples(st.lists(st.sampled_from(HF_BITS), unique=True).map(sum),
                  st.lists(st.sampled_from(AG_BITS), unique=True).map(sum)),
        st.sampled_from(sorted(SUITE_MASKS)),
    )
    hf_ind = st.lists(st.sampled_from([1, 2, 3]), max_size=4)
    # (flatmap keeps one_of from flattening the big HF-role alternative into the choice: 40 % raw lines)
    one_command = st.integers(0, 4).flatmap(lambda n: raw_commands() if n < 2 else hf_role_commands())
    if commands is None:
        commands = st.lists(one_command, max_size=5) if with_commands else st.just([])
    calls = st.lists(
        st.tuples(st.integers(1, 3), st.integers(0, 1), st.integers(0, 5), st.sampled_from([0, 1, 2, 9]),
                  st.integers(0, 1), st.one_of(st.none(), st.text('0123456789', min_size=1, max_size=8)),
                  st.one_of(st.none(), st.sampled_from([129, 145]))).map(list),
        max_size=2)
    return st.fixed_dictionaries({
        'kind': st.just('hfp'),
        'carrier': st.sampled_from(['classic', 'le']),
        'rf': rf if rf is not None else rf_st,
        'dc': st.lists(st.sampled_from([0, 0, 1, 5]), max_size=3),
        'ds': st.lists(st.sampled_from([0, 0, 1, 5]), max_size=3),
        'masks': mask_st,
        'ag_indicators': st.one_of(st.lists(ag_indicator_st, min_size=1, max_size=8),
                                   st.lists(ag_indicator_st, min_size=0, max_size=3), st.just(SUITE_INDICATORS)),
        'hf_ind_hf': hf_ind,
        'hf_ind_ag': hf_ind,
        'hf_codecs': st.sampled_from([[1], [1, 2], [1, 2], [2, 1], [1, 2, 3]]),
        'ag_codecs': st.sampled_from([[1], [1, 2]]),
        'chld': st.lists(st.sampled_from(CHLD_OPS), unique=True, max_size=7),
        'calls': calls,
        'commands': commands,
        **(extra or {}),
    }).map(_flatten_masks)


def _flatten_masks(d):
    d = dict(d)
    h, a = d.pop('masks')
    d['hf_features'], d['ag_features'] = int(h), int(a)
    return d


# ---------------------------------------------------------------------------
def selftest() -> None:
    # TS 07.10 / tests/rfcomm_test.py vector: SABM on DLCI 0
    f = decode_frame(bytes.fromhex('033f011c'))
    if f.error or f.type != T_SABM or f.dlci != 0 or f.pf != 1:
        raise HarnessError(f'own RFCOMM decoder rejects the reference SABM frame: {f.error}')
    g = decode_frame(bytes.fromhex('033f011d'))
    if not g.error:
        raise HarnessError('own RFCOMM decoder accepts a wrong FCS')
    rows = pairwise_masks()
    flags = [(0, b) for b in HF_BITS] + [(1, b) for b in AG_BITS]
    for i, (si, bi) in enumerate(flags):
        for sj, bj in flags[i + 1:]:
            seen = {(bool(r[si] & bi), bool(r[sj] & bj)) for r in rows}
            if len(seen) != 4:
                raise HarnessError('pairwise feature array does not cover a flag pair')


def run(ctx) -> None:
    vloop.selftest()
    selftest()
    budget = ctx.pick(40_000, 250_000)
    ctx.hyp('rfcomm', lambda c: run_rfcomm_case(ctx, c), rfcomm_cases(budget), max_examples=ctx.n(320, 16000))
    # extension: readers without sink, sessions one after the other; small directed families first (every shard
    # runs them: their labels have floors), then sampled programs
    directed = hold_enumeration(ctx.quick) + session_enumeration(ctx.quick)
    ctx.extra['directed_rfcomm_cases'] = len(directed)
    for case in directed:
        run_rfcomm_case(ctx, case)
    ctx.hyp('rfcomm_hold', lambda c: run_rfcomm_case(ctx, c), rfcomm_hold_cases(), max_examples=ctx.n(60, 2400))
    ctx.hyp('rfcomm_sessions', lambda c: run_rfcomm_case(ctx, c), rfcomm_session_cases(),
            max_examples=ctx.n(50, 1600))

    # HFP: fixed feature-mask families (sharded), then sampled configurations with command programs
    fixed = list(pairwise_masks())
    for bits in range(64):
        h = sum(b for i, b in enumerate(FUNCTIONAL_HF) if bits >> i & 1)
        a = sum(b for i, b in enumerate(FUNCTIONAL_AG) if bits >> (i + 3) & 1)
        fixed.append((h, a))
        if ctx.tier != 'quick':
            fixed.append((HF_ALL & ~sum(FUNCTIONAL_HF) | h, AG_ALL & ~sum(FUNCTIONAL_AG) | a))
    mine = [m for i, m in enumerate(fixed) if i % ctx.nshards == ctx.shard]
    ctx.extra['fixed_feature_mask_pairs'] = len(fixed)
    if mine:
        it = iter(mine * ctx.pick(1, 4))

        def fixed_case(c):
            try:
                h, a = next(it)
            except StopIteration:
                return
            c = dict(c, hf_features=h, ag_features=a)
            run_hfp_case(ctx, c)

        ctx.hyp('hfp_fixed', fixed_case, hfp_cases(masks=st.just((0, 0)), with_commands=False),
                max_examples=len(mine) * ctx.pick(1, 4))
    ctx.hyp('hfp', lambda c: run_hfp_case(ctx, c), hfp_cases(), max_examples=ctx.n(240, 40000))

    # every raw arity / form variant of every table name, in sessions of 6 lines, on fixed configurations
    lines = raw_enumeration()
    ctx.extra['raw_lines_enumerated'] = len(lines)
    sessions = [lines[i:i + 6] for i in range(0, len(lines), 6)]
    configs = ENUM_CONFIGS[: ctx.pick(3, len(ENUM_CONFIGS))]
    jobs = [(k, sess) for k in range(len(configs)) for sess in sessions]
    for j, (k, sess) in enumerate(jobs):
        if j % ctx.nshards != ctx.shard or ctx.out_of_time():
            continue
        case = dict(configs[k], carrier='le' if j % 2 else 'classic', commands=[['raw', l] for l in sess])
        run_hfp_case(ctx, case)

    # the same lines in bursts: 8 (thorough also 3 and 5) lines per write, so that every line is cut by the frame
    # size at varying offsets and shares chunks with its neighbours; configurations with 1000-, 23- and 30-byte
    # frames; then bursts and codec connection set-ups on sampled configurations
    for case in codec_enumeration():
        run_hfp_case(ctx, case)
    ctx.hyp('hfp_sessions', lambda c: run_hfp_case(ctx, c), hfp_session_cases(), max_examples=ctx.n(100, 8000))
    burst_configs = [ENUM_CONFIGS[k] for k in ctx.pick((0, 1), (0, 1, 2, 3))]
    long = ['ATD' + '1234567890' * 4 + ';', 'AT+BIA=' + ','.join(['1', '0', ''] * 8),
            'AT+BAC=' + ','.join(['1', '2'] * 12), 'AT+BIND=' + ','.join(['1', '2'] * 12)]
    mixed = []
    for i, line in enumerate(lines):
        if i % 16 == 5:
            mixed.append(long[(i // 16) % len(long)])  # a line longer than a small frame now and then
        mixed.append(line)
    jobs = []
    for width in ctx.pick((8,), (8, 3, 5)):
        jobs += [(cfg, mixed[i:i + width]) for cfg in burst_configs for i in range(0, len(mixed), width)]
    for j, (cfg, sess) in enumerate(jobs):
        if j % ctx.nshards != ctx.shard or ctx.out_of_time():
            continue
        case = dict(cfg, carrier='le' if j % 2 else 'classic', whole_chunks=True,
                    commands=[['burst', sess, 'each' if j % 3 == 2 else 'one']])
        run_hfp_case(ctx, case)

    # sessions with mode-setting commands (AT+CMEE=0/1 ...) before commands the gateway grants or refuses: the
    # directed family is run by every shard, then sampled sessions
    modes = mode_enumeration()
    ctx.extra['directed_mode_sessions'] = len(modes)
    for case in modes:
        run_hfp_case(ctx, case)
    ctx.hyp('hfp_modes', lambda c: run_hfp_case(ctx, c), mode_session_cases(), max_examples=ctx.n(120, 4800))

    for label, n in (('carrier:classic', 10), ('carrier:le', 10), ('dlcs:1', 5), ('dlcs:2', 5), ('dlcs:3', 3),
                     ('dlcs:4', 3), ('beyond_initial_credits', 20), ('ledger_wrapped', 5), ('credit_only_frames', 10),
                     ('l2cap_mtu_limits_frame', 10), ('two_byte_length', 5), ('close_by_client', 5),
                     ('close_by_server', 5), ('reopen', 5), ('mux_teardown_with_open_dlcs', 10), ('delayed', 20),
                     ('slc_completed', 50), ('hf_indicators_negotiated', 10), ('codecs_negotiated', 10),
                     ('chld_negotiated', 10), ('duplicate_ag_indicator', 5), ('command:api', 10), ('command:cmd', 10),
                     ('command:raw', 10),
                     # extension: sink-less readers, receiver-side ledger, sessions, bursts, codec connections
                     ('sink_hold', 20), ('sink_release_delivers_queue', 10), ('sink_release_16plus_frames', 3),
                     ('sink_release_full_queue', 1), ('sink_released_twice_on_one_link', 5),
                     ('receiver_ledger_compared', 100), ('close_while_other_links_in_flight', 3),
                     ('session_after:shutdown', 2), ('session_after:mux_disc_c', 2), ('session_after:mux_disc_s', 2),
                     ('session_after:acl_c', 2), ('session_after:acl_s', 2),
                     ('command:burst', 30), ('at_chunk:multi_command', 15), ('at_chunk:split_command', 15),
                     ('at_command_longer_than_frame', 10), ('command:ag_negotiate_codec', 5),
                     ('active_codec_compared', 10),
                     # extension 2: mode-setting commands before granted / refused commands
                     # (the directed family alone gives, per process: 1_then unsupported_op 4, unknown_index 4,
                     # cmer_bad_values 6, cind_no_indicators 2 - the floors ask for sampled sessions on top)
                     ('hf_raw_session', 30), ('cmee_set:1', 40), ('cmee_set:0', 25), ('cmee_switched_twice', 15),
                     ('cmee_1_then:chld_unsupported_op', 6), ('cmee_1_then:chld_unknown_index', 6),
                     ('cmee_1_then:chld_granted', 4), ('cmee_1_then:cmer_bad_values', 7),
                     ('cmee_1_then:cmer_granted', 5), ('cmee_1_then:cind_no_indicators', 4),
                     ('cmee_1_then:cind_granted', 3), ('cmee_0_then:chld_unsupported_op', 4),
                     ('cmee_0_then:cmer_bad_values', 6), ('cmee_0_then:cind_no_indicators', 2),
                     ('cmee_default_then:chld_unsupported_op', 4), ('cmee_default_then:cind_no_indicators', 10)):
        ctx.floor(label, n)


def replay(ctx, case) -> None:
    kind = case.get('kind')
    if kind == 'rfcomm':
        case = dict(case)
        case.setdefault('ops', [])
        run_rfcomm_case(ctx, case)
    elif kind == 'hfp':
        run_hfp_case(ctx, case)
    else:
        raise ValueError(kind)
