"""
C18 - Every protocol data unit above HCI round-trips through its codec.

Registries (L2CAP signalling, ATT, SMP, SDP, AVDTP, AVRCP commands / responses / events /
browseable items, AV/C frames, typed advertising-data classes) are enumerated at run time and
driven by the spec-driven generator (vlib/specgen.py) with local, harness-side strategies for
the field kinds the field list does not describe.  Codecs without field lists (ERTM control
fields, PSM, SDP data elements, RFCOMM frames + MCC, AVDTP capabilities / A2DP codec
information, AVCTP headers, RTP, advertising data, Address, UUID) have hand-written strategies
and reference encoders written from the Bluetooth specifications.

Oracle per unit: the reference (spec-conformant) bytes parse to the generated values and re-serialise
to the same bytes, both as-is and as a FRESH object rebuilt from the parsed field values (cached
`_payload` / `_bytes` never make the check compare the input with itself); the bytes bumble emits for
the generated values either equal the reference or bumble must be self-consistent for them (parse
back to the values, re-serialise to the same bytes) - a self-consistent deviation from the reference
layout is counted (`wire_layout_differs_from_spec:<class>`, one line in the notes) but is not a
violation, because the property promises the round trip, not the layout.
History clause: operation lists over UUID / AdvertisingData / DataElement / ATT parse and
construct operations in one process, invariant after each step: what was just parsed
serialises to the bytes it was parsed from.
"""

from __future__ import annotations

import dataclasses
import functools
import struct

from hypothesis import strategies as st

from bumble import (  # noqa: F401  (gatt is imported for the UUIDs it registers)
    a2dp,
    att,
    avc,
    avctp,
    avdtp,
    avrcp,
    core,
    data_types,
    gatt,
    hci,
    l2cap,
    rfcomm,
    rtp,
    sdp,
    smp,
)
from bumble.core import UUID
from vlib import specgen
from vlib.runner import HarnessError

PROPERTY = 'C18'
LEVEL = 'exploration'
RULE = (
    'every registry enumerated at run time (L2CAP signalling, ATT, SMP, SDP PDUs, AVDTP messages, AVRCP '
    'commands/responses/events/items, AV/C frames, typed AD classes); per class field values drawn '
    'boundary-biased with a harness-side reference encoding; hand-written strategies + reference encoders '
    'for ERTM control fields, PSM, SDP data elements (sizes 0/1/255/256/65535/65536, nesting 0..20), RFCOMM '
    'frames (lengths 0/1/126/127/128/129/32767 with/without credits) and MCC, AVDTP capabilities / A2DP codec '
    'info, AVCTP, RTP, AdvertisingData, Address, UUID; oracle = reference bytes parse to the generated values and, as parsed '
    'and as a fresh object rebuilt from the parsed fields, re-serialise to the same bytes; the bytes bumble emits for the '
    'values equal the reference or bumble is at least self-consistent for them (then counted as layout deviation only); '
    'after every successful parse the parsed object is edited in place (public int members, list/dict members) and the same bytes are parsed again: the second parse must serialise to the bytes again (parse_again_after_edit). history = operation lists over UUIDs of equal value and different width through UUID()/from_bytes/'
    'from_16_bits/from_32_bits/register/AD/SDP/ATT with "just parsed serialises to its bytes" after every '
    'step. non-trivial = unit exercises a multi-byte length form, a flag bit, a nested element, a non-zero '
    'field byte, or (history) follows an equal-valued UUID of another width; distinct by (class, bytes). '
    'Extension: (a) a second, small "big body" family per class of the L2CAP / ATT / SDP / AVRCP registries with a 516..700 byte '
    'budget, so that the 16-bit length fields (C-frame length, SDP parameter length and AttributeListsByteCount, AVRCP item and '
    'string lengths) take values >= 256 and ATT values reach ATT_MTU; (b) the record views ATT responses derive from their raw '
    'list (information / handles_information / attributes) against a reference decode of the generated records, on the parsed '
    'and on the constructed object; (c) L2CAP basic frame header with and without FCS (lengths 0/1/255/256/65533/65535, '
    'reference CRC-16 anchored on the specification example) and configuration option lists (every option type, hint bit, '
    'unknown types, empty and 255-byte values), alone and inside Configure Request/Response; (d) AVRCP-specific AV/C framing: '
    'registered command/response classes, Rejected / NotImplemented responses and opaque parameters of 0/1/255/256/257/512/65535 '
    'bytes through avrcp.Protocol.send_avrcp_command / send_avrcp_response / send_rejected_avrcp_response (captured below the '
    'protocol) against the reference VENDOR DEPENDENT frame, and back through avc.Frame.from_bytes + one PduAssembler that was '
    'fed 0..2 earlier PDUs; (e) AdvertisingData through its other two parse entry points: get()/get_all() simple objects per '
    'typed class, and data_types_from_advertising_data() over whole payloads (typed and generic structures mixed) rebuilt into '
    'an AdvertisingData; GenericAdvertisingData equality; (f) SDP DataElement equality between the parsed and the constructed '
    'element; (g) AVDTP messages the specification defines without a registered class (Discovery Reject) through Message.create.'
)
ASSUMPTIONS = [
    'well-formed = built by the harness reference encoder from in-range field values: length fields equal '
    'the body length, reserved bits zero, counts exact',
    'for registries that declare (name, spec) field lists the field order is taken from the list; spec-derived '
    'golden vectors (ATT, L2CAP, SMP, SDP) anchor the layout independently',
    'fixed-size byte fields may be given short (documented zero padding)',
    'SDP size descriptors are minimal in the main stream; non-minimal descriptors only require bytes(parsed) '
    'to reproduce the input',
    'AdvertisingData: significant part only (no zero-length early-termination padding)',
    'A2DP AAC codec information per A2DP 1.3 (octet 2 bits 0-1 reserved)',
    'values are sampled (boundary-biased); only the class registries are enumerated exhaustively',
    'AdvertisingData.get()/get_all() may hand out the raw data of a structure (accepted as such for every type); when it '
    'interprets the data (names, integers, tuples, UUIDs, Appearance) the result has to be the generated value, i.e. what the '
    'typed class of the same type parses to (TX power is signed, Flags is an integer of any number of octets: CSS Part A 1.5, 1.3)',
    'a payload whose filler ends in a manufacturer structure shorter than a company identifier is not judged through the typed-object view',
    'L2CAP_PDU.from_bytes may leave a frame check sequence inside the payload (the channel checks it); both readings are accepted, '
    'the bytes must come back either way',
    'AVRCP framing is judged below avrcp.Protocol (the AV/C frame handed to AVCTP) and above avc.Frame / PduAssembler; single '
    'packets only (fragmentation belongs to C19); the transaction label of a command is chosen by the protocol and not compared',
    'ATT record views are only demanded for classes that still declare the derived attribute',
]
SHRINK_KEYS = ('ops',)


# ---------------------------------------------------------------------------
# process-wide registries: snapshot at import, restored between cases / history runs
# ---------------------------------------------------------------------------
_UUID_SNAP = [(u, u.name) for u in UUID.UUIDS]
REG16 = sorted({int.from_bytes(u.uuid_bytes, 'little') for u, _ in _UUID_SNAP if len(u.uuid_bytes) == 2}) or [0x180D]


def restore_registries() -> None:
    UUID.UUIDS[:] = [u for u, _ in _UUID_SNAP]
    for u, name in _UUID_SNAP:
        u.name = name


# Bluetooth Base UUID 00000000-0000-1000-8000-00805F9B34FB, little-endian, without the top 32 bits
BASE12_LE = bytes.fromhex('FB349B5F8000008000100000')


def uuid128_le(v32: int) -> bytes:
    return BASE12_LE + v32.to_bytes(4, 'little')


def uuid_obj(le: bytes) -> UUID:
    """A fresh UUID object of exactly this width, not going through the registry."""
    return UUID(bytes(le)[::-1].hex())


def norm128(le: bytes) -> bytes:
    le = bytes(le)
    if len(le) == 2:
        return BASE12_LE + le + b'\x00\x00'
    if len(le) == 4:
        return BASE12_LE + le
    return le


@st.composite
def uuid_le(draw, widths=(2, 4, 16)):
    w = draw(st.sampled_from(widths))
    v = draw(st.one_of(st.sampled_from(REG16), st.sampled_from(REG16), st.integers(0, 0xFFFF)))
    mode = draw(st.integers(0, 3))
    if w == 2:
        return v.to_bytes(2, 'little')
    if w == 4:
        return v.to_bytes(4, 'little') if mode < 2 else draw(st.binary(min_size=4, max_size=4))
    if mode < 2:
        return uuid128_le(v)
    if mode == 2:
        return BASE12_LE + draw(st.binary(min_size=4, max_size=4))
    return draw(st.binary(min_size=16, max_size=16))


def is_base_expansion(le: bytes) -> bool:
    le = bytes(le)
    return (len(le) == 4 and le[2:] == b'\x00\x00') or (len(le) == 16 and le[:12] == BASE12_LE)


# ---------------------------------------------------------------------------
# canonical rendering of values (implementation independent)
# ---------------------------------------------------------------------------
_DE_NAMES = {0: 'nil', 1: 'uint', 2: 'sint', 3: 'uuid', 4: 'text', 5: 'bool', 6: 'seq', 7: 'alt', 8: 'url'}


def de_tree(e, norm=False):
    """Plain-data tree of a bumble DataElement."""
    t = int(e.type)
    name = _DE_NAMES.get(t, f'type{t}')
    if name == 'nil':
        return ['nil']
    if name in ('uint', 'sint'):
        return [name, e.value_size, int(e.value)]
    if name == 'uuid':
        b = bytes(e.value)
        return ['uuid', norm128(b) if norm else b]
    if name == 'text':
        return ['text', bytes(e.value)]
    if name == 'bool':
        return ['bool', 1 if e.value else 0]
    if name in ('seq', 'alt'):
        return [name, [de_tree(c, norm) for c in e.value]]
    if name == 'url':
        return ['url', e.value]
    return [name, bytes(e.value)]


def cn(v, norm=False):
    """Comparable rendering; norm=True ignores UUID width (to tell a width change from other damage)."""
    if isinstance(v, UUID):
        b = bytes(v)
        return ('uuid', norm128(b) if norm else b)
    if isinstance(v, sdp.DataElement):
        return ('de', _freeze(de_tree(v, norm)))
    if isinstance(v, hci.Address):
        return ('addr', bytes(v), int(v.address_type))
    if isinstance(v, bool):
        return int(v)
    if isinstance(v, int):
        return int(v)
    if isinstance(v, str):
        return ('str', v)
    if isinstance(v, (bytes, bytearray, memoryview)):
        return bytes(v)
    if isinstance(v, (list, tuple)):
        return tuple(cn(x, norm) for x in v)
    if isinstance(v, Broken):
        return ('broken', repr(v.exc))
    if isinstance(v, avdtp.ServiceCapabilities):
        return ('cap', _freeze(cap_tree(v)))
    if isinstance(v, avrcp.Event):
        return ('evt', type(v).__name__, int(v.event_id), tuple((n, cn(getattr(v, n, None), norm)) for n in specgen.flat_names(type(v).fields)))
    if isinstance(v, avrcp.BrowseableItem):
        return ('item', type(v).__name__, tuple((n, cn(getattr(v, n, None), norm)) for n in specgen.flat_names(type(v).fields)))
    if dataclasses.is_dataclass(v) and not isinstance(v, type):
        return ('dc', type(v).__name__, tuple((f.name, cn(getattr(v, f.name), norm)) for f in dataclasses.fields(v) if not f.name.startswith('_')))
    if isinstance(v, hci.HCI_Object):
        return ('obj', type(v).__name__, tuple((n, cn(getattr(v, n, None), norm)) for n in specgen.flat_names(getattr(v, 'fields', ()) or ())))
    if v is None:
        return None
    if hasattr(v, '__bytes__'):
        return ('bytes', type(v).__name__, bytes(v))
    return ('repr', repr(v))


def _freeze(x):
    if isinstance(x, (list, tuple)):
        return tuple(_freeze(i) for i in x)
    if isinstance(x, (bytearray, memoryview)):
        return bytes(x)
    return x


def fresh(v):
    """Cache-defeating deep rebuild of a parsed field value from its own fields."""
    if isinstance(v, sdp.DataElement):
        return de_build(de_tree(v))
    if isinstance(v, (list, tuple)):
        return [fresh(x) for x in v]
    if isinstance(v, avdtp.MediaCodecCapabilities):
        return avdtp.MediaCodecCapabilities(v.media_type, v.media_codec_type, fresh(v.media_codec_information))
    if isinstance(v, avdtp.ServiceCapabilities):
        return avdtp.ServiceCapabilities(v.service_category, v.service_capabilities_bytes)
    if isinstance(v, (avrcp.Event, avrcp.BrowseableItem)):
        return type(v)(**{n: fresh(getattr(v, n)) for n in specgen.flat_names(type(v).fields)})
    if isinstance(v, hci.HCI_Dataclass_Object):
        return type(v)(**{n: fresh(getattr(v, n)) for n in specgen.flat_names(hci.HCI_Object.fields_from_dataclass(type(v)))})
    return v


def own_eq(cls) -> bool:
    for k in cls.__mro__:
        if k is object:
            return False
        if '__eq__' in k.__dict__:
            return True
    return False


def nontrivial(wire: bytes) -> bool:
    return len(wire) > 0 and any(wire)


def sizes(cap, *pts):
    return sorted({p for p in pts if 0 <= p <= cap} | {min(cap, 3)})


# ---------------------------------------------------------------------------
# SDP data elements: reference encoder (Core Vol 3 Part B 3.2/3.3), builder, strategies
# tree = ['nil'] | ['uint'|'sint', size, value] | ['uuid', le_bytes] | ['text', bytes] | ['bool', 0|1]
#        | ['seq'|'alt', [children]] | ['url', str]       (+ optional forced size index as last item for
#        text/seq/alt/url: ['text', bytes, 6])
# ---------------------------------------------------------------------------
_DE_TYPES = {'nil': 0, 'uint': 1, 'sint': 2, 'uuid': 3, 'text': 4, 'bool': 5, 'seq': 6, 'alt': 7, 'url': 8}
_FIXED_IDX = {1: 0, 2: 1, 4: 2, 8: 3, 16: 4}


def _de_var(t, data: bytes, forced=None) -> bytes:
    n = len(data)
    idx = forced if forced is not None else (5 if n <= 0xFF else 6 if n <= 0xFFFF else 7)
    size = {5: 1, 6: 2, 7: 4}[idx]
    return bytes([t << 3 | idx]) + n.to_bytes(size, 'big') + data


def de_encode(tree) -> bytes:
    kind = tree[0]
    t = _DE_TYPES[kind]
    if kind == 'nil':
        return bytes([0])
    if kind == 'uint':
        return bytes([t << 3 | _FIXED_IDX[tree[1]]]) + int(tree[2]).to_bytes(tree[1], 'big')
    if kind == 'sint':
        return bytes([t << 3 | _FIXED_IDX[tree[1]]]) + int(tree[2]).to_bytes(tree[1], 'big', signed=True)
    if kind == 'uuid':
        le = bytes(tree[1])
        return bytes([t << 3 | _FIXED_IDX[len(le)]]) + le[::-1]
    if kind == 'bool':
        return bytes([t << 3, 1 if tree[1] else 0])
    forced = tree[2] if len(tree) > 2 else None
    if kind == 'text':
        return _de_var(t, bytes(tree[1]), forced)
    if kind == 'url':
        return _de_var(t, tree[1].encode('utf-8'), forced)
    return _de_var(t, b''.join(de_encode(c) for c in tree[1]), forced)


def de_build(tree):
    """Fresh bumble DataElement objects (no cached bytes) for a tree."""
    kind = tree[0]
    D = sdp.DataElement
    if kind == 'nil':
        return D.nil()
    if kind == 'uint':
        return D.unsigned_integer(int(tree[2]), tree[1])
    if kind == 'sint':
        return D.signed_integer(int(tree[2]), tree[1])
    if kind == 'uuid':
        return D.uuid(uuid_obj(tree[1]))
    if kind == 'text':
        return D.text_string(bytes(tree[1]))
    if kind == 'bool':
        return D.boolean(bool(tree[1]))
    if kind == 'url':
        return D.url(tree[1])
    if kind == 'seq':
        return D.sequence([de_build(c) for c in tree[1]])
    if kind == 'alt':
        return D.alternative([de_build(c) for c in tree[1]])
    raise HarnessError(f'bad tree {tree[0]!r}')


def de_norm(tree):
    """Tree with UUIDs widened to 128 bits and forced size indexes dropped."""
    kind = tree[0]
    if kind == 'uuid':
        return ['uuid', norm128(tree[1])]
    if kind in ('seq', 'alt'):
        return [kind, [de_norm(c) for c in tree[1]]]
    if kind == 'text':
        return ['text', bytes(tree[1])]
    return list(tree[:3]) if kind in ('uint', 'sint') else list(tree[:2])


def de_depth(tree) -> int:
    if tree[0] in ('seq', 'alt'):
        return 1 + max([de_depth(c) for c in tree[1]] or [0])
    return 0


def de_has(tree, kind) -> bool:
    if tree[0] == kind:
        return True
    return tree[0] in ('seq', 'alt') and any(de_has(c, kind) for c in tree[1])


def _int_for(size, signed):
    bits = 8 * size
    if signed:
        half = 1 << (bits - 1)
        return st.one_of(st.sampled_from([-half, -1, 0, 1, half - 1]), st.integers(-half, half - 1))
    top = (1 << bits) - 1
    return st.one_of(st.sampled_from([0, 1, top >> 1, (top >> 1) + 1, top]), st.integers(0, top))


def de_leaf(int_sizes=(1, 2, 4, 8), maxtext=12):
    return st.one_of(
        st.just(['nil']),
        st.sampled_from(int_sizes).flatmap(lambda s: _int_for(s, False).map(lambda v: ['uint', s, v])),
        st.sampled_from(int_sizes).flatmap(lambda s: _int_for(s, True).map(lambda v: ['sint', s, v])),
        uuid_le().map(lambda b: ['uuid', b]),
        st.binary(max_size=maxtext).map(lambda b: ['text', b]),
        st.integers(0, 1).map(lambda b: ['bool', b]),
        st.text(max_size=maxtext).filter(_utf8_ok).map(lambda s: ['url', s]),
    )


def _utf8_ok(s: str) -> bool:
    try:
        s.encode('utf-8')
        return True
    except UnicodeEncodeError:
        return False


def de_small():
    """Small element trees (depth <= 3) for PDUs and advertising-size budgets."""
    return st.recursive(
        de_leaf(),
        lambda ch: st.tuples(st.sampled_from(['seq', 'alt']), st.lists(ch, max_size=3)).map(lambda t: [t[0], t[1]]),
        max_leaves=6,
    )


def de_filler(n: int):
    """Children whose reference encodings total exactly n bytes (n >= 0)."""
    out = []
    while n > 0:
        if n == 1:
            out.append(['nil'])
            n = 0
        elif n - 2 <= 0xFF:
            out.append(['text', bytes([0x41 + (n & 7)]) * (n - 2)])
            n = 0
        elif 0x100 <= n - 3 <= 0xFFFF:
            out.append(['text', bytes([0x61 + (n & 7)]) * (n - 3)])
            n = 0
        elif n - 5 >= 0x10000:
            out.append(['text', bytes([0x30 + (n & 7)]) * (n - 5)])
            n = 0
        else:
            out.append(['nil'])
            n -= 1
    return out


SDP_BOUNDARY_SIZES = (0, 1, 255, 256, 65535, 65536)


# ---------------------------------------------------------------------------
# Field-list generator with local overrides (wraps vlib.specgen)
# ---------------------------------------------------------------------------
class Ov:
    """A harness-side strategy + reference decoder for one field whose wire rules specgen cannot classify."""

    def __init__(self, label, gen, dec, minsize=0, must_be_last=False):
        self.label = label
        self.gen = gen  # gen(draw, prefix, room) -> (value, wire, expected)
        self.dec = dec  # dec(data, offset) -> (value, new_offset)
        self.minsize = minsize
        self.must_be_last = must_be_last


def _u16list_gen(maxn):
    def gen(draw, prefix, room):
        n = draw(st.integers(0, max(0, min(maxn, room // 2))))
        vals = [draw(specgen.uint(2)) for _ in range(n)]
        return vals, b''.join(v.to_bytes(2, 'little') for v in vals), vals

    return gen


def _u16list_dec(data, offset):
    return [int.from_bytes(data[i : i + 2], 'little') for i in range(offset, len(data) - 1, 2)], len(data)


def _psm_gen(draw, prefix, room):
    n = draw(st.sampled_from([2, 2, 2, 3, 4]))
    # (a zero top octet of a 3/4-octet PSM is left to run_psm so that it has one bucket)
    octets = [draw(st.integers(0, 127)) * 2 + 1 for _ in range(n - 1)] + [draw(st.integers(0 if n == 2 else 1, 127)) * 2]
    wire = bytes(octets)
    v = int.from_bytes(wire, 'little')
    return v, wire, v


def _psm_dec(data, offset):
    n = 2
    while data[offset + n - 1] & 1:
        n += 1
    return int.from_bytes(data[offset : offset + n], 'little'), offset + n


def _uuid_gen(widths):
    def gen(draw, prefix, room):
        le = draw(uuid_le(widths))
        return uuid_obj(le), le, uuid_obj(le)

    return gen


def _uuid2_dec(data, offset):
    return uuid_obj(data[offset : offset + 2]), offset + 2


def _uuid_rest_dec(data, offset):
    return uuid_obj(data[offset:]), len(data)


def _lvt_gen(draw, prefix, room):
    out, wire = [], b''
    for _ in range(draw(st.integers(0, 3))):
        if room - len(wire) < 2:
            break
        v = draw(st.binary(max_size=max(0, min(8, room - len(wire) - 2))))
        out.append((len(v), v))
        wire += len(v).to_bytes(2, 'little') + v
    return out, wire, out


def _lvt_dec(data, offset):
    out = []
    while offset < len(data):
        n = int.from_bytes(data[offset : offset + 2], 'little')
        out.append((n, data[offset + 2 : offset + 2 + n]))
        offset += 2 + n
    return out, len(data)


def _de_gen(strategy):
    def gen(draw, prefix, room):
        tree = draw(strategy)
        return de_build(tree), de_encode(tree), de_build(tree)

    return gen


def de_decode(data, offset):
    """Reference decoder: bytes -> (tree, new_offset)."""
    t, idx = data[offset] >> 3, data[offset] & 7
    offset += 1
    kind = _DE_NAMES[t]
    if idx <= 4:
        n = 0 if kind == 'nil' else (1, 2, 4, 8, 16)[idx]
    else:
        w = {5: 1, 6: 2, 7: 4}[idx]
        n = int.from_bytes(data[offset : offset + w], 'big')
        offset += w
    body = data[offset : offset + n]
    end = offset + n
    if kind == 'nil':
        return ['nil'], end
    if kind == 'uint':
        return ['uint', n, int.from_bytes(body, 'big')], end
    if kind == 'sint':
        return ['sint', n, int.from_bytes(body, 'big', signed=True)], end
    if kind == 'uuid':
        return ['uuid', body[::-1]], end
    if kind == 'text':
        return ['text', body], end
    if kind == 'bool':
        return ['bool', 1 if body[0] else 0], end
    if kind == 'url':
        return ['url', body.decode('utf-8')], end
    children = []
    while offset < end:
        c, offset = de_decode(data, offset)
        children.append(c)
    return [kind, children], end


def _de_dec(data, offset):
    tree, end = de_decode(data, offset)
    return de_build(tree), end


_search_pattern = st.lists(uuid_le(), min_size=1, max_size=4).map(lambda us: ['seq', [['uuid', u] for u in us]])
_attr_id_list = st.lists(
    st.one_of(specgen.uint(2).map(lambda v: ['uint', 2, v]), specgen.uint(4).map(lambda v: ['uint', 4, v])), min_size=1, max_size=4
).map(lambda xs: ['seq', xs])


def _handle_list_gen(draw, prefix, room):
    n = draw(st.integers(0, max(0, min(4, (room - 2) // 4))))
    vals = [draw(specgen.uint(4)) for _ in range(n)]
    return vals, n.to_bytes(2, 'big') + b''.join(v.to_bytes(4, 'big') for v in vals), vals


def _handle_list_dec(data, offset):
    n = int.from_bytes(data[offset : offset + 2], 'big')
    return [int.from_bytes(data[offset + 2 + 4 * i : offset + 6 + 4 * i], 'big') for i in range(n)], offset + 2 + 4 * n


def _len16_bytes_gen(draw, prefix, room):
    pts = (255, 256, 600) if room - 2 >= 600 else (0, 1, 40)  # >= 255 only fit the large-budget family
    n = draw(st.sampled_from(sizes(max(0, room - 2), *pts)))
    v = draw(st.binary(min_size=n, max_size=n))
    return v, n.to_bytes(2, 'big') + v, v


def _len16_bytes_dec(data, offset):
    n = int.from_bytes(data[offset : offset + 2], 'big')
    return data[offset + 2 : offset + 2 + n], offset + 2 + n


def _cont_gen(draw, prefix, room):
    n = draw(st.sampled_from([0, 0, 1, 2, 16]))
    v = bytes([n]) + draw(st.binary(min_size=n, max_size=n))
    return v, v, v


def _rest_dec(data, offset):
    return data[offset:], len(data)


def _seid_gen(draw, prefix, room):
    v = draw(st.one_of(st.sampled_from([0, 1, 0x3E, 0x3F]), st.integers(0, 0x3F)))
    return v, bytes([v << 2]), v


def _seid_dec(data, offset):
    return data[offset] >> 2, offset + 1


def _seids_gen(draw, prefix, room):
    vals = draw(st.lists(st.integers(0, 0x3F), min_size=0, max_size=max(0, min(4, room))))
    return vals, bytes(v << 2 for v in vals), vals


def _seids_dec(data, offset):
    return [b >> 2 for b in data[offset:]], len(data)


def _delay_gen(draw, prefix, room):
    v = draw(specgen.uint(2))
    return v, v.to_bytes(2, 'big'), v


def _delay_dec(data, offset):
    return int.from_bytes(data[offset : offset + 2], 'big'), offset + 2


def _u64be_gen(draw, prefix, room):
    v = draw(st.one_of(st.sampled_from([0, 1, (1 << 63), (1 << 64) - 1]), st.integers(0, (1 << 64) - 1)))
    return v, v.to_bytes(8, 'big'), v


def _u64be_dec(data, offset):
    return int.from_bytes(data[offset : offset + 8], 'big'), offset + 8


def _string_ov(length_size):
    def gen(draw, prefix, room):
        top = min(300, 256 ** length_size - 1)
        if room - length_size >= top and draw(st.integers(0, 2)) == 0:
            # (large budgets only) a string whose length needs the high octet of a two-octet length / fills a one-octet one
            n = draw(st.sampled_from(sorted({255, min(256, top), top})))
            s = draw(st.text(alphabet=st.characters(min_codepoint=0x20, max_codepoint=0x7E), min_size=n, max_size=n))
            return s, n.to_bytes(length_size, 'big') + s.encode('utf-8'), s
        cap = max(0, min(24, room - length_size))
        s = draw(st.text(max_size=cap).filter(_utf8_ok))
        b = s.encode('utf-8')
        while len(b) > cap:
            s = s[:-1]
            b = s.encode('utf-8')
        return s, len(b).to_bytes(length_size, 'big') + b, s

    def dec(data, offset):
        n = int.from_bytes(data[offset : offset + length_size], 'big')
        return data[offset + length_size : offset + length_size + n].decode('utf-8'), offset + length_size + n

    return Ov(f'string{length_size}', gen, dec, minsize=length_size)


def _const_choice(choices):
    def gen(draw, prefix, room):
        v = draw(st.sampled_from(choices))
        return v, bytes([v]), v

    return gen


def _u8_dec(data, offset):
    return data[offset], offset + 1


def _records_gen(item_size):
    """k whole records whose size is fixed or given by the preceding octet (ATT 3.4.3.2, 3.4.3.4, 3.4.4.2, 3.4.4.10)."""

    def gen(draw, prefix, room):
        size = item_size(prefix[-1]) if callable(item_size) else item_size
        k = draw(st.integers(0 if room < size else 1, max(0, min(3, room // size))))
        v = draw(st.binary(min_size=k * size, max_size=k * size))
        return v, v, v

    return gen


OV_ATT_LENGTH = Ov('att_item_length', _const_choice([4, 5, 6, 7, 20, 22]), _u8_dec, minsize=1)
OV_ATT_FORMAT = Ov('att_format', _const_choice([1, 2]), _u8_dec, minsize=1)
OV_ATT_RECORDS = Ov('att_records', _records_gen(lambda n: n), _rest_dec, minsize=22, must_be_last=True)
OV_ATT_INFO = Ov('att_records', _records_gen(lambda f: 4 if f == 1 else 18), _rest_dec, minsize=18, must_be_last=True)
OV_ATT_HANDLE_PAIRS = Ov('att_records', _records_gen(4), _rest_dec, minsize=4, must_be_last=True)
OV_PSM = Ov('psm', _psm_gen, _psm_dec, minsize=4)
OV_CIDS = Ov('u16list', _u16list_gen(5), _u16list_dec, must_be_last=True)
OV_HANDLES = Ov('u16list', _u16list_gen(6), _u16list_dec, must_be_last=True)
OV_UUID2 = Ov('uuid2', _uuid_gen((2,)), _uuid2_dec, minsize=2)
OV_UUID_REST = Ov('uuid_rest', _uuid_gen((2, 16)), _uuid_rest_dec, minsize=16, must_be_last=True)
OV_LVT = Ov('length_value_tuples', _lvt_gen, _lvt_dec, must_be_last=True)
OV_DE_PATTERN = Ov('data_element', _de_gen(_search_pattern), _de_dec, minsize=70)
OV_DE_ATTRS = Ov('data_element', _de_gen(_attr_id_list), _de_dec, minsize=24)
OV_DE_ANY = Ov('data_element', _de_gen(de_small()), _de_dec, minsize=80)
OV_HANDLE_LIST = Ov('handle_list', _handle_list_gen, _handle_list_dec, minsize=2)
OV_LEN16 = Ov('len16_bytes', _len16_bytes_gen, _len16_bytes_dec, minsize=2)
OV_CONT = Ov('continuation_state', _cont_gen, _rest_dec, minsize=17, must_be_last=True)
OV_SEID = Ov('seid', _seid_gen, _seid_dec, minsize=1)
OV_SEIDS = Ov('seids', _seids_gen, _seids_dec, must_be_last=True)
OV_DELAY = Ov('delay', _delay_gen, _delay_dec, minsize=2)
OV_U64BE = Ov('u64be', _u64be_gen, _u64be_dec, minsize=8)


# ---------------------------------------------------------------------------
# AVDTP service capabilities / A2DP media codec information (AVDTP 1.3 8.21, A2DP 1.3 4.3.2/4.5.2/4.7.2)
# cap = ['generic', category, bytes] | ['codec', media_type, codec_type, info]
# info = ['sbc', sf, cm, bl, sb, am, minbp, maxbp] | ['aac', ot, sf, ch, vbr, bitrate]
#      | ['vendor', vendor_id, codec_id, value] | ['opus', cm, fs, sf] | ['raw', bytes]
# ---------------------------------------------------------------------------
class Broken:
    """Stands for a value whose construction from in-range plain data raised inside Bumble."""

    def __init__(self, exc):
        self.exc = exc


OPUS_VENDOR_ID, OPUS_CODEC_ID = 0x000000E0, 0x0001


def info_encode(info) -> bytes:
    k = info[0]
    if k == 'sbc':
        _, sf, cm, bl, sb, am, lo, hi = info
        return bytes([sf << 4 | cm, bl << 4 | sb << 2 | am, lo, hi])
    if k == 'aac':
        _, ot, sf, ch, vbr, br = info
        return bytes([ot, sf >> 4, (sf & 0xF) << 4 | ch << 2, vbr << 7 | br >> 16, (br >> 8) & 0xFF, br & 0xFF])
    if k == 'vendor':
        return info[1].to_bytes(4, 'little') + info[2].to_bytes(2, 'little') + bytes(info[3])
    if k == 'opus':
        return OPUS_VENDOR_ID.to_bytes(4, 'little') + OPUS_CODEC_ID.to_bytes(2, 'little') + bytes([info[1] | info[2] << 3 | info[3] << 7])
    return bytes(info[1])


def info_codec_type(info) -> int:
    return {'sbc': 0x00, 'aac': 0x02, 'vendor': 0xFF, 'opus': 0xFF}.get(info[0], None)


def info_build(info):
    k = info[0]
    if k == 'sbc':
        S = a2dp.SbcMediaCodecInformation
        return S(S.SamplingFrequency(info[1]), S.ChannelMode(info[2]), S.BlockLength(info[3]), S.Subbands(info[4]),
                 S.AllocationMethod(info[5]), info[6], info[7])
    if k == 'aac':
        A = a2dp.AacMediaCodecInformation
        return A(A.ObjectType(info[1]), A.SamplingFrequency(info[2]), A.Channels(info[3]), info[4], info[5])
    if k == 'vendor':
        return a2dp.VendorSpecificMediaCodecInformation(info[1], info[2], bytes(info[3]))
    if k == 'opus':
        O = a2dp.OpusMediaCodecInformation
        return O(O.ChannelMode(info[1]), O.FrameSize(info[2]), O.SamplingFrequency(info[3]))
    return bytes(info[1])


def info_tree(obj):
    if isinstance(obj, a2dp.SbcMediaCodecInformation):
        return ['sbc', int(obj.sampling_frequency), int(obj.channel_mode), int(obj.block_length), int(obj.subbands),
                int(obj.allocation_method), obj.minimum_bitpool_value, obj.maximum_bitpool_value]
    if isinstance(obj, a2dp.AacMediaCodecInformation):
        return ['aac', int(obj.object_type), int(obj.sampling_frequency), int(obj.channels), obj.vbr, obj.bitrate]
    if isinstance(obj, a2dp.OpusMediaCodecInformation):
        return ['opus', int(obj.channel_mode), int(obj.frame_size), int(obj.sampling_frequency)]
    if isinstance(obj, a2dp.VendorSpecificMediaCodecInformation):
        return ['vendor', obj.vendor_id, obj.codec_id, bytes(obj.value)]
    return ['raw', bytes(obj)]


def cap_encode(cap) -> bytes:
    if cap[0] == 'generic':
        return bytes([cap[1], len(cap[2])]) + bytes(cap[2])
    _, mt, ct, info = cap
    body = bytes([mt << 4, ct]) + info_encode(info)
    return bytes([0x07, len(body)]) + body


def cap_build(cap):
    if cap[0] == 'generic':
        return avdtp.ServiceCapabilities(cap[1], bytes(cap[2]))
    _, mt, ct, info = cap
    return avdtp.MediaCodecCapabilities(avdtp.MediaType(mt), a2dp.CodecType(ct), info_build(info))


def cap_tree(obj):
    if isinstance(obj, avdtp.MediaCodecCapabilities):
        return ['codec', int(obj.media_type), int(obj.media_codec_type), info_tree(obj.media_codec_information)]
    return ['generic', int(obj.service_category), bytes(obj.service_capabilities_bytes)]


def caps_decode(data: bytes):
    out, o = [], 0
    while o < len(data):
        cat, n = data[o], data[o + 1]
        body = data[o + 2 : o + 2 + n]
        o += 2 + n
        if cat != 0x07:
            out.append(['generic', cat, body])
            continue
        mt, ct, rest = body[0] >> 4, body[1], body[2:]
        if ct == 0x00:
            info = ['sbc', rest[0] >> 4, rest[0] & 15, rest[1] >> 4, rest[1] >> 2 & 3, rest[1] & 3, rest[2], rest[3]]
        elif ct == 0x02:
            info = ['aac', rest[0], rest[1] << 4 | rest[2] >> 4, rest[2] >> 2 & 3, rest[3] >> 7, (rest[3] & 0x7F) << 16 | rest[4] << 8 | rest[5]]
        elif ct == 0xFF:
            vid, cid = int.from_bytes(rest[:4], 'little'), int.from_bytes(rest[4:6], 'little')
            if (vid, cid) == (OPUS_VENDOR_ID, OPUS_CODEC_ID) and len(rest) == 7:
                info = ['opus', rest[6] & 7, rest[6] >> 3 & 3, rest[6] >> 7]
            else:
                info = ['vendor', vid, cid, rest[6:]]
        else:
            info = ['raw', rest]
        out.append(['codec', mt, ct, info])
    return out


_sbc_info = st.tuples(st.integers(0, 15), st.integers(0, 15), st.integers(0, 15), st.integers(0, 3), st.integers(0, 3),
                      specgen.uint(1), specgen.uint(1)).map(lambda t: ['sbc', *t])
_aac_info = st.tuples(st.sampled_from([0x80, 0x40, 0x20, 0x10, 0xF0, 0xC0]), st.integers(0, 0xFFF), st.integers(0, 3),
                      st.integers(0, 1), st.one_of(st.sampled_from([0, 1, 0x7FFFFF, 0x010203]), st.integers(0, 0x7FFFFF))).map(lambda t: ['aac', *t])
_vendor_info = st.tuples(
    st.one_of(st.sampled_from([0, 0xE0, 0x0000012D, 0xFFFFFFFF]), specgen.uint(4)), specgen.uint(2), st.binary(max_size=8)
).filter(lambda t: (t[0], t[1]) not in _vendor_known()).map(lambda t: ['vendor', *t])
_opus_info = st.tuples(st.integers(0, 7), st.integers(0, 3), st.integers(0, 1)).map(lambda t: ['opus', *t])


def _vendor_known():
    return {(v, c) for v, m in a2dp.A2DP_VENDOR_MEDIA_CODEC_INFORMATION_CLASSES.items() for c in m}


def codec_cap(plain=False):
    mt = st.just(0) if plain else st.sampled_from([0, 0, 0, 1, 2])
    if plain:
        return st.one_of(
            _sbc_info.map(lambda i: ['codec', 0, 0x00, i]), _aac_info.map(lambda i: ['codec', 0, 0x02, i]),
            _vendor_info.map(lambda i: ['codec', 0, 0xFF, i]), _opus_info.map(lambda i: ['codec', 0, 0xFF, i]))
    return st.one_of(
        st.tuples(mt, _sbc_info).map(lambda t: ['codec', t[0], 0x00, t[1]]),
        st.tuples(mt, _aac_info).map(lambda t: ['codec', t[0], 0x02, t[1]]),
        st.tuples(mt, _vendor_info).map(lambda t: ['codec', t[0], 0xFF, t[1]]),
        st.tuples(mt, _opus_info).map(lambda t: ['codec', t[0], 0xFF, t[1]]),
        st.tuples(mt, st.sampled_from([0x01, 0x04]), st.binary(min_size=1, max_size=6)).map(lambda t: ['codec', t[0], t[1], ['raw', t[2]]]),
    )


def generic_cap():
    return st.tuples(st.sampled_from([1, 2, 3, 4, 5, 6, 8]), st.binary(max_size=6)).map(lambda t: ['generic', t[0], t[1]])


def caps_list(maxn=3, plain=False):
    return st.lists(st.one_of(generic_cap(), codec_cap(plain)), min_size=0, max_size=maxn)


def _safe(fn, *a):
    try:
        return fn(*a)
    except Exception as e:  # construction from in-range plain data raised inside Bumble
        return Broken(e)


def _find_broken(v):
    if isinstance(v, Broken):
        return v
    if isinstance(v, dict):
        v = list(v.values())
    if isinstance(v, (list, tuple)):
        for x in v:
            b = _find_broken(x)
            if b is not None:
                return b
    return None


def _mk(cls, values):
    """cls(**values) unless a nested value already failed to build."""
    return _find_broken(values) or _safe(lambda: cls(**values))


def _caps_gen(draw, prefix, room):
    caps = draw(caps_list(plain=True))  # non-audio media types / other codec types: see run_caps
    wire = b''.join(cap_encode(c) for c in caps)
    return _safe(lambda: [cap_build(c) for c in caps]), wire, _safe(lambda: [cap_build(c) for c in caps])


def _caps_dec(data, offset):
    caps = caps_decode(data[offset:])
    return _safe(lambda: [cap_build(c) for c in caps]), len(data)


def _endpoints_gen(draw, prefix, room):
    eps = draw(st.lists(st.tuples(st.integers(0, 0x3F), st.integers(0, 1), st.integers(0, 2), st.integers(0, 1)), max_size=4))
    wire = b''.join(bytes([s << 2 | u << 1, m << 4 | t << 3]) for s, u, m, t in eps)
    objs = [avdtp.EndPointInfo(s, u, avdtp.MediaType(m), avdtp.StreamEndPointType(t)) for s, u, m, t in eps]
    return objs, wire, objs


def _endpoints_dec(data, offset):
    out = []
    for i in range(offset, len(data) - 1, 2):
        out.append(avdtp.EndPointInfo(data[i] >> 2, data[i] >> 1 & 1, avdtp.MediaType(data[i + 1] >> 4), avdtp.StreamEndPointType(data[i + 1] >> 3 & 1)))
    return out, len(data)


OV_CAPS = Ov('capabilities', _caps_gen, _caps_dec, must_be_last=True)
OV_ENDPOINTS = Ov('endpoints', _endpoints_gen, _endpoints_dec, must_be_last=True)


# ---------------------------------------------------------------------------
# resolving a field spec to an override, generating / decoding whole field lists
# ---------------------------------------------------------------------------
def _is_method(spec, owner, name) -> bool:
    return getattr(spec, '__self__', None) is owner and getattr(spec, '__func__', None) is getattr(owner, name).__func__


_BY_NAME = {
    ('l2cap', 'psm'): OV_PSM,
    ('l2cap', 'source_cid'): OV_CIDS,
    ('l2cap', 'destination_cid'): OV_CIDS,
    ('att', 'set_of_handles'): OV_HANDLES,
    ('att', 'length'): OV_ATT_LENGTH,
    ('att', 'attribute_data_list'): OV_ATT_RECORDS,
    ('att', 'format'): OV_ATT_FORMAT,
    ('att', 'information_data'): OV_ATT_INFO,
    ('att', 'handles_information_list'): OV_ATT_HANDLE_PAIRS,
    ('att', 'length_value_tuple_list'): OV_LVT,
    ('sdp', 'service_record_handle_list'): OV_HANDLE_LIST,
    ('sdp', 'attribute_list'): OV_LEN16,
    ('sdp', 'attribute_lists'): OV_LEN16,
    ('avdtp', 'acp_seid'): OV_SEID,
    ('avdtp', 'int_seid'): OV_SEID,
    ('avdtp', 'acp_seids'): OV_SEIDS,
    ('avdtp', 'capabilities'): OV_CAPS,
    ('avdtp', 'endpoints'): OV_ENDPOINTS,
    ('avdtp', 'delay'): OV_DELAY,
}


def resolve(reg: str, fname: str, spec):
    """Override for one field, or None when specgen's own classification is a full description."""
    kind, d = specgen.classify(spec)
    if kind == 'rest' and reg == 'sdp' and fname == 'continuation_state':
        return OV_CONT
    if kind != 'opaque':
        return _BY_NAME.get((reg, fname)) if reg == 'att' and kind in ('uint', 'rest') else None
    parser = d[0]
    if _is_method(parser, UUID, 'parse_uuid_2'):
        return OV_UUID2
    if _is_method(parser, UUID, 'parse_uuid'):
        return OV_UUID_REST
    if _is_method(parser, sdp.DataElement, 'parse_from_bytes'):
        return {'service_search_pattern': OV_DE_PATTERN, 'attribute_id_list': OV_DE_ATTRS}.get(fname, OV_DE_ANY)
    if isinstance(parser, functools.partial) and parser.func is avrcp._parse_string:
        return _string_ov(parser.keywords['length_size'])
    if reg.startswith('avrcp'):
        if parser is avrcp._UINT64_BE_METADATA['bumble.hci'].spec['parser']:
            return OV_U64BE
        if fname == 'event':
            return OV_EVENT
    ov = _BY_NAME.get((reg, fname))
    if ov is None:
        raise HarnessError(f'{reg}: field {fname!r} has an opaque codec and no dedicated strategy')
    return ov


def _min_size(reg, fname, spec) -> int:
    ov = resolve(reg, fname, spec)
    if ov is not None:
        return ov.minsize
    kind, d = specgen.classify(spec)
    if kind == 'nested':
        return sum(_group_min(reg, f) for f in hci.HCI_Object.fields_from_dataclass(d))
    return specgen.min_size(spec)


def _group_min(reg, f) -> int:
    return 1 if isinstance(f, list) else _min_size(reg, f[0], f[1])


def _gen_one(draw, reg, fname, spec, prefix, room, last):
    ov = resolve(reg, fname, spec)
    if ov is not None:
        if ov.must_be_last and not last:
            raise HarnessError(f'{reg}.{fname}: run-to-end field that is not last')
        return ov.gen(draw, prefix, max(0, room))
    kind, d = specgen.classify(spec)
    if kind == 'nested':
        sub = hci.HCI_Object.fields_from_dataclass(d)
        values, wire, expected = draw(gen_fields(reg, sub, room, prefix))
        return _mk(d, values), wire, _mk(d, expected)
    return draw(specgen.field_value(spec, prefix, room, last))


@st.composite
def gen_fields(draw, reg, fields, budget=255, prefix=b''):
    """As specgen.fields_strategy, with the local overrides."""
    values, expected, wire = {}, {}, b''
    flat = list(fields)
    tail = [0] * (len(flat) + 1)
    for i in range(len(flat) - 1, -1, -1):
        tail[i] = tail[i + 1] + _group_min(reg, flat[i])
    for i, f in enumerate(flat):
        last = i == len(flat) - 1
        room = budget - len(wire) - tail[i + 1]
        if isinstance(f, list):
            mins = [_min_size(reg, n, s) for n, s in f]
            item_min = max(1, sum(mins))
            max_items = max(0, min(255, (room - 1) // item_min))
            count = draw(st.sampled_from(sorted({0, 1, 2, min(3, max_items)} & set(range(max_items + 1)))))
            for n, _ in f:
                values[n], expected[n] = [], []
            wire += bytes([count])
            for j in range(count):
                for k, (n, s) in enumerate(f):
                    reserve = tail[i + 1] + (count - j - 1) * item_min + sum(mins[k + 1 :])
                    v, w, e = _gen_one(draw, reg, n, s, prefix + wire, budget - len(wire) - reserve, False)
                    values[n].append(v)
                    expected[n].append(e)
                    wire += w
            continue
        n, s = f
        v, w, e = _gen_one(draw, reg, n, s, prefix + wire, room, last)
        values[n], expected[n] = v, e
        wire += w
    return values, wire, expected


def _dec_one(reg, fname, spec, data, offset, last):
    ov = resolve(reg, fname, spec)
    if ov is not None:
        return ov.dec(data, offset)
    kind, d = specgen.classify(spec)
    if kind == 'nested':
        values, offset = dec_fields(reg, hci.HCI_Object.fields_from_dataclass(d), data, offset)
        return _mk(d, values), offset
    return specgen.decode_field(spec, data, offset, last)


def dec_fields(reg, fields, data, offset=0):
    """Reference decoder: wire -> expected values (used by replays)."""
    values = {}
    flat = list(fields)
    for i, f in enumerate(flat):
        if isinstance(f, list):
            count = data[offset]
            offset += 1
            for n, _ in f:
                values[n] = []
            for _ in range(count):
                for n, s in f:
                    v, offset = _dec_one(reg, n, s, data, offset, False)
                    values[n].append(v)
            continue
        v, offset = _dec_one(reg, f[0], f[1], data, offset, i == len(flat) - 1)
        values[f[0]] = v
    return values, offset


def field_labels(reg, fields):
    out = set()
    for f in fields:
        for n, s in (f if isinstance(f, list) else [f]):
            ov = resolve(reg, n, s)
            out.add('spec:' + (ov.label if ov else specgen.classify(s)[0]))
        if isinstance(f, list):
            out.add('spec:list_group')
    return out


# AVRCP event nested in RegisterNotificationResponse: class picked from the run-time registry
def _event_gen(draw, prefix, room):
    eid = draw(st.sampled_from(sorted(avrcp.Event.subclasses, key=int)))
    cls = avrcp.Event.subclasses[eid]
    values, wire, expected = draw(gen_fields('avrcp_evt', cls.fields, max(8, room - 1), prefix + bytes([int(eid)])))
    return _mk(cls, values), bytes([int(eid)]) + wire, _mk(cls, expected)


def _event_dec(data, offset):
    cls = avrcp.Event.subclasses[avrcp.EventId(data[offset])]
    values, end = dec_fields('avrcp_evt', cls.fields, data, offset + 1)
    return _mk(cls, values), len(data)


OV_EVENT = Ov('avrcp_event', _event_gen, _event_dec, minsize=12, must_be_last=True)


# ---------------------------------------------------------------------------
# registry adapters
# ---------------------------------------------------------------------------
class _FakeChannel:
    """Just enough of an L2CAP channel for avdtp.Protocol / avctp.Protocol to serialise into."""

    peer_mtu = 65535
    EVENT_OPEN = 'open'
    EVENT_CLOSE = 'close'

    def __init__(self):
        self.written = []
        self.sink = None

    def on(self, *_a, **_k):
        return None

    def write(self, data):
        self.written.append(bytes(data))

    send_pdu = write


class Reg:
    name = ''
    budget = 64
    shared_parser = False  # parse-side caching lives in one shared function: bucket by registry, not by class
    base = object  # the class below which a codec override means "field list is not the whole story"
    big_budget = 0  # > 0: a second, small family per class with this body budget (16-bit lengths >= 256, long values)

    def classes(self):  # -> list[(key, cls)]
        raise NotImplementedError

    def len16(self, pdu):
        """The frame's own 16-bit length field, None when the framing has none."""
        return None

    def hdr(self):
        return st.just({})

    def frame(self, key, hdr, body) -> bytes:
        raise NotImplementedError

    def unframe(self, pdu):  # -> (key, hdr, body)
        raise NotImplementedError

    def parse(self, pdu, key):
        raise NotImplementedError

    def build(self, cls, values, hdr):
        return cls(**values)

    def ser(self, obj, hdr) -> bytes:
        return bytes(obj)

    def hdr_of(self, obj, hdr):
        return hdr

    def key_str(self, key):
        return str(int(key))

    def fields(self, cls):
        return cls.fields


class L2capReg(Reg):
    name = 'l2cap'
    base = l2cap.L2CAP_Control_Frame
    big_budget = 700

    def len16(self, pdu):
        return int.from_bytes(pdu[2:4], 'little')

    def classes(self):
        return sorted(l2cap.L2CAP_Control_Frame.classes.items(), key=lambda kv: int(kv[0]))

    def hdr(self):
        return specgen.uint(1).map(lambda i: {'identifier': i})

    def frame(self, key, hdr, body):
        return bytes([int(key), hdr['identifier']]) + len(body).to_bytes(2, 'little') + body

    def unframe(self, pdu):
        return pdu[0], {'identifier': pdu[1]}, pdu[4 : 4 + int.from_bytes(pdu[2:4], 'little')]

    def parse(self, pdu, key):
        return l2cap.L2CAP_Control_Frame.from_bytes(pdu)

    def build(self, cls, values, hdr):
        return cls(identifier=hdr['identifier'], **values)

    def hdr_of(self, obj, hdr):
        return {'identifier': obj.identifier}


class AttReg(Reg):
    name = 'att'
    base = att.ATT_PDU
    big_budget = 516  # ATT_MTU 517 (Core Vol 3 Part F 3.2.9: values up to 512 octets)

    def classes(self):
        return sorted(att.ATT_PDU.pdu_classes.items(), key=lambda kv: int(kv[0]))

    def frame(self, key, hdr, body):
        return bytes([int(key)]) + body

    def unframe(self, pdu):
        return pdu[0], {}, pdu[1:]

    def parse(self, pdu, key):
        return att.ATT_PDU.from_bytes(pdu)


class SmpReg(AttReg):
    name = 'smp'
    base = smp.SMP_Command
    big_budget = 0

    def classes(self):
        return sorted(smp.SMP_Command.smp_classes.items(), key=lambda kv: int(kv[0]))

    def parse(self, pdu, key):
        return smp.SMP_Command.from_bytes(pdu)


class SdpReg(Reg):
    name = 'sdp'
    budget = 200
    base = sdp.SDP_PDU
    big_budget = 700

    def len16(self, pdu):
        return int.from_bytes(pdu[3:5], 'big')

    def classes(self):
        return sorted(sdp.SDP_PDU.subclasses.items(), key=lambda kv: int(kv[0]))

    def hdr(self):
        return specgen.uint(2).map(lambda t: {'transaction_id': t})

    def frame(self, key, hdr, body):
        return bytes([int(key)]) + hdr['transaction_id'].to_bytes(2, 'big') + len(body).to_bytes(2, 'big') + body

    def unframe(self, pdu):
        return pdu[0], {'transaction_id': int.from_bytes(pdu[1:3], 'big')}, pdu[5 : 5 + int.from_bytes(pdu[3:5], 'big')]

    def parse(self, pdu, key):
        return sdp.SDP_PDU.from_bytes(pdu)

    def build(self, cls, values, hdr):
        return cls(transaction_id=hdr['transaction_id'], **values)

    def hdr_of(self, obj, hdr):
        return {'transaction_id': obj.transaction_id}


class AvdtpReg(Reg):
    """Single-packet signalling PDUs: Protocol.send_message -> bytes, MessageAssembler.on_pdu -> Message."""

    name = 'avdtp'
    base = avdtp.Message

    def classes(self):
        out = []
        for sig, by_type in avdtp.Message.subclasses.items():
            for mt, cls in by_type.items():
                out.append(((int(sig), int(mt)), cls))
        return sorted(out, key=lambda kv: kv[0])

    def key_str(self, key):
        return f'{key[0]}.{key[1]}'

    def hdr(self):
        return st.tuples(st.integers(0, 15), st.integers(1, 0x3F)).map(lambda t: {'label': t[0], 'rejected_signal': t[1]})

    def _signal(self, key, hdr):
        # a General Reject echoes the (unknown) signal identifier it rejects; bumble registers the class under 0
        return key[0]

    def frame(self, key, hdr, body):
        return bytes([hdr['label'] << 4 | key[1], self._signal(key, hdr)]) + body

    def unframe(self, pdu):
        return (pdu[1] & 0x3F, pdu[0] & 3), {'label': pdu[0] >> 4, 'rejected_signal': 1}, pdu[2:]

    def parse(self, pdu, key):
        got = []
        avdtp.MessageAssembler(lambda label, message: got.append((label, message))).on_pdu(pdu)
        if len(got) != 1:
            raise ValueError(f'assembler delivered {len(got)} messages for one single packet')
        label, message = got[0]
        message._c18_label = label
        return message

    def ser(self, obj, hdr):
        ch = _FakeChannel()
        avdtp.Protocol(ch).send_message(hdr['label'], obj)
        if len(ch.written) != 1:
            raise ValueError(f'{len(ch.written)} packets written for one small message')
        return ch.written[0]

    def hdr_of(self, obj, hdr):
        return {'label': getattr(obj, '_c18_label', hdr['label']), 'rejected_signal': hdr['rejected_signal']}


class AvrcpCmdReg(Reg):
    name = 'avrcp_cmd'
    base = avrcp.Command
    big_budget = 700

    def classes(self):
        return sorted(avrcp.Command.subclasses.items(), key=lambda kv: int(kv[0]))

    def frame(self, key, hdr, body):
        return body

    def parse(self, pdu, key):
        return avrcp.Command.from_bytes(int(key), pdu)


class AvrcpRspReg(AvrcpCmdReg):
    name = 'avrcp_rsp'
    base = avrcp.Response

    def classes(self):
        return sorted(avrcp.Response.subclasses.items(), key=lambda kv: int(kv[0]))

    def parse(self, pdu, key):
        return avrcp.Response.from_bytes(pdu, avrcp.PduId(int(key)))


class AvrcpEvtReg(Reg):
    name = 'avrcp_evt'
    base = avrcp.Event

    def classes(self):
        return sorted(avrcp.Event.subclasses.items(), key=lambda kv: int(kv[0]))

    def frame(self, key, hdr, body):
        return bytes([int(key)]) + body

    def unframe(self, pdu):
        return pdu[0], {}, pdu[1:]

    def parse(self, pdu, key):
        return avrcp.Event.from_bytes(pdu)


class AvrcpItemReg(Reg):
    """Browseable items; parsed at a non-zero offset with trailing data, as inside GetFolderItems."""

    name = 'avrcp_item'
    base = avrcp.BrowseableItem
    shared_parser = True
    big_budget = 700

    def len16(self, pdu):
        return int.from_bytes(pdu[1:3], 'big')
    PRE, POST = b'\xa5\x5a', b'\x01\x00\x00'

    def classes(self):
        return sorted(avrcp.BrowseableItem.subclasses.items(), key=lambda kv: int(kv[0]))

    def frame(self, key, hdr, body):
        return bytes([int(key)]) + len(body).to_bytes(2, 'big') + body

    def unframe(self, pdu):
        return pdu[0], {}, pdu[3 : 3 + int.from_bytes(pdu[1:3], 'big')]

    def parse(self, pdu, key):
        end, item = avrcp.BrowseableItem.parse_from_bytes(self.PRE + pdu + self.POST, len(self.PRE))
        if end != len(self.PRE) + len(pdu):
            raise ValueError(f'item of {len(pdu)} bytes consumed {end - len(self.PRE)}')
        return item


REGS = {r.name: r for r in (L2capReg(), AttReg(), SmpReg(), SdpReg(), AvdtpReg(), AvrcpCmdReg(), AvrcpRspReg(), AvrcpEvtReg(), AvrcpItemReg())}

_CODEC_ATTRS = ('from_bytes', 'from_parameters', '__bytes__', 'payload', 'parse_from_bytes', 'create')


def has_custom_codec(reg: Reg, cls) -> bool:
    """A class whose wire rules the field list alone does not express."""
    for k in cls.__mro__:
        if k is reg.base or k is object:
            break
        if any(a in k.__dict__ for a in _CODEC_ATTRS):
            return True
    names = set(specgen.flat_names(reg.fields(cls)))
    hdr_names = {'identifier', 'transaction_id'}
    for f in dataclasses.fields(cls) if dataclasses.is_dataclass(cls) else ():
        if f.init and not f.name.startswith('_') and f.name not in names and f.name not in hdr_names:
            return True
    return False


# ---------------------------------------------------------------------------
# the oracle for one unit of a field-list registry
# ---------------------------------------------------------------------------
def _first_broken(values):
    for k, v in values.items():
        b = _find_broken(v)
        if b is not None:
            return k, b.exc
    return None


def diff(obj, expected: dict, norm=False):
    bad = []
    for name, e in expected.items():
        got = getattr(obj, name, '<missing>')
        if cn(got, norm) != cn(e, norm):
            bad.append(name)
    return bad


def layout_deviation(ctx, site: str) -> None:
    """Bumble's bytes differ from the harness reference encoding but the codec is self-consistent for this value:
    a deviation from the specification's layout, which the property (round trip) does not promise. Counted, not failed."""
    ctx.labels[f'wire_layout_differs_from_spec:{site}'] += 1
    line = f'wire layout differs from the harness reference encoding (specification), codec self-consistent, not asserted: {site}'
    if line not in ctx.notes:
        ctx.notes.append(line)


# Structured views that a class derives from its raw record field (ATT 3.4.3.2, 3.4.3.4, 3.4.4.2, 3.4.4.10): what the
# GATT client reads.  name -> (attribute, reference decoder of the expected field values)
def _records(data: bytes, size: int, split):
    return tuple(split(bytes(data[o : o + size])) for o in range(0, len(data) - size + 1, size)) if size > 0 else ()


def _le16(b: bytes) -> int:
    return int.from_bytes(b, 'little')


DERIVED_VIEWS = {
    'ATT_Find_Information_Response': (
        'information', lambda e: _records(e['information_data'], 4 if e['format'] == 1 else 18, lambda r: (_le16(r[:2]), r[2:]))),
    'ATT_Find_By_Type_Value_Response': (
        'handles_information', lambda e: _records(e['handles_information_list'], 4, lambda r: (_le16(r[:2]), _le16(r[2:4])))),
    'ATT_Read_By_Type_Response': (
        'attributes', lambda e: _records(e['attribute_data_list'], e['length'], lambda r: (_le16(r[:2]), r[2:]))),
    'ATT_Read_By_Group_Type_Response': (
        'attributes', lambda e: _records(e['attribute_data_list'], e['length'], lambda r: (_le16(r[:2]), _le16(r[2:4]), r[4:]))),
}


def derived_view(reg: Reg, cls, expected: dict):
    """(attribute name, expected records) for the classes above, None for every other class."""
    if reg.name != 'att' or cls.__name__ not in DERIVED_VIEWS:
        return None
    attr, ref = DERIVED_VIEWS[cls.__name__]
    if not hasattr(cls, '__dataclass_fields__') or attr not in cls.__dataclass_fields__:
        return None  # the class no longer offers this view: nothing is promised
    return attr, ref(expected)


def check_unit(ctx, reg: Reg, key, cls, pdu: bytes, values: dict, expected: dict, hdr: dict, case, names=None) -> bool:
    restore_registries()
    site = f'{reg.name}/{cls.__name__}'
    view = derived_view(reg, cls, expected)
    if view is not None:
        ctx.label('att_view', f'att_view:records:{min(len(view[1]), 2)}')
    broken = _first_broken(values)
    if broken:
        ctx.fail(f'construct_raises/{reg.name}/{broken[0]}/{type(broken[1]).__name__}', f'building field {broken[0]} of {cls.__name__} from in-range values raised {broken[1]!r}', case)
        return False
    # clause 1: fields -> bytes
    try:
        built_obj = reg.build(cls, values, hdr)
        built = reg.ser(built_obj, hdr)
        want_obj = reg.build(cls, expected, hdr)  # equal to `values` up to the documented zero padding
        reg.ser(want_obj, hdr)
    except Exception as e:
        ctx.fail(f'encode_raises/{site}/{type(e).__name__}', f'building {cls.__name__} from in-range field values raised {e!r}', case)
        return False
    if view is not None:  # the constructed value offers the same structured view as the parsed one
        try:
            made_view = _freeze(getattr(want_obj, view[0]))
        except Exception as e:
            ctx.fail(f'decode_view_raises/{site}/{type(e).__name__}', f'reading {cls.__name__}.{view[0]} of a constructed object raised {e!r}', case)
            return False
        if made_view != view[1]:
            ctx.fail(f'decode_view/{site}', f'{cls.__name__}.{view[0]} of an object constructed from the field values is {made_view!r:.160}, expected {view[1]!r:.160}', case)
            return False

    def clauses(data: bytes, own: bool, compare: bool) -> bool:
        """bytes -> fields (compared when `compare`), then parsed / rebuilt objects re-serialise to `data`.
        own=True: `data` is what bumble itself emitted for the values and differs from the reference encoding; any
        failure then means the codec is not self-consistent for these values and is filed under encode/."""
        what = f'its own serialisation {data[:48].hex()} (reference {pdu[:48].hex()})' if own else f'{data[:48].hex()}'

        def fail(sig, msg):
            ctx.fail(f'encode/{site}' if own else sig, msg, case)
            return False

        try:
            parsed = reg.parse(data, key)
        except Exception as e:
            return fail(f'decode_raises/{site}/{type(e).__name__}', f'parsing a well-formed {cls.__name__} ({what}) raised {e!r}')
        if type(parsed) is not cls:
            return fail(f'decode_class/{site}', f'{what} parsed as {type(parsed).__name__}')
        got_hdr = reg.hdr_of(parsed, hdr)
        if compare:
            try:
                bad = diff(parsed, expected)
                bad_norm = diff(parsed, expected, norm=True) if bad else []
            except Exception as e:
                return fail(f'decode_fields_raises/{site}/{type(e).__name__}', f'reading the fields of a parsed {cls.__name__} raised {e!r}')
            if bad:
                if not bad_norm:
                    return fail(f'uuid_width/{reg.name}', f'{cls.__name__}: UUID field(s) {bad} parsed from {what} come back with another width')
                return fail(f'decode_fields/{site}', f'fields {bad} differ after parsing {what}')
            if got_hdr != hdr:
                return fail(f'decode_header/{site}', f'header parsed as {got_hdr}, sent {hdr}')
            if own_eq(cls):
                try:
                    equal = bool(parsed == want_obj) and bool(want_obj == parsed)
                except Exception as e:
                    return fail(f'eq_raises/{site}/{type(e).__name__}', repr(e))
                if not equal:
                    return fail(f'eq/{site}', f'{cls.__name__} parsed from its own serialisation does not compare equal to the original')
            if view is not None:
                try:
                    got_view = _freeze(getattr(parsed, view[0]))
                except Exception as e:
                    return fail(f'decode_view_raises/{site}/{type(e).__name__}', f'reading {cls.__name__}.{view[0]} raised {e!r}')
                if got_view != view[1]:
                    return fail(f'decode_view/{site}', f'{cls.__name__}.{view[0]} parsed from {what} is {got_view!r:.160}, the records on the wire are {view[1]!r:.160}')
        # parsed re-serialises to the same bytes (as-is, and rebuilt from its field values)
        try:
            again = reg.ser(parsed, got_hdr)
        except Exception as e:
            return fail(f'reencode_raises/{site}/{type(e).__name__}', f're-serialising a parsed {cls.__name__} raised {e!r}')
        if again != data:
            return fail(f'reencode_parsed/{reg.name if reg.shared_parser else site}', f'{cls.__name__} parsed from {what} serialises to {again[:48].hex()}')
        try:
            rebuilt = reg.ser(reg.build(cls, {n: fresh(getattr(parsed, n)) for n in (names or specgen.flat_names(reg.fields(cls)))}, got_hdr), got_hdr)
        except Exception as e:
            return fail(f'reencode_raises/{site}/{type(e).__name__}', f'rebuilding a parsed {cls.__name__} from its fields raised {e!r}')
        if rebuilt != data:
            return fail(f'reencode/{site}', f'{cls.__name__} parsed from {what} and rebuilt from its fields serialises to {rebuilt[:48].hex()}')
        # history: editing the parsed object must not show in the next parse of the same bytes
        bad = parse_again_after_edit(lambda d: reg.parse(d, key), lambda o: reg.ser(o, reg.hdr_of(o, hdr)), parsed, data)
        if bad is not None:
            return fail(f'parse_again_after_edit/{site}', f'{what} parsed a second time, after the first parsed {cls.__name__} was edited in place, '
                        f'gives {bad[:48].hex() if isinstance(bad, bytes) else repr(bad)}')
        ctx.label('parsed_twice_with_edit')
        return True

    deviates = built != pdu
    if deviates:
        # not what the specification lays out: a violation only if bumble is not self-consistent for these values
        if not clauses(built, own=True, compare=True):
            return False
        layout_deviation(ctx, site)
    # the spec-conformant bytes: must parse, (equal the values unless the layouts differ,) and re-serialise unchanged
    return clauses(pdu, own=False, compare=not deviates)


_GROWING = {'spec:rest', 'spec:len16_bytes', 'spec:string1', 'spec:string2', 'spec:list_group', 'spec:u16list', 'spec:length_value_tuples'}


def run_registry(ctx, reg: Reg, per_class: int, dedicated: dict) -> tuple[int, int]:
    registered = covered = 0
    for key, cls in reg.classes():
        registered += 1
        if cls in dedicated:
            dedicated[cls](ctx, reg, key, cls, per_class)
            covered += 1
            continue
        if has_custom_codec(reg, cls):
            raise HarnessError(f'{reg.name}: {cls.__name__} has its own codec and no dedicated strategy')
        fields = reg.fields(cls)
        try:
            labels = field_labels(reg.name, fields)
        except specgen.UnknownSpec as e:
            raise HarnessError(f'{cls.__name__}: unknown field spec {e}')
        for lab in labels:
            ctx.labels[lab] += 0

        def one(drawn, key=key, cls=cls, labels=labels):
            hdr, (values, wire, expected) = drawn
            pdu = reg.frame(key, hdr, wire)
            case = {'kind': 'pdu', 'reg': reg.name, 'key': reg.key_str(key), 'pdu': pdu}
            check_unit(ctx, reg, key, cls, pdu, values, expected, hdr, case)
            ctx.case((reg.name, cls.__name__, pdu), nontrivial(wire), {reg.name} | labels,
                     sample={'registry': reg.name, 'class': cls.__name__, 'pdu': pdu[:64].hex()})

        def one_big(drawn, key=key, cls=cls, labels=labels):
            hdr, (values, wire, expected) = drawn
            pdu = reg.frame(key, hdr, wire)
            case = {'kind': 'pdu', 'reg': reg.name, 'key': reg.key_str(key), 'pdu': pdu}
            check_unit(ctx, reg, key, cls, pdu, values, expected, hdr, case)
            extra = {'big_body'}
            if len(wire) >= 256:
                extra.add(f'body>=256:{reg.name}')
                if reg.len16(pdu) is not None:
                    extra.add(f'len16>=256:{reg.name}')
            ctx.case((reg.name, cls.__name__, pdu), nontrivial(wire), {reg.name} | labels | extra,
                     sample={'registry': reg.name, 'class': cls.__name__, 'pdu': pdu[:32].hex(), 'len': len(pdu)})

        try:
            ctx.hyp(f'{reg.name}/{cls.__name__}', one, st.tuples(reg.hdr(), gen_fields(reg.name, fields, reg.budget)), max_examples=per_class)
            if reg.big_budget and labels & _GROWING:  # classes with a field that can use the room
                ctx.hyp(f'{reg.name}/{cls.__name__}/big', one_big, st.tuples(reg.hdr(), gen_fields(reg.name, fields, reg.big_budget)),
                        max_examples=max(6, per_class // 6))
        except specgen.UnknownSpec as e:
            raise HarnessError(f'{cls.__name__}: {e}')
        covered += 1
    return registered, covered


def replay_pdu(ctx, case) -> None:
    reg = REGS[case['reg']]
    pdu = case['pdu']
    by_key = {reg.key_str(k): (k, c) for k, c in reg.classes()}
    if case['key'] not in by_key:
        return
    key, cls = by_key[case['key']]
    if case.get('golden'):
        for reg_name, code, hdr, values, hexs in golden_vectors():
            if reg_name == reg.name and bytes.fromhex(hexs.replace(' ', '')) == pdu:
                check_unit(ctx, reg, key, cls, pdu, values, values, hdr, case)
                return
        raise HarnessError('golden vector of this replay no longer exists')
    if cls in DEDICATED_REPLAY:
        DEDICATED_REPLAY[cls](ctx, reg, key, cls, case)
        return
    if reg.name in ('avrcp_cmd', 'avrcp_rsp'):
        hdr, body = {}, pdu
    else:
        _, hdr, body = reg.unframe(pdu)
    values, _ = dec_fields(reg.name, reg.fields(cls), body, 0)
    check_unit(ctx, reg, key, cls, pdu, values, values, hdr, case)


DEDICATED_REPLAY: dict = {}


# ---------------------------------------------------------------------------
# AVRCP responses whose wire rules are not in a field list (AVRCP 1.6 6.4.1, 6.10.4.2)
# ---------------------------------------------------------------------------
def _getcaps_values(cap_id, items):
    C = avrcp.GetCapabilitiesCommand.CapabilityId
    if cap_id == 3:
        return {'capability_id': C(cap_id), 'capabilities': [avrcp.EventId(x) for x in items]}
    return {'capability_id': C(cap_id), 'capabilities': [bytes(x) for x in items]}


def _getcaps_run(ctx, reg, key, cls, per_class):
    strat = st.one_of(
        st.lists(st.binary(min_size=3, max_size=3), min_size=1, max_size=5).map(lambda xs: (2, xs)),
        st.lists(st.integers(1, 0x0D), min_size=1, max_size=13).map(lambda xs: (3, xs)),
    )

    def one(d):
        cap_id, items = d
        body = bytes([cap_id, len(items)]) + (bytes(items) if cap_id == 3 else b''.join(items))
        case = {'kind': 'pdu', 'reg': reg.name, 'key': reg.key_str(key), 'pdu': body}
        v = _getcaps_values(cap_id, items)
        check_unit(ctx, reg, key, cls, body, v, v, {}, case, names=['capability_id', 'capabilities'])
        ctx.case((reg.name, cls.__name__, body), True, {reg.name, 'dedicated:' + cls.__name__}, sample={'class': cls.__name__, 'pdu': body.hex()})

    ctx.hyp(f'{reg.name}/{cls.__name__}', one, strat, max_examples=per_class)


def _getcaps_replay(ctx, reg, key, cls, case):
    b = case['pdu']
    items = list(b[2 : 2 + b[1]]) if b[0] == 3 else [b[2 + 3 * i : 5 + 3 * i] for i in range(b[1])]
    v = _getcaps_values(b[0], items)
    check_unit(ctx, reg, key, cls, b, v, v, {}, case, names=['capability_id', 'capabilities'])


@st.composite
def _item_strategy(draw):
    t = draw(st.sampled_from(sorted(avrcp.BrowseableItem.subclasses, key=int)))
    cls = avrcp.BrowseableItem.subclasses[t]
    values, wire, expected = draw(gen_fields('avrcp_item', cls.fields, 96))
    return int(t), values, wire, expected


def _item_decode(data, offset):
    t, n = data[offset], int.from_bytes(data[offset + 1 : offset + 3], 'big')
    cls = avrcp.BrowseableItem.subclasses[avrcp.BrowseableItem.Type(t)]
    values, _ = dec_fields('avrcp_item', cls.fields, data[offset + 3 : offset + 3 + n], 0)
    return _mk(cls, values), offset + 3 + n


def _folder_run(ctx, reg, key, cls, per_class):
    strat = st.tuples(st.sampled_from([0x04, 0x04, 0x00, 0x0B]), specgen.uint(2), st.lists(_item_strategy(), max_size=3))

    def one(d):
        status, uid, items = d
        body = bytes([status]) + uid.to_bytes(2, 'big') + len(items).to_bytes(2, 'big')
        vals, exps = [], []
        for t, values, wire, expected in items:
            body += bytes([t]) + len(wire).to_bytes(2, 'big') + wire
            icls = avrcp.BrowseableItem.subclasses[avrcp.BrowseableItem.Type(t)]
            vals.append(_mk(icls, values))
            exps.append(_mk(icls, expected))
        case = {'kind': 'pdu', 'reg': reg.name, 'key': reg.key_str(key), 'pdu': body}
        v = {'status': avrcp.StatusCode(status), 'uid_counter': uid, 'items': vals}
        e = {'status': avrcp.StatusCode(status), 'uid_counter': uid, 'items': exps}
        check_unit(ctx, reg, key, cls, body, v, e, {}, case, names=['status', 'uid_counter', 'items'])
        ctx.case((reg.name, cls.__name__, body), True, {reg.name, 'dedicated:' + cls.__name__, f'folder_items:{min(len(items), 2)}'},
                 sample={'class': cls.__name__, 'pdu': body[:64].hex()})

    ctx.hyp(f'{reg.name}/{cls.__name__}', one, strat, max_examples=per_class)


def _folder_replay(ctx, reg, key, cls, case):
    b = case['pdu']
    count, o, items = int.from_bytes(b[3:5], 'big'), 5, []
    for _ in range(count):
        item, o = _item_decode(b, o)
        items.append(item)
    v = {'status': avrcp.StatusCode(b[0]), 'uid_counter': int.from_bytes(b[1:3], 'big'), 'items': items}
    check_unit(ctx, reg, key, cls, b, v, v, {}, case, names=['status', 'uid_counter', 'items'])


def dedicated_for(reg: Reg) -> dict:
    if reg.name != 'avrcp_rsp':
        return {}
    out = {}
    for name, fn, rp in (('GetCapabilitiesResponse', _getcaps_run, _getcaps_replay), ('GetFolderItemsResponse', _folder_run, _folder_replay)):
        cls = getattr(avrcp, name, None)
        if cls is not None:
            out[cls] = fn
            DEDICATED_REPLAY[cls] = rp
    return out


# ---------------------------------------------------------------------------
# AV/C frames (AV/C Digital Interface Command Set General 4.1 sec. 5, Panel Subunit 1.1 sec. 9.4)
# p = {'response': 0|1, 'code': ctype/response, 'subunit_type', 'subunit_id', 'opcode', + one of
#      'operands' | ('company_id', 'data') | ('state', 'op_id', 'data')}
# ---------------------------------------------------------------------------
def avc_reference(p) -> bytes:
    if 'company_id' in p:
        operands = p['company_id'].to_bytes(3, 'big') + bytes(p['data'])
    elif 'op_id' in p:
        operands = bytes([p['state'] << 7 | p['op_id'], len(p['data'])]) + bytes(p['data'])
    else:
        operands = bytes(p['operands'])
    return bytes([p['code'], p['subunit_type'] << 3 | p['subunit_id'], p['opcode']]) + operands


def _avc_flavour(cls):
    if cls is None:
        return 'generic'
    if issubclass(cls, avc.VendorDependentFrame):
        return 'vendor'
    if issubclass(cls, avc.PassThroughFrame):
        return 'passthrough'
    raise HarnessError(f'AV/C frame class {cls.__name__} has no dedicated strategy')


def avc_fields(frame):
    code = frame.response if isinstance(frame, avc.ResponseFrame) else frame.ctype
    out = {'response': int(isinstance(frame, avc.ResponseFrame)), 'code': int(code), 'subunit_type': int(frame.subunit_type),
           'subunit_id': int(frame.subunit_id), 'opcode': int(frame.opcode)}
    if isinstance(frame, avc.VendorDependentFrame):
        out.update(company_id=frame.company_id, data=bytes(frame.vendor_dependent_data))
    elif isinstance(frame, avc.PassThroughFrame):
        out.update(state=int(frame.state_flag), op_id=int(frame.operation_id), data=bytes(frame.operation_data))
    else:
        out.update(operands=bytes(frame.operands))
    return out


def avc_build(p):
    resp = bool(p['response'])
    base = avc.ResponseFrame if resp else avc.CommandFrame
    code = avc.ResponseFrame.ResponseCode(p['code']) if resp else avc.CommandFrame.CommandType(p['code'])
    cls = base.subclasses.get(avc.Frame.OperationCode(p['opcode']))
    su = avc.Frame.SubunitType(p['subunit_type'])
    if 'company_id' in p:
        return cls(code, su, p['subunit_id'], p['company_id'], bytes(p['data']))
    if 'op_id' in p:
        return cls(code, su, p['subunit_id'], avc.PassThroughFrame.StateFlag(p['state']), avc.PassThroughFrame.OperationId(p['op_id']), bytes(p['data']))
    return base(code, su, p['subunit_id'], avc.Frame.OperationCode(p['opcode']), bytes(p['operands']))


def check_avc(ctx, p) -> None:
    p = {k: v for k, v in p.items() if k != 'kind'}
    case = dict(p, kind='avc')
    wire = avc_reference(p)
    flavour = 'vendor' if 'company_id' in p else 'passthrough' if 'op_id' in p else 'generic'
    site = f"avc/{'response' if p['response'] else 'command'}/{flavour}"
    want = {k: (bytes(v) if isinstance(v, (bytes, bytearray)) else v) for k, v in p.items()}
    restore_registries()
    try:
        built = bytes(avc_build(p))
    except Exception as e:
        ctx.fail(f'encode_raises/{site}/{type(e).__name__}', repr(e), case)
        return
    two_sided(ctx, site, wire, built, make_clauses(ctx, site, case, wire, avc.Frame.from_bytes, avc_fields, want, lambda o: avc_build(avc_fields(o))))


def run_avc(ctx, n) -> dict:
    subunit_types = [int(x) for x in avc.Frame.SubunitType if x != avc.Frame.SubunitType.EXTENDED]
    ctx.notes.append('AV/C: extended subunit types (0x1E) and extended subunit IDs (5) are excluded: avc.Frame documents them as '
                     'not supported ("TODO: support extended subunit types and ids", NotImplementedError on parse)')
    covered = {}
    for resp, base, codes in ((0, avc.CommandFrame, list(range(0, 8))), (1, avc.ResponseFrame, [8, 9, 10, 11, 12, 13, 15])):
        common = st.fixed_dictionaries({
            'response': st.just(resp), 'code': st.sampled_from(codes), 'subunit_type': st.sampled_from(subunit_types),
            'subunit_id': st.sampled_from([0, 1, 2, 3, 4, 7]),
        })
        for opcode, cls in sorted(base.subclasses.items(), key=lambda kv: int(kv[0])):
            flavour = _avc_flavour(cls)
            if flavour == 'vendor':
                extra = st.fixed_dictionaries({'company_id': st.one_of(st.sampled_from([0, 0x001958, 0xFFFFFF]), st.integers(0, 0xFFFFFF)),
                                               'data': st.binary(max_size=16)})
            else:
                extra = st.fixed_dictionaries({'state': st.integers(0, 1),
                                               'op_id': st.one_of(st.sampled_from([0x00, 0x41, 0x44, 0x7E, 0x7F]), st.integers(0, 0x7F)),
                                               'data': st.one_of(st.just(b''), st.binary(min_size=1, max_size=8), st.binary(min_size=255, max_size=255))})
            strat = st.tuples(common, extra).map(lambda t, opcode=opcode: dict(t[0], opcode=int(opcode), **t[1]))

            def one(p, cls=cls, flavour=flavour):
                check_avc(ctx, p)
                labels = {'avc', f'avc:{flavour}'}
                if flavour == 'passthrough' and p['data']:
                    labels.add('avc:passthrough_data')
                ctx.case(('avc', avc_reference(p)), True, labels, sample={'class': cls.__name__, 'frame': avc_reference(p)[:32].hex()})

            ctx.hyp(f'avc/{cls.__name__}', one, strat, max_examples=n)
            covered[cls.__name__] = 1
        known = {int(k) for k in base.subclasses}
        generic = st.tuples(common, st.sampled_from([int(o) for o in avc.Frame.OperationCode if int(o) not in known] + [0x55]),
                            st.binary(max_size=12)).map(lambda t: dict(t[0], opcode=t[1], operands=t[2]))

        def one_generic(p):
            check_avc(ctx, p)
            ctx.case(('avc', avc_reference(p)), True, {'avc', 'avc:generic'}, sample={'frame': avc_reference(p)[:32].hex()})

        ctx.hyp(f'avc/generic{resp}', one_generic, generic, max_examples=n)
    return covered


# ---------------------------------------------------------------------------
# generic oracle for hand-written codecs
# ---------------------------------------------------------------------------
def perturb(obj) -> bool:
    """Edits a parsed object in place the way an application does before it forwards or answers (public attributes and
    list/dict members only; best effort, errors ignored). Used for the history clause: what is done to one parsed
    value must not show in the next parse of the same bytes."""
    changed = False
    try:
        members = list(vars(obj).items())
    except TypeError:
        members = []
    for k, v in members:
        if k.startswith('__'):
            continue
        try:
            if isinstance(v, list):
                if v:
                    v.append(v[0])
                    del v[0]
                    v.pop()
                    v.clear()
                else:
                    v.append(0)
            elif isinstance(v, dict):
                if v:
                    v.clear()
                else:
                    v[0] = 0
            elif isinstance(v, bytearray):
                v.extend(b'\x5a')
            elif isinstance(v, (bytes, bool)) or v is None:
                continue
            elif isinstance(v, int) and not k.startswith('_'):
                setattr(obj, k, int(v) ^ 1)
            else:
                continue
            changed = True
        except Exception:  # noqa: BLE001 - frozen / read-only members: nothing to perturb there
            pass
    return changed


def parse_again_after_edit(parse, ser, parsed, data: bytes):
    """None if a second parse of `data`, made after the first parsed object was edited, serialises to `data` again;
    else what it serialises to (or the exception)."""
    if not perturb(parsed):
        return None
    try:
        return None if (out := ser(parse(data))) == data else out
    except Exception as e:  # noqa: BLE001
        return e


def make_clauses(ctx, site, case, wire, parse, view, want, rebuild, ser=bytes, eq_obj=None, cmp=None):
    """Returns clauses(data, own, compare): parse `data`, compare its view with `want` (when compare), then require the
    parsed object and a fresh object rebuilt from it to serialise back to `data`.  own=True means `data` is what bumble
    emitted for the generated values and differs from the reference: every failure is then a self-inconsistency, filed
    under encode/<site>."""

    def clauses(data: bytes, own: bool, compare: bool) -> bool:
        what = f'its own serialisation {data[:40].hex()} (reference {wire[:40].hex()})' if own else data[:40].hex()

        def fail(sig, msg):
            ctx.fail(f'encode/{site}' if own else sig, msg, case)
            return False

        try:
            parsed = parse(data)
            got = view(parsed)
        except Exception as e:
            return fail(f'decode_raises/{site}/{type(e).__name__}', f'parsing well-formed {what} raised {e!r}')
        if compare:
            if got != want:
                return fail((cmp(got, want) if cmp else None) or f'decode_fields/{site}', f'{what} parsed as {got!r:.200}, expected {want!r:.200}')
            if eq_obj is not None:
                try:
                    same = bool(parsed == eq_obj)
                except Exception as e:
                    return fail(f'eq_raises/{site}/{type(e).__name__}', repr(e))
                if not same:
                    return fail(f'eq/{site}', 'value parsed from its own serialisation does not compare equal to the original')
        try:
            again = ser(parsed)
            rebuilt = ser(rebuild(parsed))
        except Exception as e:
            return fail(f'reencode_raises/{site}/{type(e).__name__}', repr(e))
        if again != data:
            return fail(f'reencode_parsed/{site}', f'unit parsed from {what} serialises to {again[:40].hex()}')
        if rebuilt != data:
            return fail(f'reencode/{site}', f'unit parsed from {what} and rebuilt from its fields serialises to {rebuilt[:40].hex()}')
        bad = parse_again_after_edit(parse, ser, parsed, data)
        if bad is not None:
            return fail(f'parse_again_after_edit/{site}', f'{what} parsed a second time, after the first parsed object was edited in place, '
                        f'gives {bad[:40].hex() if isinstance(bad, bytes) else repr(bad)}')
        ctx.label('parsed_twice_with_edit')
        return True

    return clauses


def two_sided(ctx, site, wire, built, clauses) -> bool:
    """The reference-encoding clause: bumble's bytes for the values either equal the reference, or bumble must at least be
    self-consistent for them (then only counted as a layout deviation); the reference bytes must always parse and
    re-serialise unchanged, and parse to the generated values unless the layouts differ."""
    deviates = built != wire
    if deviates:
        if not clauses(built, True, True):
            return False
        layout_deviation(ctx, site)
    return clauses(wire, False, not deviates)


def roundtrip(ctx, site, case, wire, build, parse, fields, want, rebuild, eq=False) -> bool:
    """build() -> object from generated values; parse(wire) -> object; fields(obj) -> comparable;
    want = the generated values in the same comparable form; rebuild(parsed) -> fresh object."""
    restore_registries()
    try:
        obj = build()
        built = bytes(obj)
    except Exception as e:
        ctx.fail(f'encode_raises/{site}/{type(e).__name__}', f'building from in-range values raised {e!r}', case)
        return False
    return two_sided(ctx, site, wire, built, make_clauses(ctx, site, case, wire, parse, fields, want, rebuild, eq_obj=obj if eq else None))


# ---------------------------------------------------------------------------
# ERTM enhanced control field (Core Vol 3 Part A 3.3.2, Table 3.2 / Figure 3.4)
# ---------------------------------------------------------------------------
def ertm_reference(p) -> bytes:
    if p['frame'] == 'I':
        w = p['tx_seq'] << 1 | p['final'] << 7 | p['req_seq'] << 8 | p['sar'] << 14
    else:
        w = 1 | p['s'] << 2 | p['poll'] << 4 | p['final'] << 7 | p['req_seq'] << 8
    return w.to_bytes(2, 'little')


def check_ertm(ctx, p) -> None:
    case = dict(p, kind='ertm')
    wire = ertm_reference(p)
    if p['frame'] == 'I':
        cls = l2cap.InformationEnhancedControlField
        kw = dict(tx_seq=p['tx_seq'], sar=p['sar'], req_seq=p['req_seq'], final=p['final'])
        names = ('tx_seq', 'sar', 'req_seq', 'final')
    else:
        cls = l2cap.SupervisoryEnhancedControlField
        kw = dict(supervision_function=p['s'], poll=p['poll'], req_seq=p['req_seq'], final=p['final'])
        names = ('supervision_function', 'poll', 'req_seq', 'final')
    roundtrip(
        ctx, f'ertm/{cls.__name__}', case, wire,
        build=lambda: cls(**kw),
        parse=l2cap.EnhancedControlField.from_bytes,
        fields=lambda o: (type(o).__name__,) + tuple(int(getattr(o, n)) for n in names),
        want=(cls.__name__,) + tuple(kw[n] for n in names),
        rebuild=lambda o: type(o)(**{n: getattr(o, n) for n in names}),
        eq=True,
    )


def run_ertm(ctx, n) -> None:
    seq = st.one_of(st.sampled_from([0, 1, 31, 32, 63]), st.integers(0, 63))
    i_frames = st.fixed_dictionaries({'frame': st.just('I'), 'tx_seq': seq, 'req_seq': seq, 'sar': st.integers(0, 3), 'final': st.integers(0, 1)})
    s_frames = st.fixed_dictionaries({'frame': st.just('S'), 's': st.integers(0, 3), 'req_seq': seq,
                                      'pf': st.sampled_from([(0, 0), (1, 0), (0, 1)])}).map(
        lambda d: {'frame': 'S', 's': d['s'], 'req_seq': d['req_seq'], 'poll': d['pf'][0], 'final': d['pf'][1]})

    def one(p):
        check_ertm(ctx, p)
        labels = {'ertm', 'ertm_' + p['frame'].lower()}
        if p['final']:
            labels.add('ertm_final')
        if p.get('poll'):
            labels.add('ertm_s_poll')
        if p['frame'] == 'I':
            labels.add(f"ertm_sar{p['sar']}")
        ctx.case(('ertm', ertm_reference(p)), any(ertm_reference(p)), labels, sample=dict(p, wire=ertm_reference(p).hex()))

    ctx.hyp('ertm/I', one, i_frames, max_examples=n)
    ctx.hyp('ertm/S', one, s_frames, max_examples=n)


# ---------------------------------------------------------------------------
# L2CAP PSM (Core Vol 3 Part A 4.2: little-endian, every octet but the last odd, last octet even)
# ---------------------------------------------------------------------------
def check_psm(ctx, p) -> None:
    wire = bytes(p['octets'])
    case = {'kind': 'psm', 'octets': wire}
    value = int.from_bytes(wire, 'little')
    site = 'psm'
    C = l2cap.L2CAP_Connection_Request
    try:
        built = C.serialize_psm(value)
    except Exception as e:
        ctx.fail(f'encode_raises/{site}/{type(e).__name__}', repr(e), case)
        return

    def parse(d):
        end, got = C.parse_psm(b'\x99' + d + b'\x40\x00', 1)
        return got, end == 1 + len(d)

    two_sided(ctx, site, wire, built, make_clauses(ctx, site, case, wire, parse, lambda t: t, (value, True), lambda t: t, ser=lambda t: C.serialize_psm(t[0])))


def run_psm(ctx, n) -> None:
    odd = st.integers(0, 127).map(lambda x: 2 * x + 1)
    even = st.integers(0, 127).map(lambda x: 2 * x)
    strat = st.integers(2, 4).flatmap(lambda k: st.tuples(st.lists(odd, min_size=k - 1, max_size=k - 1), even)).map(lambda t: bytes(t[0] + [t[1]]))

    def one(octets):
        check_psm(ctx, {'octets': octets})
        labels = {'psm', f'psm_len{len(octets)}'}
        if len(octets) > 2 and octets[-1] == 0:
            labels.add('psm_top_zero')
        ctx.case(('psm', octets), True, labels, sample={'psm': octets.hex()})

    ctx.hyp('psm', one, strat, max_examples=n)


# ---------------------------------------------------------------------------
# L2CAP basic frame header (Core Vol 3 Part A 3.1 / 3.3: length, channel ID, payload[, FCS]) and the configuration
# options carried by Configure Request / Response (Part A 5: type, length, value; bit 7 of the type = hint)
# ---------------------------------------------------------------------------
def ref_crc16(data: bytes) -> int:
    """Part A 3.3.5: g(D) = D^16 + D^15 + D^2 + 1, LFSR preset 0, least significant bit first."""
    crc = 0
    for b in data:
        crc ^= b
        for _ in range(8):
            crc = (crc >> 1) ^ 0xA001 if crc & 1 else crc >> 1
    return crc


if ref_crc16(bytes.fromhex('0E0040000200000102030405060708 09'.replace(' ', ''))) != 0x6138:  # the specification's own example
    raise HarnessError('reference CRC-16 does not reproduce the example of Core Vol 3 Part A 3.3.5')


def check_l2cap_pdu(ctx, p) -> None:
    cid, payload = int(p['cid']), bytes(p['payload'])
    case = {'kind': 'l2cap_pdu', 'cid': cid, 'payload': payload}
    P = l2cap.L2CAP_PDU
    plain = len(payload).to_bytes(2, 'little') + cid.to_bytes(2, 'little') + payload
    roundtrip(
        ctx, 'L2CAP_PDU', case, plain,
        build=lambda: P(cid, payload),
        parse=P.from_bytes,
        fields=lambda o: (int(o.cid), bytes(o.payload)),
        want=(cid, payload),
        rebuild=lambda o: P(o.cid, o.payload),
    )
    if len(payload) > 65533:
        return
    # with a frame check sequence: the length field counts it, the FCS covers header + payload
    head = (len(payload) + 2).to_bytes(2, 'little') + cid.to_bytes(2, 'little') + payload
    with_fcs = head + ref_crc16(head).to_bytes(2, 'little')
    try:
        built = P(cid, payload).to_bytes(with_fcs=True)
        parsed = P.from_bytes(with_fcs)
        again = bytes(parsed)
        got = (int(parsed.cid), bytes(parsed.payload))
    except Exception as e:
        ctx.fail(f'raises/L2CAP_PDU/fcs/{type(e).__name__}', repr(e), case)
        return
    if built != with_fcs:
        ctx.fail('encode/L2CAP_PDU/fcs', f'frame with FCS serialises to {built[:24].hex()}..{built[-4:].hex()}, reference {with_fcs[:24].hex()}..{with_fcs[-4:].hex()}', case)
    elif got not in ((cid, payload), (cid, with_fcs[4:])):  # the FCS may be left in the payload for the channel to check
        ctx.fail('decode_fields/L2CAP_PDU/fcs', f'{with_fcs[:24].hex()}.. parsed as cid {got[0]} payload {got[1][:24].hex()}.. ({len(got[1])} bytes)', case)
    elif again != with_fcs and again != plain:
        ctx.fail('reencode_parsed/L2CAP_PDU/fcs', f'{with_fcs[:24].hex()}.. re-serialises to {again[:24].hex()}.. ({len(again)} bytes)', case)


def check_l2cap_options(ctx, p) -> None:
    options = [(int(t), bytes(v)) for t, v in p['options']]
    case = {'kind': 'l2cap_options', 'options': [[t, v] for t, v in options]}
    wire = b''.join(bytes([t, len(v)]) + v for t, v in options)
    F = l2cap.L2CAP_Control_Frame
    site = 'l2cap_options'
    try:
        built = F.encode_configuration_options(options)
    except Exception as e:
        ctx.fail(f'encode_raises/{site}/{type(e).__name__}', repr(e), case)
        return
    two_sided(ctx, site, wire, built, make_clauses(
        ctx, site, case, wire, F.decode_configuration_options, lambda opts: [(int(t), bytes(v)) for t, v in opts], options,
        lambda opts: [(int(t), bytes(v)) for t, v in opts], ser=F.encode_configuration_options))
    # and inside the signalling frame that carries them
    for cls_name, kw in (('L2CAP_Configure_Request', {'destination_cid': 0x0041, 'flags': 0}),
                         ('L2CAP_Configure_Response', {'source_cid': 0x0040, 'flags': 0, 'result': 0})):
        cls = getattr(l2cap, cls_name, None)
        if cls is None or set(specgen.flat_names(cls.fields)) != set(kw) | {'options'}:
            continue
        try:
            frame = bytes(cls(identifier=7, options=built, **kw))
            back = F.decode_configuration_options(F.from_bytes(frame).options)
        except Exception as e:
            ctx.fail(f'raises/{site}/{cls_name}/{type(e).__name__}', repr(e), case)
            return
        if [(int(t), bytes(v)) for t, v in back] != options:
            ctx.fail(f'decode_fields/{site}/{cls_name}', f'options {wire[:32].hex()} inside {cls_name} read back as {back!r:.160}', case)
            return


L2CAP_OPTION_SIZES = {1: 2, 2: 2, 3: 22, 4: 9, 5: 1, 6: 16, 7: 2}  # Part A 5.1 - 5.7


def run_l2cap_basic(ctx, n) -> None:
    def one_pdu(d):
        cid, payload = d
        check_l2cap_pdu(ctx, {'cid': cid, 'payload': payload})
        k = len(payload)
        ctx.case(('l2pdu', cid, payload), True, {'l2cap_pdu', f"l2cap_pdu_len:{k if k in (0, 1, 255, 256, 65533, 65535) else 'other'}"},
                 sample={'cid': cid, 'len': k, 'payload': payload[:16].hex()})

    cids = st.one_of(st.sampled_from([0x0001, 0x0004, 0x0005, 0x0040, 0xFFFF]), specgen.uint(2))
    ctx.hyp('l2cap_pdu', one_pdu, st.tuples(cids, st.one_of(st.binary(max_size=48), st.sampled_from([255, 256, 257]).flatmap(lambda k: st.binary(min_size=k, max_size=k)))),
            max_examples=n)
    for k in (0, 1, 254, 255, 256, 65533, 65534, 65535):  # every shard: the family is tiny and its labels have floors
        one_pdu((0x0040 + (k & 7), bytes((j * 5 + k) & 0xFF for j in range(k))))

    option = st.one_of(
        st.tuples(st.sampled_from(sorted(L2CAP_OPTION_SIZES)), st.booleans()).flatmap(
            lambda t: st.binary(min_size=L2CAP_OPTION_SIZES[t[0]], max_size=L2CAP_OPTION_SIZES[t[0]]).map(lambda v: [t[0] | (0x80 if t[1] else 0), v])),
        st.tuples(st.sampled_from([0x08, 0x7F, 0x88, 0xFF]), st.one_of(st.binary(max_size=6), st.binary(min_size=255, max_size=255))).map(list),
    )

    def one_opts(options):
        check_l2cap_options(ctx, {'options': options})
        labels = {'l2cap_options', f'l2cap_options:{min(len(options), 3)}'}
        if any(t & 0x80 for t, _ in options):
            labels.add('l2cap_options:hint')
        if any(len(v) == 0 for _, v in options):
            labels.add('l2cap_options:empty_value')
        ctx.case(('l2opt', options), bool(options), labels, sample={'options': [[t, v[:8].hex()] for t, v in options]})

    ctx.hyp('l2cap_options', one_opts, st.lists(option, max_size=5), max_examples=n)


# ---------------------------------------------------------------------------
# SDP data elements
# ---------------------------------------------------------------------------
def _tree_flags(tree, acc):
    k = tree[0]
    if k in ('uint', 'sint') and tree[1] == 16:
        acc.add('int128')
    if k in ('text', 'seq', 'alt', 'url') and len(tree) > 2:
        acc.add('forced')
    if k in ('seq', 'alt'):
        for c in tree[1]:
            _tree_flags(c, acc)
    return acc


def check_element(ctx, p) -> None:
    restore_registries()
    tree = p['tree']
    case = {'kind': 'sdp_element', 'tree': tree}
    wire = de_encode(tree)
    flags = _tree_flags(tree, set())
    site = 'DataElement' + ('/int128' if 'int128' in flags else '')
    want = de_norm(tree)
    built, built_obj = wire, None
    if 'forced' not in flags:
        try:
            built_obj = de_build(tree)
            built = bytes(built_obj)
        except Exception as e:
            ctx.fail(f'encode_raises/{site}/{type(e).__name__}', f'building {describe_tree(tree)} raised {e!r}', case)
            return
    plain = _strip_forced(tree)

    def clauses(data: bytes, own: bool, compare: bool) -> bool:
        what = (f'its own serialisation {data[:24].hex()}.. ({len(data)} bytes; reference {wire[:24].hex()}.., {len(wire)} bytes)' if own
                else f'{data[:24].hex()}.. ({len(data)} bytes)')

        def fail(sig, msg):
            ctx.fail(f'encode/{site}' if own else sig, msg, case)
            return False

        try:
            end, parsed = sdp.DataElement.parse_from_bytes(b'\x00' + data + b'\x08\x00', 1)
            got = de_tree(parsed)
            got_n = de_tree(parsed, norm=True)
        except Exception as e:
            return fail(f'decode_raises/{site}/{type(e).__name__}', f'parsing well-formed {describe_tree(tree)} ({what}) raised {e!r}')
        if end != 1 + len(data):
            return fail(f'decode_length/{site}', f'element of {len(data)} bytes consumed {end - 1}')
        if compare:
            if _freeze(got_n) != _freeze(want):
                return fail(f'decode_fields/{site}', f'{describe_tree(tree)} ({what}) parsed as {describe_tree(got)}')
            if _freeze(got) != _freeze(plain):
                return fail('uuid_width/DataElement', f'UUID inside {describe_tree(tree)} parsed with another width: {describe_tree(got)}')
            if built_obj is not None and own_eq(sdp.DataElement):
                try:
                    same = bool(parsed == built_obj) and bool(built_obj == parsed)
                except Exception as e:
                    return fail(f'eq_raises/{site}/{type(e).__name__}', f'comparing a parsed {describe_tree(tree)} with the constructed one raised {e!r}')
                if not same:
                    return fail(f'eq/{site}', f'{describe_tree(tree)} parsed from {what} does not compare equal to the element it was serialised from')
        try:
            again = bytes(parsed)
            rebuilt = bytes(fresh(parsed))
        except Exception as e:
            return fail(f'reencode_raises/{site}/{type(e).__name__}', repr(e))
        if again != data:
            return fail(f'reencode_parsed/{site}', f'element parsed from {what} serialises to {again[:24].hex()}..')
        if 'forced' not in flags and rebuilt != data:
            return fail(f'reencode/{site}', f'element parsed from {what} and rebuilt from its fields serialises to {rebuilt[:24].hex()}.. ({len(rebuilt)} bytes)')
        return True

    two_sided(ctx, site, wire, built, clauses)


def _strip_forced(tree):
    k = tree[0]
    if k in ('seq', 'alt'):
        return [k, [_strip_forced(c) for c in tree[1]]]
    if k == 'text':
        return ['text', bytes(tree[1])]
    if k == 'uuid':
        return ['uuid', bytes(tree[1])]
    return list(tree[:3]) if k in ('uint', 'sint') else list(tree[:2])


def describe_tree(tree, depth=0) -> str:
    k = tree[0]
    if k in ('seq', 'alt'):
        if depth > 2:
            return f'{k}[..]'
        return f'{k}[' + ','.join(describe_tree(c, depth + 1) for c in tree[1][:4]) + (',..' if len(tree[1]) > 4 else '') + ']'
    if k in ('text', 'uuid'):
        b = bytes(tree[1])
        return f'{k}({len(b)}:{b[:4].hex()})'
    if k == 'url':
        return f'url({len(tree[1])})'
    return f'{k}{tuple(tree[1:])}'


def nest(tree, depth, kinds=('seq',)):
    for i in range(depth):
        tree = [kinds[i % len(kinds)], [tree]]
    return tree


def run_elements(ctx, n) -> None:
    def one(tree):
        check_element(ctx, {'tree': tree})
        wire = de_encode(tree)
        labels = {'sdp_elem', f'sdp_depth:{min(de_depth(tree), 20)}', f'sdp_idx:{wire[0] & 7}'} | {'sdp_type:' + k for k in _DE_TYPES if de_has(tree, k)}
        if de_has(tree, 'uuid'):
            labels.add('sdp_has_uuid')
        ctx.case(('de', wire), wire != b'\x00', labels, sample={'element': describe_tree(tree), 'wire': wire[:32].hex(), 'len': len(wire)})

    # all types / size descriptors, small trees
    ctx.hyp('sdp_elem/small', one, de_small(), max_examples=n)
    ctx.hyp('sdp_elem/int128', one, st.one_of(_int_for(16, False).map(lambda v: ['uint', 16, v]), _int_for(16, True).map(lambda v: ['sint', 16, v])),
            max_examples=max(4, n // 10))
    # nesting 0..20, alternating sequence / alternative
    deep = st.tuples(de_leaf(), st.integers(0, 20), st.sampled_from([('seq',), ('alt',), ('seq', 'alt')])).map(lambda t: nest(t[0], t[1], t[2]))
    ctx.hyp('sdp_elem/deep', one, deep, max_examples=max(21, n // 2))
    # wide shapes: many children, among them many (empty) containers, followed by a nested container - any state the
    # parser keeps per container (depth accounting) must be balanced over siblings, not only along one chain
    def wide_tree(t):
        k, empties, kinds, leaf, depth, bushy = t
        children = []
        for i in range(k):
            children.append([kinds[i % len(kinds)], []] if i < empties else ([kinds[i % len(kinds)], [leaf]] if i % 3 == 0 else leaf))
        tail = leaf
        for i in range(depth):  # a chain in which every level has siblings in front of the nested container
            tail = [kinds[i % len(kinds)], ([['nil'], leaf] if bushy else []) + [tail]]
        return ['seq', children + [tail]]

    wide = st.tuples(st.integers(0, 70), st.integers(0, 70), st.sampled_from([('seq',), ('alt',), ('seq', 'alt')]), de_leaf(),
                     st.integers(0, 20), st.booleans()).map(lambda t: wide_tree((t[0], min(t[0], t[1]), t[2], t[3], t[4], t[5])))

    def one_wide(tree):
        one(tree)
        ctx.label('sdp_wide')
        if sum(1 for c in tree[1] if c[0] in ('seq', 'alt') and not c[1]) >= 31:
            ctx.label('sdp_wide:31+empty_containers')

    ctx.hyp('sdp_elem/wide', one_wide, wide, max_examples=max(30, n // 3))
    # size boundaries: plain python loop (exhaustive over the named sizes x variable-length types)
    cases = []
    for size in SDP_BOUNDARY_SIZES + (2, 254, 257, 65534, 65537):
        cases.append(('text', size, ['text', bytes([0x41 + size % 23]) * size]))
        cases.append(('url', size, ['url', chr(0x61 + size % 23) * size]))
        cases.append(('seq', size, ['seq', de_filler(size)]))
        cases.append(('alt', size, ['alt', de_filler(size)]))
        cases.append(('nested', size, ['seq', [['uint', 1, 7], ['seq', de_filler(size)]]]))
    for i, (kind, size, tree) in enumerate(cases):
        if i % ctx.nshards != ctx.shard:
            continue
        if kind in ('seq', 'alt') and sum(len(de_encode(c)) for c in tree[1]) != size:
            raise HarnessError(f'filler for {size} is {sum(len(de_encode(c)) for c in tree[1])} bytes')
        check_element(ctx, {'tree': tree})
        wire = de_encode(tree)
        labels = {'sdp_elem', f'sdp_size:{size}', f'sdp_size:{size}:{kind}', f'sdp_idx:{wire[0] & 7}'}
        ctx.case(('de', kind, size), size > 0, labels, sample={'element': describe_tree(tree), 'len': len(wire)})
    # non-minimal size descriptors: only bytes(parsed) has to reproduce the input
    forced = st.tuples(st.sampled_from(['text', 'seq', 'alt', 'url']), st.sampled_from([6, 7]), st.integers(0, 5)).map(
        lambda t: [t[0], (b'ab' * t[2] if t[0] == 'text' else 'ab' * t[2] if t[0] == 'url' else [['nil']] * t[2]), t[1]])

    def one_forced(tree):
        check_element(ctx, {'tree': tree})
        ctx.case(('de', de_encode(tree)), True, {'sdp_elem', 'sdp_nonminimal_size', f'sdp_idx:{de_encode(tree)[0] & 7}'}, sample={'element': describe_tree(tree), 'wire': de_encode(tree).hex()})

    ctx.hyp('sdp_elem/forced', one_forced, forced, max_examples=max(8, n // 5))


# ---------------------------------------------------------------------------
# RFCOMM frames (RFCOMM 1.2 / TS 07.10 5.2): address, control, length (1 or 2 octets), [credits], payload, FCS
# p = {'type', 'cr', 'dlci', 'pf', 'credits': None|int, 'payload': bytes}
# ---------------------------------------------------------------------------
def ref_fcs(data: bytes) -> int:
    """TS 07.10 Annex B: CRC-8, x^8+x^2+x+1, reflected, preset 0xFF, ones complement."""
    crc = 0xFF
    for b in data:
        crc ^= b
        for _ in range(8):
            crc = (crc >> 1) ^ 0xE0 if crc & 1 else crc >> 1
    return 0xFF - crc


RF_UIH, RF_SABM, RF_UA, RF_DM, RF_DISC = 0xEF, 0x2F, 0x63, 0x0F, 0x43


def rfcomm_reference(p) -> bytes:
    addr = 1 | p['cr'] << 1 | p['dlci'] << 2
    ctrl = p['type'] | p['pf'] << 4
    n = len(p['payload'])
    length = bytes([n << 1 | 1]) if n <= 127 else bytes([(n & 0x7F) << 1, n >> 7])
    head = bytes([addr, ctrl]) + length
    body = (bytes([p['credits']]) if p['credits'] is not None else b'') + bytes(p['payload'])
    fcs = ref_fcs(head[:2]) if p['type'] == RF_UIH else ref_fcs(head)
    return head + body + bytes([fcs])


def _rf_rebuild(o):
    F = rfcomm.RFCOMM_Frame
    if o.type == rfcomm.FrameType.UIH:
        return F.uih(o.c_r, o.dlci, o.information, o.p_f)
    return F(o.type, o.c_r, o.dlci, o.p_f, o.information)


def check_rfcomm(ctx, p) -> None:
    case = dict(p, kind='rfcomm')
    wire = rfcomm_reference(p)
    info = (bytes([p['credits']]) if p['credits'] is not None else b'') + bytes(p['payload'])
    tname = {RF_UIH: 'UIH', RF_SABM: 'SABM', RF_UA: 'UA', RF_DM: 'DM', RF_DISC: 'DISC'}[p['type']]
    site = f"RFCOMM_Frame/{tname}{'+credits' if p['credits'] is not None else ''}"
    roundtrip(
        ctx, site, case, wire,
        build=lambda: rfcomm.RFCOMM_Frame(rfcomm.FrameType(p['type']), p['cr'], p['dlci'], p['pf'], info, with_credits=p['credits'] is not None),
        parse=rfcomm.RFCOMM_Frame.from_bytes,
        fields=lambda o: (int(o.type), o.c_r, o.dlci, o.p_f, bytes(o.information)),
        want=(p['type'], p['cr'], p['dlci'], p['pf'], info),
        rebuild=_rf_rebuild,
    )


RFCOMM_LENGTHS = (0, 1, 126, 127, 128, 129, 32767)


def run_rfcomm(ctx, n) -> None:
    dlci = st.one_of(st.sampled_from([0, 2, 3, 61]), st.integers(0, 61))
    ctrl = st.fixed_dictionaries({'type': st.sampled_from([RF_SABM, RF_UA, RF_DM, RF_DISC]), 'cr': st.integers(0, 1), 'dlci': dlci,
                                  'pf': st.integers(0, 1), 'credits': st.none(), 'payload': st.just(b'')})

    def one(p):
        check_rfcomm(ctx, p)
        k = len(p['payload'])
        labels = {'rfcomm', f"rfcomm_type:{p['type']:02x}", f"rfcomm_pf{p['pf']}", f"rfcomm_cr{p['cr']}"}
        if p['type'] == RF_UIH:
            labels.add(f"rfcomm_len:{k if k in RFCOMM_LENGTHS else 'other'}:{'credits' if p['credits'] is not None else 'plain'}")
        ctx.case(('rf', rfcomm_reference(p)), True, labels, sample={k2: (v.hex()[:32] if isinstance(v, bytes) else v) for k2, v in p.items()})

    ctx.hyp('rfcomm/control', one, ctrl, max_examples=n)
    # every named boundary length x with/without credit octet: plain loop
    i = 0
    for k in RFCOMM_LENGTHS + (2, 125, 130, 255, 256, 16383, 16384):
        for credits in (None, 0, 7, 255):
            for d, cr in ((2, 1), (61, 0)):
                i += 1
                if i % ctx.nshards != ctx.shard:
                    continue
                payload = bytes((j * 7 + k) & 0xFF for j in range(k))
                one({'type': RF_UIH, 'cr': cr, 'dlci': d, 'pf': 0 if credits is None else 1, 'credits': credits, 'payload': payload})
    uih = st.tuples(st.integers(0, 1), dlci, st.one_of(st.none(), specgen.uint(1)),
                    st.one_of(st.sampled_from([0, 1, 126, 127, 128, 129]), st.integers(0, 300)).flatmap(lambda k: st.binary(min_size=k, max_size=k))).map(
        lambda t: {'type': RF_UIH, 'cr': t[0], 'dlci': t[1], 'pf': 0 if t[2] is None or t[1] == 0 else 1,
                   'credits': None if t[1] == 0 else t[2], 'payload': t[3]})
    ctx.hyp('rfcomm/uih', one, uih, max_examples=n)


# ---------------------------------------------------------------------------
# RFCOMM multiplexer commands (TS 07.10 5.4.6.1 envelope; 5.4.6.3.1 PN; 5.4.6.3.7 MSC)
# ---------------------------------------------------------------------------
def check_mcc(ctx, p) -> None:
    case = dict(p, kind='mcc')
    F = rfcomm.RFCOMM_Frame
    if p['what'] == 'envelope':
        data = bytes(p['data'])
        wire = bytes([p['type'] << 2 | p['cr'] << 1 | 1, len(data) << 1 | 1]) + data
        restore_registries()
        try:
            built = F.make_mcc(p['type'], p['cr'], data)
        except Exception as e:
            ctx.fail(f'encode_raises/mcc_envelope/{type(e).__name__}', repr(e), case)
            return
        two_sided(ctx, 'mcc_envelope', wire, built, make_clauses(
            ctx, 'mcc_envelope', case, wire, F.parse_mcc, lambda t: (int(t[0]), int(t[1]), bytes(t[2])), (p['type'], p['cr'], data),
            lambda t: t, ser=lambda t: F.make_mcc(t[0], int(t[1]), t[2])))
        return
    if p['what'] == 'pn':
        names = ('dlci', 'cl', 'priority', 'ack_timer', 'max_frame_size', 'max_retransmissions', 'initial_credits')
        wire = bytes([p['dlci'], p['cl'], p['priority'], p['ack_timer']]) + p['max_frame_size'].to_bytes(2, 'little') + bytes([p['max_retransmissions'], p['initial_credits']])
        cls = rfcomm.RFCOMM_MCC_PN
        site = 'RFCOMM_MCC_PN'
    else:
        names = ('dlci', 'fc', 'rtc', 'rtr', 'ic', 'dv')
        wire = bytes([p['dlci'] << 2 | 3, 1 | p['fc'] << 1 | p['rtc'] << 2 | p['rtr'] << 3 | p['ic'] << 6 | p['dv'] << 7])
        cls = rfcomm.RFCOMM_MCC_MSC
        site = 'RFCOMM_MCC_MSC'
        if p.get('brk') is not None:
            # optional break-signal octet (TS 07.10 5.4.6.3.7): EA=1, B1 = break, L1..L4 = length
            wire += bytes([p['brk']])
            site += '/break'
    if p.get('brk') is not None:
        restore_registries()
        try:
            parsed = cls.from_bytes(wire)
            again = bytes(parsed)
        except Exception as e:
            ctx.fail(f'decode_raises/{site}/{type(e).__name__}', repr(e), case)
            return
        if again != wire:
            ctx.fail(f'reencode_parsed/{site}', f'MSC with break octet {wire.hex()} re-serialises to {again.hex()}', case)
        return
    roundtrip(
        ctx, site, case, wire,
        build=lambda: cls(**{n: p[n] for n in names}),
        parse=cls.from_bytes,
        fields=lambda o: tuple(int(getattr(o, n)) for n in names),
        want=tuple(p[n] for n in names),
        rebuild=lambda o: cls(**{n: getattr(o, n) for n in names}),
        eq=True,
    )


def run_mcc(ctx, n) -> None:
    bit = st.integers(0, 1)
    env = st.fixed_dictionaries({'what': st.just('envelope'), 'type': st.one_of(st.sampled_from([0x20, 0x38, 0x08, 0x24, 0x14, 0x04]), st.integers(0, 0x3F)),
                                 'cr': bit, 'data': st.one_of(st.sampled_from([0, 1, 2, 8, 126, 127]), st.integers(0, 127)).flatmap(lambda k: st.binary(min_size=k, max_size=k))})
    pn = st.fixed_dictionaries({'what': st.just('pn'), 'dlci': st.integers(0, 61), 'cl': st.sampled_from([0x00, 0xF0, 0xE0]), 'priority': st.integers(0, 63),
                                'ack_timer': specgen.uint(1), 'max_frame_size': specgen.uint(2), 'max_retransmissions': specgen.uint(1),
                                'initial_credits': st.integers(0, 7)})
    msc = st.fixed_dictionaries({'what': st.just('msc'), 'dlci': st.integers(0, 61), 'fc': bit, 'rtc': bit, 'rtr': bit, 'ic': bit, 'dv': bit,
                                 'brk': st.one_of(st.none(), st.none(), st.none(), st.tuples(bit, st.integers(0, 15)).map(lambda t: 1 | t[0] << 1 | t[1] << 4))})

    def one(p):
        check_mcc(ctx, p)
        labels = {'mcc', 'mcc_' + p['what']}
        if p.get('brk') is not None:
            labels.add('mcc_msc_break')
        ctx.case(('mcc', sorted((k, v.hex() if isinstance(v, bytes) else v) for k, v in p.items())), True, labels,
                 sample={k: (v.hex()[:32] if isinstance(v, bytes) else v) for k, v in p.items()})

    ctx.notes.append('RFCOMM MCC envelope: value lengths > 127 (multi-octet length form) are not generated; Bumble only builds/accepts the '
                     'one-octet form and the harness does not assert the extended form')
    for name, s in (('envelope', env), ('pn', pn), ('msc', msc)):
        ctx.hyp('mcc/' + name, one, s, max_examples=n)


# ---------------------------------------------------------------------------
# AVDTP service capabilities / media codec information, standalone
# ---------------------------------------------------------------------------
def check_caps(ctx, p) -> None:
    restore_registries()
    caps = p['caps']
    case = {'kind': 'caps', 'caps': caps}
    wire = b''.join(cap_encode(c) for c in caps)
    site = 'ServiceCapabilities'
    if any(c[0] == 'codec' and c[3][0] == 'raw' for c in caps):
        site += '/other_codec_type'
    elif any(c[0] == 'codec' and c[1] != 0 for c in caps):
        site += '/media_type'
    want = _freeze([_strip(c) for c in caps])
    SC = avdtp.ServiceCapabilities
    try:
        objs = [cap_build(c) for c in caps]
        built = SC.serialize_capabilities(objs)
    except Exception as e:
        ctx.fail(f'encode_raises/{site}/{type(e).__name__}', f'building capabilities {caps!r:.160} raised {e!r}', case)
        return
    if not two_sided(ctx, site, wire, built, make_clauses(
            ctx, site, case, wire, SC.parse_capabilities, lambda objs: _freeze([cap_tree(o) for o in objs]), want,
            lambda objs: [fresh(o) for o in objs], ser=SC.serialize_capabilities)):
        return
    # codec information objects on their own
    for c in caps:
        if c[0] != 'codec' or c[3][0] == 'raw':
            continue
        ref = info_encode(c[3])
        try:
            obj = a2dp.MediaCodecInformation.create(c[2], ref)
            out = bytes(obj)
        except Exception as e:
            ctx.fail(f'decode_raises/MediaCodecInformation/{c[3][0]}/{type(e).__name__}', repr(e), case)
            return
        if out != ref or _freeze(info_tree(obj)) != _freeze(_strip_info(c[3])):
            ctx.fail(f'reencode/MediaCodecInformation/{c[3][0]}', f'{ref.hex()} -> {out.hex()}', case)
            return


def _strip_info(info):
    return [bytes(x) if isinstance(x, (bytes, bytearray)) else x for x in info]


def _strip(cap):
    if cap[0] == 'generic':
        return ['generic', cap[1], bytes(cap[2])]
    return ['codec', cap[1], cap[2], _strip_info(cap[3])]


def run_caps(ctx, n) -> None:
    def one(caps):
        check_caps(ctx, {'caps': caps})
        labels = {'caps'} | {('codec:' + c[3][0]) if c[0] == 'codec' else 'caps_generic' for c in caps}
        if any(c[0] == 'codec' and c[1] != 0 for c in caps):
            labels.add('caps_media_type_nonzero')
        ctx.case(('caps', b''.join(cap_encode(c) for c in caps)), bool(caps), labels, sample={'caps': b''.join(cap_encode(c) for c in caps).hex()})

    ctx.hyp('caps', one, caps_list(4, plain=True), max_examples=n)
    ctx.hyp('caps/codec', one, st.lists(codec_cap(plain=True), min_size=1, max_size=1), max_examples=n)
    # the two classes kept apart so each root cause has its own bucket: non-audio media types, codec types without a class
    mt = st.tuples(st.sampled_from([1, 2]), codec_cap(plain=True)).map(lambda t: [['codec', t[0], t[1][2], t[1][3]]])
    ctx.hyp('caps/media_type', one, mt, max_examples=max(5, n // 4))
    other = st.tuples(st.sampled_from([0x01, 0x04]), st.binary(min_size=1, max_size=6), st.lists(generic_cap(), max_size=1)).map(
        lambda t: t[2] + [['codec', 0, t[0], ['raw', t[1]]]])
    ctx.hyp('caps/other_codec_type', one, other, max_examples=max(5, n // 4))


# ---------------------------------------------------------------------------
# AVDTP signalling messages the specification defines but for which no class is registered: Message.create() falls back
# to Simple_Reject (any RESPONSE_REJECT) or a bare Message.  Specification-defined and not registered today:
# Stream End Point Discovery Reject (AVDTP 1.3 sec. 8.6.3: one octet, the error code).
# p = {'signal', 'type', 'label', 'body'}
# ---------------------------------------------------------------------------
AVDTP_SPEC_DEFINED_REJECTS = {0x01: 'Discover_Reject'}  # signal identifier -> name; body = error code (1 octet)


def check_avdtp_unregistered(ctx, p) -> None:
    restore_registries()
    sig, mt, label, body = int(p['signal']), int(p['type']), int(p['label']), bytes(p['body'])
    case = {'kind': 'avdtp_unregistered', 'signal': sig, 'type': mt, 'label': label, 'body': body}
    reg = REGS['avdtp']
    site = f"avdtp/unregistered/{AVDTP_SPEC_DEFINED_REJECTS.get(sig, f'signal{sig}')}"
    wire = bytes([label << 4 | mt, sig]) + body
    try:
        msg = reg.parse(wire, None)
    except Exception as e:
        ctx.fail(f'decode_raises/{site}/{type(e).__name__}', f'parsing the well-formed {wire.hex()} raised {e!r}', case)
        return
    got = (int(msg.signal_identifier), int(msg.message_type), getattr(msg, '_c18_label', None))
    if got != (sig, mt, label):
        ctx.fail(f'decode_header/{site}', f'{wire.hex()} parsed with (signal, type, label) = {got}', case)
        return
    if mt == 3 and int(getattr(msg, 'error_code', -1)) != body[0]:
        ctx.fail(f'decode_fields/{site}', f'{wire.hex()} parsed with error code {getattr(msg, "error_code", None)!r}', case)
        return
    try:
        again = reg.ser(msg, {'label': label})
        fields = {n: fresh(getattr(msg, n)) for n in specgen.flat_names(type(msg).fields)} if mt == 3 else {}
        if mt == 3 and not fields:
            fields = {'error_code': msg.error_code}  # what the fallback class is constructed from
        rebuilt_obj = type(msg)(**fields)
        rebuilt_obj.signal_identifier, rebuilt_obj.message_type = msg.signal_identifier, msg.message_type
        if mt != 3:
            rebuilt_obj.payload = msg.payload
        rebuilt = reg.ser(rebuilt_obj, {'label': label})
    except Exception as e:
        ctx.fail(f'reencode_raises/{site}/{type(e).__name__}', f're-serialising what {wire.hex()} parsed to raised {e!r}', case)
        return
    if again != wire:
        ctx.fail(f'reencode_parsed/{site}', f'{type(msg).__name__} parsed from {wire.hex()} serialises to {again.hex()}', case)
    elif rebuilt != wire:
        ctx.fail(f'reencode/{site}', f'{type(msg).__name__} parsed from {wire.hex()} and rebuilt from its fields serialises to {rebuilt.hex()}', case)


def run_avdtp_unregistered(ctx) -> None:
    registered = {key for key, _cls in REGS['avdtp'].classes()}
    errors = sorted({int(x) for x in avdtp.ErrorCode} | {0x01, 0xC0, 0xFF})
    i = 0
    for sig, name in sorted(AVDTP_SPEC_DEFINED_REJECTS.items()):
        for err in errors:  # every shard: a tiny family whose label has a floor
            i += 1
            check_avdtp_unregistered(ctx, {'signal': sig, 'type': 3, 'label': i & 15, 'body': bytes([err])})
            ctx.case(('avdtp_unreg', sig, err), True, {'avdtp_spec_defined_reject', 'avdtp_spec_defined_reject:' + ('registered' if (sig, 3) in registered else 'fallback')},
                     sample={'unit': name, 'wire': bytes([(i & 15) << 4 | 3, sig, err]).hex()})


# ---------------------------------------------------------------------------
# AVCTP single-packet header (AVCTP 1.4 6.1.1)
# ---------------------------------------------------------------------------
def check_avctp(ctx, p) -> None:
    case = dict(p, kind='avctp')
    payload = bytes(p['payload'])
    wire = bytes([p['label'] << 4 | 0 << 2 | p['cr'] << 1 | p['ipid']]) + p['pid'].to_bytes(2, 'big') + payload
    want = (p['label'], p['cr'] == 0, bool(p['ipid']), p['pid'], payload)
    site = 'avctp/single'
    try:
        ch = _FakeChannel()
        avctp.Protocol(ch).send_message(p['label'], p['cr'] == 0, bool(p['ipid']), p['pid'], payload)
        built = b''.join(ch.written)
    except Exception as e:
        ctx.fail(f'encode_raises/{site}/{type(e).__name__}', repr(e), case)
        return

    def parse(data):
        got = []
        avctp.MessageAssembler(lambda *a: got.append(a)).on_pdu(data)
        if len(got) != 1:
            raise ValueError(f'assembler delivered {len(got)} messages for one single packet')
        return got[0]

    def ser(msg):
        ch = _FakeChannel()
        avctp.Protocol(ch).send_message(*msg)
        return b''.join(ch.written)

    two_sided(ctx, site, wire, built, make_clauses(
        ctx, site, case, wire, parse, lambda m: (m[0], bool(m[1]), bool(m[2]), m[3], bytes(m[4])), want, lambda m: tuple(m), ser=ser))


def run_avctp(ctx, n) -> None:
    strat = st.fixed_dictionaries({'label': st.integers(0, 15), 'cr': st.integers(0, 1), 'ipid': st.integers(0, 1), 'pid': st.one_of(st.just(0x110E), specgen.uint(2)),
                                   'payload': st.binary(max_size=24)}).map(lambda d: dict(d, ipid=d['ipid'] if d['cr'] == 1 else 0, payload=b'' if (d['ipid'] and d['cr'] == 1) else d['payload']))

    def one(p):
        check_avctp(ctx, p)
        ctx.case(('avctp', p['label'], p['cr'], p['ipid'], p['pid'], p['payload']), True, {'avctp', f"avctp_cr{p['cr']}", f"avctp_ipid{p['ipid']}"},
                 sample={k: (v.hex() if isinstance(v, bytes) else v) for k, v in p.items()})

    ctx.hyp('avctp', one, strat, max_examples=n)


# ---------------------------------------------------------------------------
# AVRCP specific AV/C commands (AVRCP 1.6 sec. 6.3.1, Figure 6.1): an AV/C VENDOR DEPENDENT frame addressed to the PANEL
# subunit 0 with the Bluetooth SIG company identifier, carrying  PDU ID | reserved(6) packet type(2) | parameter
# length (16 bits, big-endian) | parameters.   Bumble: Protocol.send_avrcp_command / send_avrcp_response (and the
# rejected / not-implemented forms) build it, avc.Frame.from_bytes + PduAssembler.on_pdu take it apart.
# p = {'dir': 'cmd'|'rsp', 'code': ctype / response code, 'pdu_id', 'params', 'label', 'prior': [[pdu_id, params], ..],
#      'how': 'typed' (params are the serialisation of the registered class of pdu_id) | 'opaque' | 'rejected'}
# ---------------------------------------------------------------------------
AVRCP_COMPANY_ID, AVRCP_PROFILE_ID, AVC_PANEL = 0x001958, 0x110E, 0x09


def avrcp_pdu_reference(pdu_id: int, params: bytes) -> bytes:
    return bytes([pdu_id, 0]) + len(params).to_bytes(2, 'big') + bytes(params)


def avrcp_frame_reference(p) -> bytes:
    return bytes([p['code'], AVC_PANEL << 3 | 0, 0x00]) + AVRCP_COMPANY_ID.to_bytes(3, 'big') + avrcp_pdu_reference(p['pdu_id'], p['params'])


class _AvctpCapture:
    """Stands for avctp.Protocol below avrcp.Protocol: records what would be sent."""

    def __init__(self):
        self.sent = []

    def send_command(self, transaction_label, pid, payload):
        self.sent.append(('cmd', transaction_label, pid, bytes(payload)))

    def send_response(self, transaction_label, pid, payload):
        self.sent.append(('rsp', transaction_label, pid, bytes(payload)))


def _avrcp_emit(p, obj):
    """What avrcp.Protocol hands to AVCTP for this unit: list of (direction, label, pid, AV/C frame bytes)."""
    import asyncio

    from vlib import vloop

    async def go(_loop):
        proto = avrcp.Protocol()
        cap = _AvctpCapture()
        proto.avctp_protocol = cap
        if p['dir'] == 'cmd':
            task = asyncio.ensure_future(proto.send_avrcp_command(avc.CommandFrame.CommandType(p['code']), obj))
            for _ in range(3):
                await asyncio.sleep(0)
            task.cancel()
        elif p['how'] == 'rejected':
            proto.send_rejected_avrcp_response(p['label'], avrcp.PduId(p['pdu_id']), avrcp.StatusCode(p['params'][0]))
        else:
            proto.send_avrcp_response(p['label'], avc.ResponseFrame.ResponseCode(p['code']), obj)
        return cap.sent

    sent, errors = vloop.run_case(go)
    if errors:
        raise RuntimeError(f'loop errors: {errors!r:.200}')
    return sent


def check_avrcp_pdu(ctx, p) -> None:
    restore_registries()
    p = {k: v for k, v in p.items() if k != 'kind'}
    params = bytes(p['params'])
    prior = [(int(i), bytes(b)) for i, b in p.get('prior', [])]
    p = dict(p, params=params, prior=[[i, b] for i, b in prior])
    case = dict(p, kind='avrcp_pdu')
    site = f"avrcp_pdu/{p['dir']}"
    frame = avrcp_frame_reference(p)
    pdu = avrcp_pdu_reference(p['pdu_id'], params)
    # parse side: AV/C frame -> vendor dependent data -> PDU assembler (one instance, fed the earlier PDUs first)
    try:
        f = avc.Frame.from_bytes(frame)
        want_cls = avc.VendorDependentCommandFrame if p['dir'] == 'cmd' else avc.VendorDependentResponseFrame
        code = int(f.ctype) if p['dir'] == 'cmd' else int(f.response)
        if type(f) is not want_cls or (code, int(f.subunit_type), int(f.subunit_id), int(f.company_id)) != (p['code'], AVC_PANEL, 0, AVRCP_COMPANY_ID):
            ctx.fail(f'decode_fields/{site}/frame', f'{frame[:24].hex()} parsed as {f}'[:300], case)
            return
        got = []
        asm = avrcp.PduAssembler(lambda pdu_id, parameters: got.append((int(pdu_id), bytes(parameters))))
        for i, b in prior:
            asm.on_pdu(avrcp_pdu_reference(i, b))
        asm.on_pdu(bytes(f.vendor_dependent_data))
    except Exception as e:
        ctx.fail(f'decode_raises/{site}/{type(e).__name__}', f'taking {frame[:24].hex()}.. ({len(frame)} bytes) apart raised {e!r}', case)
        return
    if bytes(f.vendor_dependent_data) != pdu:
        ctx.fail(f'decode_fields/{site}/frame', f'vendor dependent data of {frame[:24].hex()}.. is {bytes(f.vendor_dependent_data)[:24].hex()}..', case)
        return
    if got != prior + [(p['pdu_id'], params)]:
        ctx.fail(f'decode_fields/{site}/pdu', f'PDU {pdu[:16].hex()}.. ({len(params)} parameter bytes) after {len(prior)} earlier PDU(s): the assembler delivered '
                                             f'{[(i, len(b), b[:8].hex()) for i, b in got]!r:.200}', case)
        return
    # the unit itself
    how = p['how']
    try:
        if how == 'typed':
            obj = avrcp.Command.from_bytes(p['pdu_id'], params) if p['dir'] == 'cmd' else avrcp.Response.from_bytes(params, avrcp.PduId(p['pdu_id']))
        elif how == 'rejected':
            obj = avrcp.RejectedResponse.from_bytes(params, avrcp.PduId(p['pdu_id']))
            if (int(obj.pdu_id), int(obj.status_code)) != (p['pdu_id'], params[0]):
                ctx.fail('decode_fields/avrcp_pdu/RejectedResponse', f'{params.hex()} parsed as {obj}', case)
                return
            obj = avrcp.RejectedResponse(avrcp.PduId(p['pdu_id']), avrcp.StatusCode(params[0]))
        else:
            obj = avrcp.NotImplementedResponse.from_bytes(params, avrcp.PduId(p['pdu_id']))
            if (int(obj.pdu_id), bytes(obj.parameters)) != (p['pdu_id'], params):
                ctx.fail('decode_fields/avrcp_pdu/NotImplementedResponse', f'{params[:24].hex()} parsed as {obj}'[:300], case)
                return
            obj = avrcp.NotImplementedResponse(avrcp.PduId(p['pdu_id']), params)
        if bytes(obj) != params:
            ctx.fail(f'reencode/avrcp_pdu/{type(obj).__name__ if how != "typed" else "typed"}', f'{type(obj).__name__} for parameters {params[:24].hex()} serialises to {bytes(obj)[:24].hex()}', case)
            return
    except Exception as e:
        ctx.fail(f'decode_raises/{site}/{how}/{type(e).__name__}', f'parameters {params[:24].hex()} of PDU 0x{p["pdu_id"]:02x}: {e!r}', case)
        return
    # build side: what avrcp.Protocol emits for the unit is the reference frame, for AVRCP's profile identifier
    try:
        sent = _avrcp_emit(p, obj)
    except Exception as e:
        ctx.fail(f'encode_raises/{site}/{type(e).__name__}', f'sending {type(obj).__name__} raised {e!r}', case)
        return
    if len(sent) != 1 or sent[0][0] != p['dir'] or sent[0][2] != AVRCP_PROFILE_ID or (p['dir'] == 'rsp' and sent[0][1] != p['label']):
        ctx.fail(f'encode/{site}/envelope', f'{type(obj).__name__} sent as {[(d, l, hex(pid), len(b)) for d, l, pid, b in sent]!r:.200}', case)
        return
    if sent[0][3] != frame:
        ctx.fail(f'encode/{site}', f'{type(obj).__name__} with {len(params)} parameter bytes is sent as {sent[0][3][:24].hex()}.., reference {frame[:24].hex()}..', case)


AVRCP_PARAM_LENGTHS = (0, 1, 255, 256, 257, 512, 65535)


def _avrcp_plain_classes(reg: Reg):
    return [(key, cls) for key, cls in reg.classes() if not has_custom_codec(reg, cls)]


def run_avrcp_pdu(ctx, n) -> None:
    cmd_codes = [0x00, 0x01, 0x03]  # CONTROL, STATUS, NOTIFY
    rsp_codes = [0x09, 0x0C, 0x0D, 0x0F]  # ACCEPTED, IMPLEMENTED/STABLE, CHANGED, INTERIM
    pdu_ids = sorted({int(k) for k in avrcp.Command.subclasses} | {int(k) for k in avrcp.Response.subclasses})
    prior = st.lists(st.tuples(st.sampled_from(pdu_ids), st.binary(max_size=6)).map(list), max_size=2)

    def one(p):
        check_avrcp_pdu(ctx, p)
        k = len(p['params'])
        labels = {'avrcp_pdu', f"avrcp_pdu:{p['dir']}", f"avrcp_pdu:{p['how']}", f"avrcp_pdu_len:{k if k in AVRCP_PARAM_LENGTHS else 'other'}",
                  f"avrcp_pdu_prior:{min(len(p['prior']), 2)}"}
        if k >= 256:
            labels.add('avrcp_pdu_len>=256')
        ctx.case(('avrcp_pdu', p['dir'], p['code'], p['pdu_id'], p['params'], p['prior']), True, labels,
                 sample={'dir': p['dir'], 'how': p['how'], 'pdu_id': p['pdu_id'], 'len': k, 'frame': avrcp_frame_reference(p)[:24].hex()})

    # registered command / response classes, serialised by the class, framed by the protocol
    for d, reg, codes in (('cmd', REGS['avrcp_cmd'], cmd_codes), ('rsp', REGS['avrcp_rsp'], rsp_codes)):
        classes = _avrcp_plain_classes(reg)

        @st.composite
        def typed(draw, d=d, reg=reg, codes=codes, classes=classes):
            key, cls = draw(st.sampled_from(classes))
            values, _wire, _expected = draw(gen_fields(reg.name, cls.fields, draw(st.sampled_from([64, 64, 700]))))
            obj = _mk(cls, values)
            params = None if isinstance(obj, Broken) else _safe(bytes, obj)
            if not isinstance(params, bytes):
                return None  # the class cannot serialise these values: judged by the registry family, not here
            return {'dir': d, 'code': draw(st.sampled_from(codes)), 'pdu_id': int(key), 'params': params, 'label': draw(st.integers(0, 15)),
                    'prior': draw(prior), 'how': 'typed'}

        ctx.hyp(f'avrcp_pdu/{d}', lambda p: one(p) if p is not None else None, typed(), max_examples=n)
    # the header on its own: parameter lengths around the octet boundaries of the 16-bit length, opaque parameters
    opaque = st.fixed_dictionaries({
        'dir': st.just('rsp'), 'code': st.just(0x08), 'pdu_id': st.sampled_from(pdu_ids), 'label': st.integers(0, 15), 'prior': prior, 'how': st.just('opaque'),
        'params': st.one_of(st.binary(max_size=24), st.sampled_from([255, 256, 257, 512]).flatmap(lambda k: st.binary(min_size=k, max_size=k)))})
    ctx.hyp('avrcp_pdu/opaque', one, opaque, max_examples=max(10, n // 2))
    rejected = st.fixed_dictionaries({
        'dir': st.just('rsp'), 'code': st.just(0x0A), 'pdu_id': st.sampled_from(pdu_ids), 'label': st.integers(0, 15), 'prior': prior, 'how': st.just('rejected'),
        'params': st.sampled_from(sorted(int(x) for x in avrcp.StatusCode)).map(lambda v: bytes([v]))})
    ctx.hyp('avrcp_pdu/rejected', one, rejected, max_examples=max(10, n // 4))
    for k in AVRCP_PARAM_LENGTHS:  # every shard: a tiny family whose labels have floors
        one({'dir': 'rsp', 'code': 0x08, 'pdu_id': pdu_ids[k % len(pdu_ids)], 'label': k & 15, 'prior': [[pdu_ids[0], b'\x01']] if k & 1 else [], 'how': 'opaque',
             'params': bytes((j * 3 + k) & 0xFF for j in range(k))})


# ---------------------------------------------------------------------------
# RTP media packets (RFC 3550 5.1)
# ---------------------------------------------------------------------------
RTP_NAMES = ('version', 'padding', 'extension', 'marker', 'sequence_number', 'timestamp', 'ssrc', 'csrc_list', 'payload_type', 'payload')


def rtp_reference(p) -> bytes:
    b0 = p['version'] << 6 | p['padding'] << 5 | p['extension'] << 4 | len(p['csrc_list'])
    b1 = p['marker'] << 7 | p['payload_type']
    out = bytes([b0, b1]) + p['sequence_number'].to_bytes(2, 'big') + p['timestamp'].to_bytes(4, 'big') + p['ssrc'].to_bytes(4, 'big')
    for c in p['csrc_list']:
        out += c.to_bytes(4, 'big')
    return out + bytes(p['payload'])


def check_rtp(ctx, p) -> None:
    case = dict(p, kind='rtp')
    wire = rtp_reference(p)
    cc = len(p['csrc_list'])
    site = f"MediaPacket/csrc{'0' if cc == 0 else '1' if cc == 1 else '2+'}"
    roundtrip(
        ctx, site, case, wire,
        build=lambda: rtp.MediaPacket(*[(bytes(p[n]) if n == 'payload' else list(p[n]) if n == 'csrc_list' else p[n]) for n in RTP_NAMES]),
        parse=rtp.MediaPacket.from_bytes,
        fields=lambda o: tuple((bytes(o.payload) if n == 'payload' else tuple(o.csrc_list) if n == 'csrc_list' else int(getattr(o, n))) for n in RTP_NAMES),
        want=tuple((bytes(p[n]) if n == 'payload' else tuple(p[n]) if n == 'csrc_list' else p[n]) for n in RTP_NAMES),
        rebuild=lambda o: rtp.MediaPacket(*[getattr(o, n) for n in RTP_NAMES]),
    )


@st.composite
def rtp_params(draw):
    cc = draw(st.one_of(st.sampled_from([0, 1, 2, 15]), st.integers(0, 15)))
    x = draw(st.integers(0, 1))
    pad = draw(st.integers(0, 1))
    payload = b''
    if x:  # header extension: 16-bit profile id, 16-bit length in words, words
        words = draw(st.integers(0, 2))
        payload += draw(st.binary(min_size=2, max_size=2)) + words.to_bytes(2, 'big') + draw(st.binary(min_size=4 * words, max_size=4 * words))
    payload += draw(st.binary(max_size=24))
    if pad:  # last octet counts the padding octets, itself included
        k = draw(st.integers(1, 4))
        payload += bytes(k - 1) + bytes([k])
    return {'version': draw(st.sampled_from([2, 2, 2, 0, 1, 3])), 'padding': pad, 'extension': x, 'marker': draw(st.integers(0, 1)),
            'sequence_number': draw(specgen.uint(2)), 'timestamp': draw(specgen.uint(4)), 'ssrc': draw(specgen.uint(4)),
            'csrc_list': [draw(specgen.uint(4)) for _ in range(cc)], 'payload_type': draw(st.one_of(st.sampled_from([0, 96, 127]), st.integers(0, 127))),
            'payload': payload}


def run_rtp(ctx, n) -> None:
    def one(p):
        check_rtp(ctx, p)
        labels = {'rtp', f"rtp_cc:{len(p['csrc_list'])}"}
        for k in ('padding', 'extension', 'marker'):
            if p[k]:
                labels.add('rtp_' + k)
        ctx.case(('rtp', rtp_reference(p)), True, labels, sample={'rtp': rtp_reference(p)[:48].hex()})

    ctx.hyp('rtp', one, rtp_params(), max_examples=n)
    for cc in range(16):  # every CSRC count
        if cc % ctx.nshards != ctx.shard:
            continue
        one({'version': 2, 'padding': 0, 'extension': 0, 'marker': cc & 1, 'sequence_number': 0x0102 + cc, 'timestamp': 0x03040506, 'ssrc': 0x0708090A,
             'csrc_list': [0x11000000 * (i % 15 + 1) + i for i in range(cc)], 'payload_type': 96, 'payload': bytes([cc, 0xAA, 0xBB])})


# ---------------------------------------------------------------------------
# Advertising data: typed classes (Core Specification Supplement Part A), enumerated from bumble.data_types
# handler = (matches(cls), params strategy, reference encoder, builder, view of an object as plain params)
# ---------------------------------------------------------------------------
def _minlen_le(v: int) -> bytes:
    return v.to_bytes(max(1, (v.bit_length() + 7) // 8), 'little')


def _ad_text(maxbytes, alphabet=None):
    base = st.text(alphabet=alphabet, max_size=maxbytes) if alphabet else st.text(max_size=maxbytes)
    return base.filter(_utf8_ok).map(lambda s: _clip_utf8(s, maxbytes))


def _clip_utf8(s, n):
    while len(s.encode('utf-8')) > n:
        s = s[:-1]
    return s


def _cod_build(cls, v):
    C = core.ClassOfDevice
    return cls(C.MajorServiceClasses(v >> 13 & 0x7FF), C.MajorDeviceClass(v >> 8 & 0x1F), v >> 2 & 0x3F)


class ADH:
    def __init__(self, name, test, strat, ref, build, view):
        self.name, self.test, self.strat, self.ref, self.build, self.view = name, test, strat, ref, build, view


def _sub(base):
    return lambda cls: isinstance(base, type) and issubclass(cls, base)


DT = data_types
AD_HANDLERS = [
    ADH('uuid_list', _sub(DT.ListOfServiceUUIDs),
        lambda cls: st.lists(uuid_le((cls._uuid_size,)), max_size=max(1, 29 // cls._uuid_size)),
        lambda cls, p: b''.join(bytes(x) for x in p),
        lambda cls, p: cls([uuid_obj(x) for x in p]),
        lambda o: [bytes(u) for u in o.uuids]),
    ADH('broadcast_code', lambda cls: cls is DT.BroadcastCode,
        lambda cls: _ad_text(16, st.characters(min_codepoint=1, blacklist_categories=('Cs',))),
        lambda cls, p: p.encode('utf-8'), lambda cls, p: cls(p), lambda o: str.__str__(o)),
    ADH('string', lambda cls: issubclass(cls, str),
        lambda cls: _ad_text(29), lambda cls, p: p.encode('utf-8'), lambda cls, p: cls(p), lambda o: str.__str__(o)),
    ADH('flags', lambda cls: cls in (DT.Flags, DT.LeSupportedFeatures),
        lambda cls: st.one_of(st.sampled_from([1, 2, 6, 0x1A, 0x80, 0x100, 0xFFFF]), st.integers(1, 0xFFFF if cls is DT.Flags else (1 << 64) - 1)),
        lambda cls, p: _minlen_le(p), lambda cls, p: cls(p), lambda o: int(o)),
    ADH('fixed_int', _sub(DT.FixedSizeIntDataType),
        lambda cls: specgen.sint(cls._fixed_size) if cls._signed else specgen.uint(cls._fixed_size),
        lambda cls, p: p.to_bytes(cls._fixed_size, 'little', signed=cls._signed), lambda cls, p: cls(p), lambda o: int(o)),
    ADH('fixed_bytes', _sub(DT.FixedSizeBytesDataType),
        lambda cls: specgen.nbytes_exact(cls._fixed_size), lambda cls, p: bytes(p), lambda cls, p: cls(bytes(p)), lambda o: b'' + o),
    ADH('manufacturer', lambda cls: cls is DT.ManufacturerSpecificData,
        lambda cls: st.tuples(specgen.uint(2), st.binary(max_size=27)).map(list),
        lambda cls, p: p[0].to_bytes(2, 'little') + bytes(p[1]), lambda cls, p: cls(p[0], bytes(p[1])), lambda o: [o.company_identifier, bytes(o.data)]),
    ADH('class_of_device', lambda cls: cls is DT.ClassOfDevice,
        lambda cls: st.tuples(st.integers(0, 0x7FF), st.integers(0, 0x1F), st.integers(0, 0x3F)).map(lambda t: t[0] << 13 | t[1] << 8 | t[2] << 2),
        lambda cls, p: p.to_bytes(3, 'little'), _cod_build, lambda o: int(o)),
    ADH('oob_flag', lambda cls: cls is DT.SecurityManagerOutOfBandFlag,
        lambda cls: st.integers(0, 15), lambda cls, p: bytes([p]), lambda cls, p: cls(core.SecurityManagerOutOfBandFlag(p)), lambda o: int(o)),
    ADH('interval_range', lambda cls: cls is DT.PeripheralConnectionIntervalRange,
        lambda cls: st.tuples(specgen.uint(2), specgen.uint(2)).map(list),
        lambda cls, p: p[0].to_bytes(2, 'little') + p[1].to_bytes(2, 'little'), lambda cls, p: cls(p[0], p[1]),
        lambda o: [o.connection_interval_min, o.connection_interval_max]),
    ADH('service_data', _sub(DT.ServiceData),
        lambda cls: st.tuples(uuid_le((cls._uuid_size,)), st.binary(max_size=29 - cls._uuid_size)).map(list),
        lambda cls, p: bytes(p[0]) + bytes(p[1]), lambda cls, p: cls(uuid_obj(p[0]), bytes(p[1])), lambda o: [bytes(o.service_uuid), bytes(o.data)]),
    ADH('appearance', lambda cls: cls is DT.Appearance,
        lambda cls: specgen.uint(2), lambda cls, p: p.to_bytes(2, 'little'),
        lambda cls, p: cls(core.Appearance.Category(p >> 6), p & 0x3F), lambda o: int(o)),
    ADH('target_address', lambda cls: cls in (DT.PublicTargetAddress, DT.RandomTargetAddress),
        lambda cls: st.lists(specgen.nbytes_exact(6), min_size=1, max_size=1),
        lambda cls, p: b''.join(bytes(x) for x in p), lambda cls, p: cls(hci.Address(bytes(p[0]))),
        lambda o: [bytes(o.address_bytes)]),
    ADH('interval_long', lambda cls: cls is DT.AdvertisingIntervalLong,
        lambda cls: st.one_of(st.sampled_from([0, 1, 0xFFFFFF, 0x1000000, 0xFFFFFFFF]), st.integers(0, 0xFFFFFFFF)),
        lambda cls, p: p.to_bytes(4 if p >= 0x1000000 else 3, 'little'), lambda cls, p: cls(p), lambda o: int(o)),
    # CSS Part A 1.16: 6 least significant octets = address, most significant (last) octet bit 0 = random
    ADH('le_address', lambda cls: cls is DT.LeBluetoothDeviceAddress,
        lambda cls: st.tuples(specgen.nbytes_exact(6), st.integers(0, 1)).map(list),
        lambda cls, p: bytes(p[0]) + bytes([p[1]]), lambda cls, p: cls(hci.Address(bytes(p[0]), hci.AddressType(p[1]))),
        lambda o: [bytes(o.address_bytes), int(o.address_type)]),
    ADH('le_role', lambda cls: cls is DT.LeRole,
        lambda cls: st.integers(0, 3), lambda cls, p: bytes([p]), lambda cls, p: cls(core.LeRole(p)), lambda o: int(o)),
    ADH('channel_map', lambda cls: cls is DT.ChannelMapUpdateIndication,
        lambda cls: st.tuples(st.integers(0, (1 << 40) - 1), specgen.uint(2)).map(list),
        lambda cls, p: p[0].to_bytes(5, 'little') + p[1].to_bytes(2, 'little'), lambda cls, p: cls(p[0], p[1]), lambda o: [o.chm, o.instant]),
    ADH('encrypted', lambda cls: cls is DT.EncryptedData,
        lambda cls: st.tuples(st.integers(0, (1 << 40) - 1), st.binary(max_size=16), st.binary(min_size=4, max_size=4)).map(list),
        lambda cls, p: p[0].to_bytes(5, 'little') + bytes(p[1]) + bytes(p[2]), lambda cls, p: cls(p[0], bytes(p[1]), bytes(p[2])),
        lambda o: [o.randomizer, bytes(o.payload), bytes(o.mic)]),
    ADH('pa_response_timing', lambda cls: cls is DT.PeriodicAdvertisingResponseTimingInformation,
        lambda cls: st.tuples(specgen.uint(4), specgen.uint(1), specgen.uint(1), specgen.uint(1), specgen.uint(1)).map(list),
        lambda cls, p: p[0].to_bytes(4, 'little') + bytes(p[1:]), lambda cls, p: cls(*p),
        lambda o: [o.rspaa, o.num_subevents, o.subevent_interval, o.response_slot_delay, o.response_slot_spacing]),
]


def ad_typed_classes():
    """type id -> class, from the registry bumble itself uses when parsing."""
    m = getattr(data_types, '_AD_TO_DATA_TYPE_CLASS_MAP', None)
    if m is None:
        raise HarnessError('bumble.data_types has no _AD_TO_DATA_TYPE_CLASS_MAP registry any more')
    return dict(m)


def ad_handler(cls):
    for h in AD_HANDLERS:
        try:
            if h.test(cls):
                return h
        except TypeError:
            continue
    raise HarnessError(f'typed advertising-data class {cls.__name__} has no dedicated strategy')


def _plain(x):
    if isinstance(x, (bytes, bytearray)):
        return bytes(x)
    if isinstance(x, (list, tuple)):
        return [_plain(i) for i in x]
    return x


def _widen(x):
    if isinstance(x, bytes) and len(x) in (2, 4, 16):
        return norm128(x)
    if isinstance(x, list):
        return [_widen(i) for i in x]
    return x


def check_ad_typed(ctx, p) -> None:
    """p = {'type': ad type id, 'params': plain}"""
    restore_registries()
    classes = ad_typed_classes()
    t = core.AdvertisingData.Type(p['type'])
    cls = classes.get(t)
    if cls is None:
        return
    h = ad_handler(cls)
    params = _plain(p['params'])
    case = {'kind': 'ad_typed', 'type': int(p['type']), 'params': params}
    family = h.name in ('uuid_list', 'service_data', 'fixed_bytes', 'fixed_int', 'string', 'flags', 'target_address')
    site = f'ad_type/{h.name}' if family else f'ad_type/{cls.__name__}'
    if h.name == 'target_address' and len(params) > 1:
        site += '/multi'
    ref = h.ref(cls, params)
    multi = site.endswith('/multi')  # several addresses: well-formed on the wire, no constructor form -> parse side only
    obj, built = None, ref
    if not multi:
        try:
            obj = h.build(cls, params)
            built = bytes(obj)
            in_ad = bytes(core.AdvertisingData([obj]))
        except Exception as e:
            ctx.fail(f'encode_raises/{site}/{type(e).__name__}', f'building {cls.__name__} from {params!r:.120} raised {e!r}', case)
            return
        if in_ad != bytes([len(built) + 1, int(t)]) + built:
            ctx.fail(f'encode/AdvertisingData/{cls.__name__}', f'AdvertisingData([{cls.__name__}]) = {in_ad.hex()}, the object alone {built.hex()}', case)
            return

    def parse(data):
        return cls.from_bytes(data), data_types.data_type_from_advertising_data(t, data)

    def view(pair):
        return [_plain(h.view(pair[0])), _plain(h.view(pair[1])), type(pair[1]).__name__]

    ok = two_sided(ctx, site, ref, built, make_clauses(
        ctx, site, case, ref, parse, view, [params, params, cls.__name__],
        rebuild=lambda pair: h.build(cls, _plain(h.view(pair[0]))), ser=lambda o: bytes(o[0] if isinstance(o, tuple) else o),
        eq_obj=None, cmp=lambda got, want: 'uuid_width/ad_type' if _widen(got) == _widen(want) else None))
    if obj is not None and own_eq(cls) and built == ref:
        try:
            same = bool(cls.from_bytes(ref) == obj)
        except Exception as e:
            ctx.fail(f'eq_raises/{site}/{type(e).__name__}', repr(e), case)
            return
        if not same:
            ctx.fail(f'eq/{site}', f'{cls.__name__} parsed from its own serialisation is not equal to the original', case)
            return
    if ok and not multi:
        check_ad_simple_view(ctx, t, cls, params, ref, case)


def _simple(x):
    """Plain rendering of what AdvertisingData.get() hands out (UUIDs, Appearance, tuples, strings, integers, bytes)."""
    if isinstance(x, UUID):
        return bytes(x)
    if isinstance(x, core.Appearance):
        return int(x)
    if isinstance(x, (bytes, bytearray, memoryview)):
        return bytes(x)
    if isinstance(x, str):
        return str.__str__(x)
    if isinstance(x, int):
        return int(x)
    if isinstance(x, (list, tuple)):
        return [_simple(i) for i in x]
    return ('other', repr(x))


def check_ad_simple_view(ctx, t, cls, params, ref: bytes, case) -> None:
    """The other parse entry point for one structure: AdvertisingData.get() / get_all() ("simple objects").  For a type it
    does not interpret it returns the raw data (accepted as such); what it does interpret (names, integers, tuples,
    UUIDs) has to be the generated value - the same one the typed class of that type parses to."""
    AD = core.AdvertisingData
    try:
        ad = AD.from_bytes(bytes([len(ref) + 1, int(t)]) + ref)
        got = ad.get(int(t))
        every = ad.get_all(int(t))
        raw = ad.get(int(t), raw=True)
    except Exception as e:
        ctx.fail(f'object_view_raises/AdvertisingData.get/{cls.__name__}/{type(e).__name__}',
                 f'AdvertisingData.get(0x{int(t):02x}) on the well-formed data {ref.hex()} of a {cls.__name__} raised {e!r}', case)
        return
    if raw != ref:
        ctx.fail('decode_fields/AdvertisingData.get/raw', f'get(0x{int(t):02x}, raw=True) on {ref.hex()} gives {raw!r:.80}', case)
        return
    interpreted = not (isinstance(got, (bytes, bytearray)) and bytes(got) == ref)
    ctx.label('ad_simple_view:' + ('interpreted' if interpreted else 'raw'))
    if interpreted and _simple(got) != _plain(params):
        ctx.fail(f'decode_fields/AdvertisingData.get/{cls.__name__}',
                 f'{cls.__name__} {ref.hex()} (value {params!r:.80}) read through AdvertisingData.get() is {got!r:.80}', case)
        return
    if len(every) != 1 or _simple(every[0]) != _simple(got):
        ctx.fail('decode_fields/AdvertisingData.get_all', f'get_all(0x{int(t):02x}) on one structure gives {every!r:.120}, get() gives {got!r:.80}', case)


def run_ad_typed(ctx, n) -> tuple[int, int]:
    classes = ad_typed_classes()
    covered = 0
    for t in sorted(classes, key=int):
        cls = classes[t]
        h = ad_handler(cls)

        def one(params, t=t, cls=cls, h=h):
            check_ad_typed(ctx, {'type': int(t), 'params': params})
            ctx.case(('adt', int(t), repr(_plain(params))), True, {'ad_typed', 'ad_type:' + cls.__name__, 'ad_handler:' + h.name},
                     sample={'class': cls.__name__, 'wire': h.ref(cls, _plain(params)).hex()})

        ctx.hyp(f'ad_typed/{cls.__name__}', one, h.strat(cls), max_examples=n)
        if h.name == 'target_address':
            ctx.hyp(f'ad_typed/{cls.__name__}/multi', lambda params, one=one: one(params), st.lists(specgen.nbytes_exact(6), min_size=2, max_size=3), max_examples=max(3, n // 5))
            ctx.labels['ad_target_address_multi'] += 1
        covered += 1
    return len(classes), covered


# ---------------------------------------------------------------------------
# AdvertisingData as a whole (Core Vol 3 Part C 11: length, type, data; significant part only)
# p = {'structs': [[type, data], ...]}
# ---------------------------------------------------------------------------
def check_ad_objects(ctx, site, case, wire: bytes, structs, parsed) -> bool:
    """The whole payload through the typed-object API: one object per structure (the registered class of the type, the
    generic class for every other type), and an AdvertisingData built from those objects is the same payload."""
    AD = core.AdvertisingData
    if any(t == 0xFF and len(d) < 2 for t, d in structs):
        # the generator's filler may end in a manufacturer structure too short for a company identifier: not a
        # well-formed ManufacturerSpecificData, so the typed view of this payload is not judged
        ctx.label('ad_objects:not_judged_short_filler')
        return True
    classes = ad_typed_classes()
    try:
        objs = data_types.data_types_from_advertising_data(parsed)
        again = bytes(AD(objs))
        kinds = [(type(o), int(o.ad_type), bytes(o)) for o in objs]
    except Exception as e:
        ctx.fail(f'object_view_raises/{site}/data_types/{type(e).__name__}', f'data_types_from_advertising_data() on {wire[:40].hex()} raised {e!r}', case)
        return False
    ctx.label('ad_objects')
    want_kinds = [(classes.get(AD.Type(t), data_types.GenericAdvertisingData), t, d) for t, d in structs]
    if kinds != want_kinds:
        bad = next((i for i, (a, b) in enumerate(zip(kinds, want_kinds)) if a != b), min(len(kinds), len(want_kinds)))
        ctx.fail(f'decode_fields/{site}/data_types', f'structure {bad} of {wire[:40].hex()} becomes {kinds[bad:bad + 1]!r:.160}, expected {want_kinds[bad:bad + 1]!r:.160}', case)
        return False
    if again != wire:
        ctx.fail(f'reencode/{site}/data_types', f'{wire[:40].hex()} rebuilt from its typed objects serialises to {again[:40].hex()}', case)
        return False
    G = data_types.GenericAdvertisingData
    for (t, d), o in zip(structs, objs):
        if isinstance(o, G):
            ctx.label('ad_generic_object')
            try:
                same = bool(o == G(d, AD.Type(t))) and not bool(o == G(d, AD.Type(t ^ 1))) and not bool(o == G(d + b'\x00', AD.Type(t)))
            except Exception as e:
                ctx.fail(f'eq_raises/{site}/GenericAdvertisingData/{type(e).__name__}', repr(e), case)
                return False
            if not same:
                ctx.fail(f'eq/{site}/GenericAdvertisingData', f'generic structure type 0x{t:02x} {d.hex()}: equality does not follow (type, data)', case)
                return False
    return True


def check_ad(ctx, p) -> None:
    restore_registries()
    structs = [(int(t), bytes(d)) for t, d in p['structs']]
    case = {'kind': 'ad', 'structs': [[t, d] for t, d in structs]}
    wire = b''.join(bytes([len(d) + 1, t]) + d for t, d in structs)
    site = 'AdvertisingData'
    AD = core.AdvertisingData
    try:
        built = bytes(AD([(t, d) for t, d in structs]))
    except Exception as e:
        ctx.fail(f'encode_raises/{site}/{type(e).__name__}', repr(e), case)
        return
    if not two_sided(ctx, site, wire, built, make_clauses(
            ctx, site, case, wire, AD.from_bytes, lambda ad: [(int(t), bytes(d)) for t, d in ad.ad_structures], structs,
            lambda ad: AD(list(ad.ad_structures)))):
        return
    if built != wire:
        return
    parsed = AD.from_bytes(wire)
    # the UUID-carrying structures, seen through the object API, keep their bytes
    uuid_sizes = {0x02: 2, 0x03: 2, 0x14: 2, 0x04: 4, 0x05: 4, 0x1F: 4, 0x06: 16, 0x07: 16, 0x15: 16}
    svc_sizes = {0x16: 2, 0x20: 4, 0x21: 16}
    for t, d in structs:
        try:
            if t in uuid_sizes and len(d) % uuid_sizes[t] == 0:
                objs = [x for x in parsed.get_all(t) if b''.join(bytes(u) for u in x) == d or True]
                datas = [b''.join(bytes(u) for u in x) for x in objs]
                if d not in datas:
                    ctx.fail('uuid_width/AdvertisingData', f'UUID list {d.hex()} of type 0x{t:02x} read back through get_all() as {[x.hex() for x in datas]}', case)
                    return
            elif t in svc_sizes and len(d) >= svc_sizes[t]:
                datas = [bytes(x[0]) + bytes(x[1]) for x in parsed.get_all(t)]
                if d not in datas:
                    ctx.fail('uuid_width/AdvertisingData', f'service data {d.hex()} read back through get_all() as {[x.hex() for x in datas]}', case)
                    return
        except Exception as e:
            ctx.fail(f'object_view_raises/{site}/{type(e).__name__}', f'get_all(0x{t:02x}) on {d.hex()} raised {e!r}', case)
            return
    check_ad_objects(ctx, site, case, wire, structs, parsed)


@st.composite
def ad_structs(draw, limit):
    classes = ad_typed_classes()
    types = sorted(int(t) for t in classes)
    out, total = [], 0
    want = draw(st.integers(0, 6 if limit <= 31 else 40))
    fill = draw(st.booleans())
    for _ in range(want):
        room = min(254, limit - total - 2)
        if room < 0:
            break
        if draw(st.integers(0, 2)) == 0:
            t = draw(st.one_of(st.sampled_from([0x25, 0x2C, 0x3D, 0xFE, 0x00]), st.integers(0, 255).filter(lambda x: x not in types)))
            d = draw(st.binary(max_size=min(room, 255 if limit > 31 else 29)))
        else:
            t = draw(st.sampled_from(types))
            cls = classes[core.AdvertisingData.Type(t)]
            h = ad_handler(cls)
            d = h.ref(cls, _plain(draw(h.strat(cls))))
            if len(d) > room:
                continue
        out.append([t, d])
        total += 2 + len(d)
    if fill and limit - total >= 2:  # reach the size limit exactly
        while limit - total >= 2:
            k = min(254, limit - total - 2)
            out.append([0xFF, bytes([len(out) & 0xFF]) * k])
            total += 2 + k
    return out


def run_ad(ctx, n) -> None:
    def one(structs):
        check_ad(ctx, {'structs': structs})
        total = sum(2 + len(d) for _, d in structs)
        labels = {'ad', f'ad_structs:{min(len(structs), 3)}', 'ad_total<=31' if total <= 31 else 'ad_total<=1650'}
        if total in (31, 1650):
            labels.add(f'ad_total=={total}')
        if any(len(d) == 0 for _, d in structs):
            labels.add('ad_empty_data')
        ctx.case(('ad', [[t, d] for t, d in structs]), bool(structs), labels, sample={'ad': b''.join(bytes([len(d) + 1, t]) + d for t, d in structs)[:48].hex(), 'total': total})

    ctx.hyp('ad/31', one, ad_structs(31), max_examples=n)
    ctx.hyp('ad/1650', one, ad_structs(1650), max_examples=max(5, n // 2))


# ---------------------------------------------------------------------------
# Address (Core Vol 6 Part B 1.3): bytes little-endian, strings MSB first
# ---------------------------------------------------------------------------
def check_address(ctx, p) -> None:
    b, t = bytes(p['bytes']), int(p['type'])
    case = {'kind': 'address', 'bytes': b, 'type': t}
    A = hci.Address
    at = hci.AddressType(t)
    public = t in (0, 2)
    text = ':'.join(f'{x:02X}' for x in reversed(b))
    try:
        a = A(b, at)
        if bytes(a) != b or int(a.address_type) != t:
            ctx.fail('encode/Address/bytes', f'Address({b.hex()}, {t}) holds {bytes(a).hex()} type {a.address_type}', case)
            return
        if a.to_string(False) != text or str(a) != text + ('/P' if public else ''):
            ctx.fail('encode/Address/string', f'{b.hex()} type {t} renders as {str(a)!r}, expected {text!r}', case)
            return
        forms = [(text, at), (text.replace(':', ''), at), (text.lower(), at), (str(a), at), (a.to_string(False), at)]
        if public:
            forms.append((text + '/P', hci.AddressType.RANDOM_DEVICE))
        for s, given in forms:
            x = A(s, given)
            if bytes(x) != b:
                ctx.fail('decode_fields/Address/string', f'Address({s!r}) has bytes {bytes(x).hex()}, expected {b.hex()}', case)
                return
            if x.is_public != public or not (x == a and a == x) or hash(x) != hash(a):
                ctx.fail('eq/Address/string', f'Address({s!r}, {int(given)}) is not equal to Address({b.hex()}, {t})', case)
                return
        data = b'\x77' + bytes([t]) + b + b'\x01\x02'
        for name, got in (('parse_address_with_type', A.parse_address_with_type(data, 2, at)), ('parse_address_preceded_by_type', A.parse_address_preceded_by_type(data, 2))):
            end, x = got
            if end != 8 or bytes(x) != b or int(x.address_type) != t or bytes(A(bytes(x), x.address_type)) != b:
                ctx.fail(f'decode_fields/Address/{name}', f'{data.hex()} parsed as {x!r} ending at {end}', case)
                return
        for name, want_t, got in (('parse_address', 0, A.parse_address(data, 2)), ('parse_random_address', 1, A.parse_random_address(data, 2))):
            end, x = got
            if end != 8 or bytes(x) != b or int(x.address_type) != want_t:
                ctx.fail(f'decode_fields/Address/{name}', f'{data.hex()} parsed as {x!r} ending at {end}', case)
                return
        c = a.clone()
        if bytes(c) != b or int(c.address_type) != t or c != a:
            ctx.fail('eq/Address/clone', 'clone differs', case)
    except Exception as e:
        ctx.fail(f'raises/Address/{type(e).__name__}', f'Address {b.hex()} type {t}: {e!r}', case)


def run_address(ctx, n) -> None:
    def one(d):
        b, t = d
        check_address(ctx, {'bytes': b, 'type': t})
        ctx.case(('addr', b, t), any(b), {'address', f'addr_type:{t}'}, sample={'address': b.hex(), 'type': t})

    ctx.hyp('address', one, st.tuples(specgen.nbytes_exact(6), st.integers(0, 3)), max_examples=n)


# ---------------------------------------------------------------------------
# UUID (Core Vol 3 Part B 2.5.1): 16 / 32 / 128 bits, little-endian bytes, big-endian strings
# ---------------------------------------------------------------------------
def uuid_strings(le: bytes):
    h = bytes(le)[::-1].hex()
    out = [h.upper(), h.lower()]
    if len(le) == 16:
        d = f'{h[0:8]}-{h[8:12]}-{h[12:16]}-{h[16:20]}-{h[20:32]}'
        out += [d.upper(), d.lower()]
    return out


def check_uuid(ctx, p) -> None:
    restore_registries()
    le = bytes(p['le'])
    case = {'kind': 'uuid', 'le': le}
    w = len(le)
    full = norm128(le)
    try:
        made = [UUID(s) for s in uuid_strings(le)]
        if w == 2:
            made.append(UUID(int.from_bytes(le, 'little')))
        for u in made:
            if bytes(u) != le or u.to_bytes() != le:
                ctx.fail('encode/UUID', f'UUID built from a {w}-byte string form holds {bytes(u).hex()}, expected {le.hex()}', case)
                return
            if u.to_bytes(force_128=True) != full or u.to_pdu_bytes() != (full if w == 4 else le):
                ctx.fail('encode/UUID/128', f'{le.hex()} widens to {u.to_bytes(force_128=True).hex()}', case)
                return
            for s in (u.to_hex_str(), u.to_hex_str('-')):
                if bytes(UUID(s)) != le:
                    ctx.fail('decode_fields/UUID/string', f'{le.hex()} -> {s!r} -> {bytes(UUID(s)).hex()}', case)
                    return
            if not (u == made[0] and made[0] == u and hash(u) == hash(made[0])):
                ctx.fail('eq/UUID', 'two UUIDs built from forms of the same value differ', case)
                return
        parsers = [('UUID.from_bytes', lambda: UUID.from_bytes(le))]
        parsers.append(('UUID.parse_uuid', lambda: UUID.parse_uuid(b'\x08\x01' + le, 2)[1]))
        if w == 2:
            parsers.append(('UUID.from_16_bits', lambda: UUID.from_16_bits(int.from_bytes(le, 'little'))))
            parsers.append(('UUID.parse_uuid_2', lambda: UUID.parse_uuid_2(b'\x06' + le + b'\xAA', 1)[1]))
        if w == 4:
            parsers.append(('UUID.from_32_bits', lambda: UUID.from_32_bits(int.from_bytes(le, 'little'))))
        for name, fn in parsers:
            restore_registries()
            x = fn()
            if not (x == made[0]) or x.to_bytes(force_128=True) != full:
                ctx.fail(f'decode_fields/{name}', f'{le.hex()} parsed as {bytes(x).hex()}', case)
                return
            if bytes(x) != le:
                ctx.fail(f'uuid_width/{name}', f'{w}-byte UUID {le.hex()} parsed by {name} serialises as {bytes(x).hex()} ({len(bytes(x))} bytes)', case)
                return
            y = fn()  # a second parse after the first one registered it
            if bytes(y) != le:
                ctx.fail(f'uuid_width/{name}', f'second parse of {le.hex()} serialises as {bytes(y).hex()}', case)
                return
    except Exception as e:
        ctx.fail(f'raises/UUID/{type(e).__name__}', f'UUID {le.hex()}: {e!r}', case)


def run_uuid(ctx, n) -> None:
    def one(le):
        check_uuid(ctx, {'le': le})
        labels = {'uuid', f'uuid:{len(le)}'}
        if is_base_expansion(le):
            labels.add('uuid_base_expansion')
        ctx.case(('uuid', le), any(le), labels, sample={'uuid': le.hex()})

    ctx.hyp('uuid', one, uuid_le(), max_examples=n)


# ---------------------------------------------------------------------------
# History: operation lists over the process-wide UUID registry
# op = {'op': name, ...plain data}; the registry is restored between runs, never inside one
# ---------------------------------------------------------------------------
def _hist_step(op):
    """Executes one operation; returns (site, bytes the result must serialise to, bytes it does) or None."""
    k = op['op']
    if k == 'uuid_str':
        u = UUID(op['s'])
        return 'UUID()', bytes.fromhex(op['s'].replace('-', ''))[::-1], bytes(u)
    b = bytes(op.get('b', b''))
    if k == 'from_bytes':
        return 'UUID.from_bytes', b, bytes(UUID.from_bytes(b))
    if k == 'from_16':
        return 'UUID.from_16_bits', op['v'].to_bytes(2, 'little'), bytes(UUID.from_16_bits(op['v']))
    if k == 'from_32':
        return 'UUID.from_32_bits', op['v'].to_bytes(4, 'little'), bytes(UUID.from_32_bits(op['v']))
    if k == 'register':
        return 'UUID.register', b, bytes(uuid_obj(b).register())
    if k == 'parse_uuid':
        return 'UUID.parse_uuid', b, bytes(UUID.parse_uuid(b'\x10' + b, 1)[1])
    if k == 'ad':  # one UUID-list or service-data structure
        t = op['t']
        wire = bytes([len(b) + 1, t]) + b
        ad = core.AdvertisingData.from_bytes(wire)
        obj = data_types.data_type_from_advertising_data(core.AdvertisingData.Type(t), ad.ad_structures[0][1])
        seen = ad.get(t)
        via_get = b''.join(bytes(u) for u in seen) if isinstance(seen, list) else bytes(seen[0]) + bytes(seen[1])
        out = bytes(core.AdvertisingData([obj]))
        if out == wire and via_get != b:
            return 'AdvertisingData.get', b, via_get
        return 'AdvertisingData', wire, out
    if k == 'sdp':
        e = sdp.DataElement.from_bytes(b)
        return 'DataElement', b, bytes(fresh(e))
    if k == 'att':
        pdu = att.ATT_PDU.from_bytes(b)
        cls = type(pdu)
        return 'ATT_PDU', b, bytes(cls(**{n: fresh(getattr(pdu, n)) for n in specgen.flat_names(cls.fields)}))
    raise HarnessError(f'unknown history op {k!r}')


def _op_value(op):
    """(128-bit value, width) of the UUIDs an operation carries, for the 'follows another width' label."""
    k = op['op']
    if k == 'uuid_str':
        le = bytes.fromhex(op['s'].replace('-', ''))[::-1]
        return [(norm128(le), len(le))]
    if k == 'from_16':
        return [(norm128(op['v'].to_bytes(2, 'little')), 2)]
    if k == 'from_32':
        return [(norm128(op['v'].to_bytes(4, 'little')), 4)]
    return [(norm128(x), len(x)) for x in op.get('u', [])] or ([(norm128(op['b']), len(op['b']))] if k in ('from_bytes', 'register', 'parse_uuid') else [])


def check_history(ctx, p, count=True) -> set:
    ops = p['ops']
    case = {'kind': 'uuid_history', 'ops': ops}
    restore_registries()
    seen = {}
    for u, _ in _UUID_SNAP:
        seen.setdefault(u.uuid_128_bytes, set()).add(len(u.uuid_bytes))
    labels = set()
    try:
        for i, op in enumerate(ops):
            follows = any(seen.get(v, set()) - {w} for v, w in _op_value(op))
            try:
                site, want, got = _hist_step(op)
            except HarnessError:
                raise
            except Exception as e:
                ctx.fail(f'history_raises/{op["op"]}/{type(e).__name__}', f'step {i} {op["op"]} raised {e!r}', case)
                return labels
            if op['op'] != 'uuid_str':
                for v, w in _op_value(op):
                    seen.setdefault(v, set()).add(w)
            if follows and op['op'] != 'uuid_str':
                labels.add('history_width_follow')
            labels.add('history_op:' + op['op'])
            if got != want:
                ctx.fail(f'uuid_width/history/{site}' if len(got) != len(want) or op['op'] in ('ad', 'sdp', 'att') else f'history/{site}',
                         f'step {i}: {site} of {want.hex()} serialises to {got.hex()} after {i} earlier operation(s)', case)
                return labels
    finally:
        restore_registries()
    return labels


@st.composite
def history_ops(draw):
    fresh16 = [0xFD00 + i for i in range(4)] + [0xABCD]
    vals = draw(st.lists(st.one_of(st.sampled_from(REG16), st.sampled_from(fresh16)), min_size=1, max_size=2, unique=True))
    n = draw(st.integers(1, 10))
    ops = []
    for _ in range(n):
        v = draw(st.sampled_from(vals))
        w = draw(st.sampled_from([2, 4, 16]))
        le = v.to_bytes(2, 'little') if w == 2 else v.to_bytes(4, 'little') if w == 4 else uuid128_le(v)
        kind = draw(st.sampled_from(['uuid_str', 'from_bytes', 'from_bytes', 'from_16', 'from_32', 'register', 'parse_uuid', 'ad', 'ad', 'sdp', 'att']))
        if kind == 'uuid_str':
            ops.append({'op': kind, 's': draw(st.sampled_from(uuid_strings(le)))})
        elif kind == 'from_16':
            ops.append({'op': kind, 'v': v})
        elif kind == 'from_32':
            ops.append({'op': kind, 'v': v})
        elif kind in ('from_bytes', 'register', 'parse_uuid'):
            ops.append({'op': kind, 'b': le})
        elif kind == 'ad':
            if draw(st.booleans()):
                t = {2: 0x03, 4: 0x05, 16: 0x07}[w]
                ops.append({'op': 'ad', 't': t, 'b': le, 'u': [le]})
            else:
                t = {2: 0x16, 4: 0x20, 16: 0x21}[w]
                ops.append({'op': 'ad', 't': t, 'b': le + draw(st.binary(max_size=3)), 'u': [le]})
        elif kind == 'sdp':
            tree = draw(st.sampled_from([['uuid', le], ['seq', [['uuid', le]]], ['seq', [['seq', [['uuid', le], ['uint', 1, 3]]]]]]))
            ops.append({'op': 'sdp', 'b': de_encode(tree), 'u': [le]})
        else:
            if w == 4:
                le = uuid128_le(v)
            ops.append({'op': 'att', 'b': bytes([0x08, 0x01, 0x00, 0xFF, 0xFF]) + le, 'u': [le]})
    return ops


def run_history(ctx, n) -> None:
    def one(ops):
        labels = check_history(ctx, {'ops': ops}) | {'uuid_history', f'history_len:{min(len(ops), 5)}'}
        ctx.case(('hist', ops), 'history_width_follow' in labels, labels, sample={'ops': [o['op'] for o in ops]})

    ctx.hyp('history', one, history_ops(), max_examples=n)


# ---------------------------------------------------------------------------
# Golden vectors written from the specifications (Core Vol 3 Part A 4, Part F 3.4, Part H 3.5/3.6, Part B 4):
# they anchor the field ORDER and widths independently of bumble's field lists.
# (registry, code, header, {field: value}, hex)
# ---------------------------------------------------------------------------
def _u(h):
    return UUID(h)


def golden_vectors():
    H = bytes.fromhex
    pattern = ['seq', [['uuid', H('0111')]]]
    attrs = ['seq', [['uint', 4, 0x0000FFFF]]]
    return [
        ('att', 0x01, {}, dict(request_opcode_in_error=0x08, attribute_handle_in_error=0x0102, error_code=0x0A), '01 08 02 01 0A'),
        ('att', 0x02, {}, dict(client_rx_mtu=0x0203), '02 03 02'),
        ('att', 0x03, {}, dict(server_rx_mtu=0x0117), '03 17 01'),
        ('att', 0x04, {}, dict(starting_handle=0x0001, ending_handle=0xFFFE), '04 01 00 FE FF'),
        ('att', 0x05, {}, dict(format=1, information_data=H('01000028')), '05 01 01 00 00 28'),
        ('att', 0x06, {}, dict(starting_handle=0x0001, ending_handle=0xFFFE, attribute_type=_u('2800'), attribute_value=H('0D18')), '06 01 00 FE FF 00 28 0D 18'),
        ('att', 0x07, {}, dict(handles_information_list=H('01000500')), '07 01 00 05 00'),
        ('att', 0x08, {}, dict(starting_handle=0x0001, ending_handle=0xFFFE, attribute_type=_u('2803')), '08 01 00 FE FF 03 28'),
        ('att', 0x09, {}, dict(length=7, attribute_data_list=H('02000A0300002A')), '09 07 02 00 0A 03 00 00 2A'),
        ('att', 0x0A, {}, dict(attribute_handle=0x0103), '0A 03 01'),
        ('att', 0x0B, {}, dict(attribute_value=H('4142')), '0B 41 42'),
        ('att', 0x0C, {}, dict(attribute_handle=0x0103, value_offset=0x0016), '0C 03 01 16 00'),
        ('att', 0x0E, {}, dict(set_of_handles=[0x0003, 0x0105]), '0E 03 00 05 01'),
        ('att', 0x10, {}, dict(starting_handle=0x0001, ending_handle=0xFFFE, attribute_group_type=_u('2800')), '10 01 00 FE FF 00 28'),
        ('att', 0x11, {}, dict(length=6, attribute_data_list=H('010005000018')), '11 06 01 00 05 00 00 18'),
        ('att', 0x12, {}, dict(attribute_handle=0x0103, attribute_value=H('0100')), '12 03 01 01 00'),
        ('att', 0x13, {}, {}, '13'),
        ('att', 0x16, {}, dict(attribute_handle=0x0103, value_offset=0x0201, part_attribute_value=H('AA')), '16 03 01 01 02 AA'),
        ('att', 0x17, {}, dict(attribute_handle=0x0103, value_offset=0x0201, part_attribute_value=H('AA')), '17 03 01 01 02 AA'),
        ('att', 0x18, {}, dict(flags=1), '18 01'),
        ('att', 0x1B, {}, dict(attribute_handle=0x0103, attribute_value=H('AA')), '1B 03 01 AA'),
        ('att', 0x1D, {}, dict(attribute_handle=0x0103, attribute_value=H('AA')), '1D 03 01 AA'),
        ('att', 0x20, {}, dict(set_of_handles=[0x0003, 0x0105]), '20 03 00 05 01'),
        ('att', 0x21, {}, dict(length_value_tuple_list=[(2, H('AABB')), (1, H('CC'))]), '21 02 00 AA BB 01 00 CC'),
        ('att', 0x52, {}, dict(attribute_handle=0x0103, attribute_value=H('AA')), '52 03 01 AA'),
        ('l2cap', 0x01, dict(identifier=1), dict(reason=0x0002, data=H('40004100')), '01 01 06 00 02 00 40 00 41 00'),
        ('l2cap', 0x02, dict(identifier=2), dict(psm=0x0001, source_cid=0x0040), '02 02 04 00 01 00 40 00'),
        ('l2cap', 0x02, dict(identifier=2), dict(psm=0x1001, source_cid=0x0040), '02 02 04 00 01 10 40 00'),
        ('l2cap', 0x03, dict(identifier=2), dict(destination_cid=0x0041, source_cid=0x0040, result=0x0001, status=0x0002), '03 02 08 00 41 00 40 00 01 00 02 00'),
        ('l2cap', 0x04, dict(identifier=3), dict(destination_cid=0x0041, flags=0x0001, options=H('0102A002')), '04 03 08 00 41 00 01 00 01 02 A0 02'),
        ('l2cap', 0x05, dict(identifier=3), dict(source_cid=0x0040, flags=0x0001, result=0x0003, options=H('0102A002')), '05 03 0A 00 40 00 01 00 03 00 01 02 A0 02'),
        ('l2cap', 0x06, dict(identifier=4), dict(destination_cid=0x0041, source_cid=0x0040), '06 04 04 00 41 00 40 00'),
        ('l2cap', 0x07, dict(identifier=4), dict(destination_cid=0x0041, source_cid=0x0040), '07 04 04 00 41 00 40 00'),
        ('l2cap', 0x0A, dict(identifier=5), dict(info_type=0x0002), '0A 05 02 00 02 00'),
        ('l2cap', 0x0B, dict(identifier=5), dict(info_type=0x0002, result=0x0001, data=H('B8020000')), '0B 05 08 00 02 00 01 00 B8 02 00 00'),
        ('l2cap', 0x12, dict(identifier=6), dict(interval_min=0x0006, interval_max=0x0C80, latency=0x0001, timeout=0x00C8), '12 06 08 00 06 00 80 0C 01 00 C8 00'),
        ('l2cap', 0x14, dict(identifier=7), dict(le_psm=0x0080, source_cid=0x0040, mtu=0x0200, mps=0x0100, initial_credits=0x0005), '14 07 0A 00 80 00 40 00 00 02 00 01 05 00'),
        ('l2cap', 0x15, dict(identifier=7), dict(destination_cid=0x0041, mtu=0x0200, mps=0x0100, initial_credits=0x0005, result=0x0004), '15 07 0A 00 41 00 00 02 00 01 05 00 04 00'),
        ('l2cap', 0x16, dict(identifier=8), dict(cid=0x0040, credits=0x0003), '16 08 04 00 40 00 03 00'),
        ('l2cap', 0x17, dict(identifier=9), dict(spsm=0x0080, mtu=0x0200, mps=0x0100, initial_credits=0x0005, source_cid=[0x0040, 0x0041]), '17 09 0C 00 80 00 00 02 00 01 05 00 40 00 41 00'),
        ('l2cap', 0x18, dict(identifier=9), dict(mtu=0x0200, mps=0x0100, initial_credits=0x0005, result=0x0004, destination_cid=[0x0042, 0x0000]), '18 09 0C 00 00 02 00 01 05 00 04 00 42 00 00 00'),
        ('l2cap', 0x19, dict(identifier=10), dict(mtu=0x0200, mps=0x0100, destination_cid=[0x0042]), '19 0A 06 00 00 02 00 01 42 00'),
        ('smp', 0x01, {}, dict(io_capability=3, oob_data_flag=0, auth_req=0x0D, maximum_encryption_key_size=16, initiator_key_distribution=7, responder_key_distribution=5), '01 03 00 0D 10 07 05'),
        ('smp', 0x02, {}, dict(io_capability=4, oob_data_flag=1, auth_req=0x09, maximum_encryption_key_size=7, initiator_key_distribution=2, responder_key_distribution=3), '02 04 01 09 07 02 03'),
        ('smp', 0x05, {}, dict(reason=8), '05 08'),
        ('smp', 0x07, {}, dict(ediv=0x1234, rand=H('0102030405060708')), '07 34 12 01 02 03 04 05 06 07 08'),
        ('smp', 0x09, {}, dict(addr_type=1, bd_addr=hci.Address(H('665544332211'), hci.AddressType.RANDOM_DEVICE)), '09 01 66 55 44 33 22 11'),
        ('smp', 0x0C, {}, dict(public_key_x=bytes(range(32)), public_key_y=bytes(range(32, 64))), '0C ' + bytes(range(64)).hex()),
        ('sdp', 0x01, dict(transaction_id=0x0102), dict(error_code=3), '01 01 02 00 02 00 03'),
        ('sdp', 0x02, dict(transaction_id=2), dict(service_search_pattern=de_build(pattern), maximum_service_record_count=0x000A, continuation_state=H('00')),
         '02 00 02 00 08 35 03 19 11 01 00 0A 00'),
        ('sdp', 0x03, dict(transaction_id=2), dict(total_service_record_count=0x0102, service_record_handle_list=[0x00010002], continuation_state=H('00')),
         '03 00 02 00 09 01 02 00 01 00 01 00 02 00'),
        ('sdp', 0x04, dict(transaction_id=3), dict(service_record_handle=0x00010002, maximum_attribute_byte_count=0x0203, attribute_id_list=de_build(attrs), continuation_state=H('00')),
         '04 00 03 00 0E 00 01 00 02 02 03 35 05 0A 00 00 FF FF 00'),
        ('sdp', 0x05, dict(transaction_id=3), dict(attribute_list=H('3500'), continuation_state=H('0201FF')), '05 00 03 00 07 00 02 35 00 02 01 FF'),
        ('sdp', 0x06, dict(transaction_id=4), dict(service_search_pattern=de_build(pattern), maximum_attribute_byte_count=0x0203, attribute_id_list=de_build(attrs), continuation_state=H('00')),
         '06 00 04 00 0F 35 03 19 11 01 02 03 35 05 0A 00 00 FF FF 00'),
    ]


def run_golden(ctx) -> None:
    used = skipped = 0
    for reg_name, code, hdr, values, hexs in golden_vectors():
        reg = REGS[reg_name]
        wire = bytes.fromhex(hexs.replace(' ', ''))
        by_code = {int(k): c for k, c in reg.classes()}
        cls = by_code.get(code)
        names = set(specgen.flat_names(reg.fields(cls))) if cls else set()
        if cls is None or names != set(values):
            skipped += 1
            continue
        used += 1
        case = {'kind': 'pdu', 'reg': reg_name, 'key': reg.key_str(code), 'pdu': wire}
        check_unit(ctx, reg, code, cls, wire, values, values, hdr, dict(case, golden=1))
        ctx.case(('golden', reg_name, wire), True, {'golden', 'golden:' + reg_name}, sample={'golden': cls.__name__, 'pdu': wire.hex()})
    if skipped:
        ctx.notes.append(f'{skipped} golden vector(s) skipped: class or field names no longer match the registry')
    ctx.extra['golden_vectors'] = {'used': used, 'skipped': skipped}


# ---------------------------------------------------------------------------
def run(ctx) -> None:
    per_class = ctx.n(40, 1500)
    registered, covered = {}, {}
    run_golden(ctx)
    for reg in REGS.values():
        r, c = run_registry(ctx, reg, per_class, dedicated_for(reg))
        registered[reg.name], covered[reg.name] = r, c
    avc_cov = run_avc(ctx, per_class)
    registered['avc'] = len(avc.CommandFrame.subclasses) + len(avc.ResponseFrame.subclasses)
    covered['avc'] = len(avc_cov)
    r, c = run_ad_typed(ctx, per_class)
    registered['ad_typed'], covered['ad_typed'] = r, c

    run_ertm(ctx, ctx.n(150, 8000))
    run_psm(ctx, ctx.n(150, 8000))
    run_l2cap_basic(ctx, ctx.n(80, 4000))
    run_elements(ctx, ctx.n(600, 24000))
    run_rfcomm(ctx, ctx.n(200, 16000))
    run_mcc(ctx, ctx.n(100, 8000))
    run_caps(ctx, ctx.n(150, 12000))
    run_avctp(ctx, ctx.n(100, 6000))
    run_avrcp_pdu(ctx, ctx.n(60, 4000))
    run_avdtp_unregistered(ctx)
    run_rtp(ctx, ctx.n(200, 12000))
    run_ad(ctx, ctx.n(150, 12000))
    run_address(ctx, ctx.n(150, 8000))
    run_uuid(ctx, ctx.n(250, 16000))
    run_history(ctx, ctx.n(400, 30000))
    restore_registries()
    run_fuzz(ctx)
    restore_registries()

    ctx.extra['classes_registered'] = registered
    ctx.extra['classes_covered'] = covered
    for name in registered:
        if registered[name] != covered[name] or registered[name] == 0:
            raise HarnessError(f'registry {name}: {covered[name]} of {registered[name]} registered classes covered')
    ctx.notes.append('avrcp.RejectedResponse / NotImplementedResponse are not in Response.subclasses (no class-level pdu_id) and are not reached by any parse entry point')

    floors = ['sdp_wide', 'sdp_wide:31+empty_containers', 'golden', 'ertm_i', 'ertm_s', 'ertm_s_poll', 'ertm_final', 'psm_len2', 'psm_len3', 'psm_len4', 'sdp_nonminimal_size',
              'rfcomm_type:2f', 'rfcomm_type:63', 'rfcomm_type:0f', 'rfcomm_type:43', 'mcc_pn', 'mcc_msc', 'mcc_envelope',
              'codec:sbc', 'codec:aac', 'codec:vendor', 'codec:opus', 'caps_generic', 'avctp', 'rtp_padding', 'rtp_extension', 'rtp_marker',
              'ad_total<=31', 'ad_total<=1650', 'ad_typed', 'uuid:2', 'uuid:4', 'uuid:16', 'uuid_base_expansion', 'uuid_history',
              'history_width_follow', 'avc:vendor', 'avc:passthrough', 'avc:passthrough_data', 'avc:generic', 'spec:psm', 'spec:data_element',
              'spec:capabilities', 'spec:uuid_rest', 'spec:list_group', 'spec:enum', 'spec:rest', 'spec:bytes']
    floors += [f'addr_type:{t}' for t in range(4)] + [f'sdp_type:{k}' for k in _DE_TYPES] + [f'sdp_idx:{i}' for i in range(8)]
    # extension families
    ctx.floor('parsed_twice_with_edit', 100)
    for label in ('len16>=256:l2cap', 'len16>=256:sdp', 'len16>=256:avrcp_item'):
        ctx.floor(label, 2 if ctx.quick else 1)
    floors += ['att_view', 'att_view:records:2', 'big_body', 'body>=256:att',
               'l2cap_pdu', 'l2cap_options', 'l2cap_options:hint', 'l2cap_options:empty_value', 'avrcp_pdu:cmd', 'avrcp_pdu:rsp', 'avrcp_pdu:typed',
               'avrcp_pdu:opaque', 'avrcp_pdu:rejected', 'avrcp_pdu_len>=256', 'avrcp_pdu_prior:1', 'avrcp_pdu_prior:2', 'ad_objects', 'ad_generic_object',
               'ad_simple_view:interpreted', 'ad_simple_view:raw', 'avdtp_spec_defined_reject']
    for label in floors:
        ctx.floor(label, 3 if ctx.quick else 1)
    # boundary classes the property names; the plain loops are sharded, so a single shard holds a share of them
    share = 1 if ctx.nshards > 1 else None
    for k in (127, 128):
        for c in ('plain', 'credits'):
            ctx.floor(f'rfcomm_len:{k}:{c}', share or 2)
    for k in (0, 1, 126, 129, 32767):
        ctx.floor(f'rfcomm_len:{k}:plain', 0 if share else 2)
        ctx.floor(f'rfcomm_len:{k}:credits', 0 if share else 2)
    for size in (255, 256, 65535, 65536):
        ctx.floor(f'sdp_size:{size}', 0 if share else 4)
    for d in (0, 1, 5, 10, 20):
        ctx.floor(f'sdp_depth:{d}', 0 if share else 1)
    for k in (0, 1, 255, 256, 65535):  # enumerated in every shard
        ctx.floor(f'l2cap_pdu_len:{k}', 1)
        ctx.floor(f'avrcp_pdu_len:{k}', 1)
    for cc in (0, 1, 2, 15):
        ctx.floor(f'rtp_cc:{cc}', 0 if share else 1)


# ---------------------------------------------------------------------------
# coverage-guided campaign (atheris, thorough tier): normalisation idempotence on arbitrary bytes
# ---------------------------------------------------------------------------
_FUZZ_REGS = ('l2cap', 'att', 'smp', 'sdp', 'avdtp', 'avrcp_evt')


def _fuzz_targets():
    """(name, parse(bytes) -> object, rebuild(object) -> bytes of a FRESH object built from the parsed fields)."""
    out = []
    for name in _FUZZ_REGS:
        reg = REGS[name]
        known = {cls for _key, cls in reg.classes()}

        def parse(data, reg=reg, known=known):
            obj = reg.parse(data, None)
            if type(obj) not in known:
                raise ValueError('class outside the registry (generic/unknown code)')
            return obj

        def rebuild(obj, reg=reg):
            cls = type(obj)
            hdr = reg.hdr_of(obj, {'label': 0, 'rejected_signal': 1})
            values = {n: fresh(getattr(obj, n)) for n in specgen.flat_names(reg.fields(cls))}
            return reg.ser(reg.build(cls, values, hdr), hdr)

        out.append((name, parse, rebuild))
    out.append(('sdp_element', sdp.DataElement.from_bytes, lambda e: bytes(de_build(de_tree(e)))))
    out.append(('rfcomm', rfcomm.RFCOMM_Frame.from_bytes, _rf_rebuild_bytes))
    out.append(("ad", core.AdvertisingData.from_bytes, lambda a: bytes(core.AdvertisingData([(t, bytes(d)) for t, d in a.ad_structures]))))
    return out


def _rf_rebuild_bytes(o):
    return bytes(_rf_rebuild(o))


_FUZZ = []


def fuzz_pdu(data: bytes) -> None:
    """First byte selects the codec, the rest is its input. Arbitrary bytes are not known to be well-formed, so only
    this is asserted: if parse(b) succeeds and a fresh object rebuilt from the parsed fields serialises to b1, then b1
    (a serialisation produced by the library itself) must parse to the same class and re-serialise to b1 again."""
    from vlib.fuzz import FuzzViolation

    if not _FUZZ:
        _FUZZ.extend(_fuzz_targets())
    data = bytes(data)
    if len(data) < 2:
        return
    name, parse, rebuild = _FUZZ[data[0] % len(_FUZZ)]
    body = data[1:]
    uuids = list(UUID.UUIDS)
    try:
        try:
            p1 = parse(body)
            b1 = rebuild(p1)
        except Exception:
            return  # not parseable, or parsed values outside what can be serialised
        try:
            p2 = parse(b1)
            b2 = rebuild(p2)
        except Exception as e:
            raise FuzzViolation(f'fuzz/normalised_not_parseable/{name}/{type(p1).__name__}', f'{body.hex()} -> {b1.hex()}: {e!r}')
        if type(p2) is not type(p1):
            raise FuzzViolation(f'fuzz/class_changes/{name}/{type(p1).__name__}', f'{b1.hex()} parses as {type(p2).__name__}')
        if b2 != b1:
            raise FuzzViolation(f'fuzz/not_idempotent/{name}/{type(p1).__name__}', f'{body.hex()} -> {b1.hex()} -> {b2.hex()}')
    finally:
        UUID.UUIDS[:] = uuids


def check_fuzz_case(ctx, case) -> None:
    from vlib.fuzz import FuzzViolation

    try:
        fuzz_pdu(case['data'])
    except FuzzViolation as v:
        ctx.fail(v.signature, v.what, case)


def run_fuzz(ctx) -> None:
    from vlib import fuzz

    if ctx.quick or ctx.shard >= 6:
        return
    seeds = []
    if ctx.shard % 2 == 0:  # odd shards start from an empty corpus
        seeds = [bytes([0]) + bytes.fromhex('0a01080001000200'), bytes([1]) + bytes.fromhex('0a0300'), bytes([2]) + bytes.fromhex('0103000110070f'),
                 bytes([3]) + bytes.fromhex('0600010008350319110100ff00'), bytes([4]) + bytes.fromhex('1001'), bytes([6]) + bytes.fromhex('3503191101'),
                 bytes([7]) + bytes.fromhex('0bef0568697a'), bytes([8]) + bytes.fromhex('020106030312180509414243')]
    r = fuzz.campaign(ctx, 'checks.c18_pdu_codecs', 'fuzz_pdu', runs=60000, max_len=200, seeds=seeds, name=f'pdu_s{ctx.shard}', timeout=1200)
    ctx.extra.setdefault('fuzz', {})[f'shard{ctx.shard}'] = {k: r[k] for k in ('status', 'executions')}
    ctx.extra['sum_fuzz_executions'] = ctx.extra.get('sum_fuzz_executions', 0) + r['executions']
    for sig, what, data in r['crashes']:
        ctx.fail(sig, what, {'kind': 'fuzz', 'data': data})


# ---------------------------------------------------------------------------
_REPLAYERS = {
    'pdu': replay_pdu,
    'avc': check_avc,
    'ertm': check_ertm,
    'psm': check_psm,
    'l2cap_pdu': check_l2cap_pdu,
    'l2cap_options': check_l2cap_options,
    'sdp_element': check_element,
    'rfcomm': check_rfcomm,
    'mcc': check_mcc,
    'caps': check_caps,
    'avctp': check_avctp,
    'avrcp_pdu': check_avrcp_pdu,
    'avdtp_unregistered': check_avdtp_unregistered,
    'rtp': check_rtp,
    'ad_typed': check_ad_typed,
    'ad': check_ad,
    'address': check_address,
    'uuid': check_uuid,
    'uuid_history': check_history,
    'fuzz': check_fuzz_case,
}


def replay(ctx, case) -> None:
    """Re-run one plain-data case without Hypothesis."""
    kind = case.get('kind')
    if kind not in _REPLAYERS:
        raise HarnessError(f'unknown case kind {kind!r}')
    ctx.case(('replay', repr(case)[:200]), True, {'replay'})
    _REPLAYERS[kind](ctx, case)
    restore_registries()
