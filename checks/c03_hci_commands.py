"""
C03 - One HCI command outstanding; every command is answered exactly once.

One real Host <-> HCI tap (generated order-preserving delays) <-> real virtual Controller on a
LocalLink with 0..1 peer controllers. Programs of HCI command packets (every registered class
with arbitrary field values, unregistered opcodes, procedure commands with situational
parameters) are issued by 1..6 concurrent callers through Host.send_command; the oracle is an
invariant over the tapped HCI history.

Directed families (second round): procedures on live links - an LE and a BR/EDR link to a peer that answers and
comes back after a disconnection (link_programs); CIS set-up as a central with a peer whose host accepts after a
think time, met by commands that touch the CIG / the ACL / the CIS while it is pending (cis_programs); a controller
that withholds the HCI command credit and returns it with a Command Complete for opcode 0 (credit_programs).

Third round: callers that give up (cancel_programs). A caller of Host.send_command is cancelled (task.cancel()) or runs
into an enclosing asyncio.wait_for time-out at a generated point of its command's life - before it runs, while it waits
for the command channel, after the command was written, when the command has reached the controller, in the very loop
iteration in which the response is dispatched, after the response - and is followed by further sequential and
concurrent callers. The wire clauses are judged as everywhere else; a caller that was made to give up may end with
CancelledError / TimeoutError, every other caller must get the response with its own opcode.
"""

from __future__ import annotations

import asyncio
import collections
import itertools

from hypothesis import strategies as st

from bumble import hci
import bumble.vendor.android.hci  # noqa: F401  (registers the vendor command classes; see below)
import bumble.vendor.zephyr.hci  # noqa: F401
from bumble.controller import Controller
from bumble.host import Host
from vlib import specgen, vloop, world
from vlib.runner import HarnessError

# The command registry is process-wide and the vendor modules add classes to it when they are imported. They are imported
# here, up front, so that a case behaves the same in a fresh replay process as in the middle of a run (a vendor command
# is then a registered class with its own return-parameter parser everywhere, as in an application that uses a driver).

PROPERTY = 'C03'
LEVEL = 'exploration'
RULE = (
    'programs of HCI command packets drawn from every registered command class (field values from the '
    'spec-driven generator, situational handles/addresses substituted, object identifiers from a small pool), object '
    'programs (create an advertising set, then a command of each class that names a set by the same identifier, with '
    'operation/enable fields swept over 0..5), unregistered opcodes and '
    'procedure commands, distributed over 1..6 concurrent callers, with generated order-preserving HCI '
    'delays, controller capability variants and link situations (no peer / advertising peer / connected '
    'peer / peer leaving the link); every registered class is also sent once alone (registry '
    'enumerated). Three directed families on top: link programs (an LE link on handle 1 AND a BR/EDR link on handle 2 '
    'to a peer that answers, advertises every second and comes back: remote feature / name reads with the page number '
    'aimed at the peer\'s last page and beyond it, encryption, disconnection, the link created again on the handle '
    'used before and used again, with the peer leaving half-way in one case of five); CIS programs (LE Set CIG '
    'Parameters for 1..3 CISes, LE Create CIS over the live ACL for 1..n of the handles handed out, then 0..3 '
    'commands that meet the pending or finished set-up: remove / re-configure the CIG, disconnect the ACL or a CIS '
    'handle, a second LE Create CIS, an ISO data path; the peer\'s host accepts each request after 0 / 0.2 / 3 / 30 s); '
    'credit programs (the general programs against a controller that answers with Num_HCI_Command_Packets = 0 in a '
    'generated pattern and returns the credit in a Command Complete for opcode 0 after 0..60 ms). '
    'Callers that give up (cancel programs): 1..6 commands over 1..4 callers, at least one of them cancelled by '
    'task.cancel() at a generated point of its command\'s life - event (caller\'s task created / command written by '
    'the host / command delivered to the controller / response delivered to the host, before the host dispatches it) '
    '+ 0..50 ms + 0..3 loop iterations, which lands before the task runs, while it waits for the command channel, '
    'between write and response, in the loop iteration of the dispatch, after the dispatch before the caller has '
    'seen it, after the caller is done - or wrapped in an asyncio.wait_for of 0..120 ms; then 1..3 further phases '
    'of 1..4 commands by one caller (sequential) or several (concurrent), each phase started 0..100 ms after the '
    'callers before it have returned; plain reads, every registered class, unregistered opcodes; generated delays; '
    'one case in four against the credit-withholding controller. The grid event x hops (16) + wait_for 0..9 ms, '
    'alone / queued behind another caller, x 3 delay vectors x (sequential callers first / concurrent callers first) '
    '(312 cases) is enumerated in every shard. '
    'non-trivial = >=2 commands and (>=2 callers or non-zero delay or an '
    'unregistered/unhandled opcode or a procedure command or a caller that gives up); distinct by (packets, caller '
    'assignment, delays, peer think time, credit pattern, cancellation directives, phases). Floors: every procedure '
    'kind of the statement is accepted as pending >= 15 times and '
    'ends with success >= 10 times, pages within / beyond the peer\'s range, a disconnected BR/EDR link, a link that '
    'comes back on a used handle, withheld credits under concurrent callers; a caller cancelled in each of the 7 '
    'states of its command >= 10 times, timed out in each of 4 >= 5 times, a caller that gave up while its command '
    'was on its way followed by sequential / by concurrent callers >= 50 times each.'
)
ASSUMPTIONS = [
    'delays are order-preserving (as the property states); "eventually" is decided as: no stall and '
    'completion within the virtual-time horizon',
    'an LE connection creation towards a peer that never advertises is concluded by cancelling it '
    '(a controller has no timeout for it); the cancel must then produce the LE Connection Complete',
    'Num_HCI_Command_Packets is 1 in the virtual controller; in the credit programs the tap rewrites that field and '
    'injects the opcode-0 Command Complete events, only ever right after an answer that carried 0 (the credit is '
    'returned exactly once); there the clauses of the statement are judged as everywhere else (at most one command '
    'outstanding, own response, nobody waits forever) - whether the host also honours the 0 is not part of the statement',
    'a present peer has a host that answers what it is asked: it accepts classic connection requests at once and CIS '
    'requests after the generated think time (a peer that never answers is not one of the link situations of the '
    'property, and the virtual controller has no accept timeout)',
    'the CIS handles named in LE Create CIS are predicted by the generator (lowest free handles after the links of '
    'the situation); the floor on accepted CIS set-ups fails if the controller ever allocates differently',
    'a caller the harness cancels (or whose enclosing asyncio.wait_for expires) may end with CancelledError / '
    'TimeoutError or with the response to its own command, nothing else; its command, once written, still counts as '
    'outstanding at the controller until the controller has answered it (the statement counts commands at the '
    'controller, not callers); every other caller - before, beside and after it - is judged as everywhere else. '
    'Host.send_command(response_timeout=...) is not exercised (it declares the controller unresponsive; the virtual '
    'controller answers everything)',
    'to aim a cancellation the harness follows each command (serialised by the host = written; FIFO through the tap) '
    '- this bookkeeping only selects the moment, the verdict comes from the tapped history and the callers\' results. '
    'The last clause reads the anchored state (Host.command_semaphore permits, pending_command, pending_response) '
    'at quiescence, when every command is answered and every caller has returned: exactly one permit and nothing '
    'pending - any other value is a later "two outstanding" or "waits forever" that has not happened yet; it is '
    'judged only in cases with a caller that gives up and only when every other clause held',
]
SHRINK_KEYS = ('program', 'then')

HORIZON = 400.0
# link situations: which of them have a peer, an LE link (handle 1), a BR/EDR link on top (handle 2), a peer that
# leaves the link in the middle of the program, a peer that advertises every second and again after every
# connection event (so that connection creation inside the program succeeds and a link can come back)
SIT_LE_LINK = ('connected', 'peer_leaves', 'dual', 'dual_peer_leaves')
SIT_CLASSIC_LINK = ('dual', 'dual_peer_leaves')
SIT_LEAVES = ('peer_leaves', 'dual_peer_leaves')
SIT_FAST_ADV = ('adv_fast', 'dual', 'dual_peer_leaves')
ABSENT_PUBLIC = hci.Address('0A:0B:0C:0D:0E:0F', hci.Address.PUBLIC_DEVICE_ADDRESS)
# optional keys of a case (absent in the cases of the first generator families and in the committed replays)
OPTIONAL_KEYS = ('cis_accept', 'credit', 'gap')
NOP_CREDIT = bytes([0x04, 0x0E, 0x03, 0x01, 0x00, 0x00])  # Command Complete, Num_HCI_Command_Packets=1, opcode 0
VICTIM_RANDOM = hci.Address('C0:00:00:00:00:00')
PEER_RANDOM = hci.Address('C1:01:01:01:01:01')
PEER_PUBLIC = hci.Address('F1:F1:F1:F1:F1:F1', hci.Address.PUBLIC_DEVICE_ADDRESS)

E = hci
# procedure command opcode -> name of the completion it must be concluded by
PROCEDURES = {
    E.HCI_LE_CREATE_CONNECTION_COMMAND: 'le_connection_complete',
    E.HCI_LE_EXTENDED_CREATE_CONNECTION_COMMAND: 'le_connection_complete',
    E.HCI_CREATE_CONNECTION_COMMAND: 'connection_complete',
    E.HCI_DISCONNECT_COMMAND: 'disconnection_complete',
    E.HCI_LE_READ_REMOTE_FEATURES_COMMAND: 'le_read_remote_features_complete',
    E.HCI_REMOTE_NAME_REQUEST_COMMAND: 'remote_name_request_complete',
    E.HCI_READ_REMOTE_SUPPORTED_FEATURES_COMMAND: 'read_remote_supported_features_complete',
    E.HCI_READ_REMOTE_EXTENDED_FEATURES_COMMAND: 'read_remote_extended_features_complete',
    E.HCI_LE_ENABLE_ENCRYPTION_COMMAND: 'encryption_change',
    E.HCI_LE_CREATE_CIS_COMMAND: 'le_cis_established',
}


def completion_kind(packet: bytes):
    """Classifies a controller->host event as a procedure completion (harness-side table)."""
    if packet[0] != 0x04:
        return None
    code = packet[1]
    if code == 0x3E:
        sub = packet[3]
        return {
            0x01: 'le_connection_complete', 0x0A: 'le_connection_complete', 0x29: 'le_connection_complete',
            0x04: 'le_read_remote_features_complete', 0x19: 'le_cis_established',
        }.get(sub)
    return {
        0x03: 'connection_complete', 0x05: 'disconnection_complete', 0x07: 'remote_name_request_complete',
        0x0B: 'read_remote_supported_features_complete', 0x23: 'read_remote_extended_features_complete',
        0x08: 'encryption_change', 0x59: 'encryption_change', 0x30: 'encryption_change',
    }.get(code)


def cmd_name(op: int) -> str:
    cls = hci.HCI_Command.command_classes.get(op)
    return cls.__name__ if cls else f'unregistered_0x{op:04X}'


# ---------------------------------------------------------------------------
# generators
# ---------------------------------------------------------------------------
def _substitute(cls, values: dict, sub: dict) -> dict:
    """Situational parameters: live/unknown handles, the peer's addresses, sane advertising intervals."""
    v = dict(values)
    for name in list(v):
        if name in ('connection_handle', 'handle') and isinstance(v[name], int) and sub.get('handle') is not None:
            v[name] = sub['handle']
        # identifiers of controller-side objects come from a small pool, so that the commands of one program meet
        # on the same advertising set / CIG / sync handle (create it, then operate on it)
        if name in ('advertising_handle', 'cig_id', 'big_handle', 'sync_handle', 'advertising_sid') and isinstance(v[name], int) \
                and sub.get('object') is not None:
            v[name] = sub['object']
        if name in ('bd_addr',) and isinstance(v[name], hci.Address) and sub.get('addr'):
            v[name] = PEER_PUBLIC
        if name == 'peer_address' and isinstance(v[name], hci.Address) and sub.get('addr'):
            if 'peer_address_type' in v:
                v['peer_address_type'] = 1
            v[name] = hci.Address(bytes(PEER_RANDOM), hci.Address.RANDOM_DEVICE_ADDRESS)
        # keep the virtual advertiser from spinning: the Core spec range starts at 0x20
        if name in ('advertising_interval_min', 'advertising_interval_max', 'primary_advertising_interval_min',
                    'primary_advertising_interval_max', 'periodic_advertising_interval_min',
                    'periodic_advertising_interval_max') and isinstance(v[name], int):
            v[name] = max(v[name], 0x800)
    return v


def class_packet(cls):
    """Strategy: one command packet (bytes) of a registered class."""
    from checks.c01_hci_codec import SPECIAL

    sub = st.fixed_dictionaries(
        {'handle': st.sampled_from([None, None, 1, 1, 2, 0x0EFF]), 'addr': st.booleans(),
         'object': st.sampled_from([None, 0, 0, 1, 1, 2])}
    )
    if cls in SPECIAL:
        base = SPECIAL[cls]()
    else:
        base = specgen.fields_strategy(cls.fields, 255)

    def build(d):
        (values, _wire, _exp), s = d
        try:
            return bytes(cls(**_substitute(cls, values, s)))
        except Exception:
            return bytes(cls(**values))

    return st.tuples(base, sub).map(build)


def unknown_packet():
    known = set(hci.HCI_Command.command_classes)
    op = st.one_of(
        st.integers(1, 0xFFFF).filter(lambda o: o not in known),
        st.integers(0xFC00, 0xFFFF).filter(lambda o: o not in known),
    )
    return st.tuples(op, st.binary(max_size=12)).map(
        lambda d: bytes([1]) + d[0].to_bytes(2, 'little') + bytes([len(d[1])]) + d[1]
    )


def object_programs():
    """Strategy: create a controller-side object (advertising set), then one command of a class that names such an
    object by the same identifier, with small enumerated fields (operation, enable, ...) swept over 0..5."""
    from checks.c01_hci_codec import SPECIAL

    classes = [hci.HCI_Command.command_classes[k] for k in sorted(hci.HCI_Command.command_classes)]
    users = [c for c in classes if c not in SPECIAL and 'advertising_handle' in specgen.flat_names(c.fields)]
    params_cls = hci.HCI_LE_Set_Extended_Advertising_Parameters_Command

    def packet(cls, values, obj, small):
        v = _substitute(cls, values, {'handle': None, 'addr': False, 'object': obj})
        for name in ('operation', 'fragment_preference', 'enable'):
            if name in v and isinstance(v[name], int):
                v[name] = small
        try:
            return bytes(cls(**v))
        except Exception:
            return bytes(cls(**values))

    def build(d):
        cls, (pv, _w, _e), (uv, _w2, _e2), obj, small, create = d
        program = []
        if create:
            program.append([packet(params_cls, pv, obj, 0), 0])
        program.append([packet(cls, uv, obj, small), 0])
        program.append([bytes(hci.HCI_Read_BD_ADDR_Command()), 0])
        return {'situation': 'none', 'extended': True, 'delays': [], 'callers': 1, 'program': program}

    return st.sampled_from(users).flatmap(lambda cls: st.tuples(
        st.just(cls), specgen.fields_strategy(params_cls.fields, 255), specgen.fields_strategy(cls.fields, 255),
        st.sampled_from([0, 1]), st.integers(0, 5), st.sampled_from([True, True, True, False]))).map(build)


def program_strategy():
    classes = [hci.HCI_Command.command_classes[k] for k in sorted(hci.HCI_Command.command_classes)]
    # never reset the controller in the middle of a program (a reset legitimately drops procedures)
    classes = [c for c in classes if c.op_code != hci.HCI_RESET_COMMAND]
    procs = [hci.HCI_Command.command_classes[k] for k in sorted(PROCEDURES) if k in hci.HCI_Command.command_classes]
    procs.append(hci.HCI_LE_Create_Connection_Cancel_Command)
    any_cmd = st.sampled_from(classes).flatmap(class_packet)
    proc_cmd = st.sampled_from(procs).flatmap(class_packet)
    cmd = st.one_of(any_cmd, any_cmd, proc_cmd, unknown_packet())
    return st.fixed_dictionaries(
        {
            'situation': st.sampled_from(['none', 'adv_peer', 'connected', 'connected', 'peer_leaves']),
            'extended': st.booleans(),
            'delays': st.lists(st.sampled_from([0, 0, 0, 1, 7, 50]), min_size=0, max_size=6),
            'callers': st.integers(1, 6),
            'program': st.lists(st.tuples(cmd, st.integers(0, 5)), min_size=1, max_size=12),
        }
    )


def _le_create_connection(peer_address, own_address_type=1):
    return hci.HCI_LE_Create_Connection_Command(
        le_scan_interval=96, le_scan_window=96, initiator_filter_policy=0, peer_address_type=1,
        peer_address=peer_address, own_address_type=own_address_type, connection_interval_min=12,
        connection_interval_max=24, max_latency=0, supervision_timeout=72, min_ce_length=0, max_ce_length=0)


_DELAYS = st.lists(st.sampled_from([0, 0, 0, 1, 7, 50]), min_size=0, max_size=6)


def link_programs():
    """Strategy: procedure commands aimed at LIVE links. The situation has an LE link (handle 1) and a BR/EDR link
    (handle 2) to a peer that answers, advertises every second and comes back after a disconnection, so inside one
    program links are read from, encrypted, disconnected, created again (the handle is re-used) and read from again.
    Remote feature pages are aimed at the peer's last page and beyond it (0,1,3 | 4,5,0x80,0xFF)."""
    H = hci
    handle = st.sampled_from([1, 1, 1, 2, 2, 2, 2, 3, 0x0EFF])
    page = st.sampled_from([0, 1, 3, 3, 4, 4, 5, 0x80, 0xFF])
    reason = st.sampled_from([0x13, 0x13, 0x05, 0x15, 0x1A])
    baddr = st.sampled_from([PEER_PUBLIC, PEER_PUBLIC, PEER_PUBLIC, ABSENT_PUBLIC])
    laddr = st.sampled_from([PEER_RANDOM, PEER_RANDOM, PEER_RANDOM, hci.Address('C5:05:05:05:05:05')])
    procs = [hci.HCI_Command.command_classes[k] for k in sorted(PROCEDURES) if k in hci.HCI_Command.command_classes]
    directed = st.one_of(
        handle.map(lambda h: H.HCI_Read_Remote_Supported_Features_Command(connection_handle=h)),
        handle.map(lambda h: H.HCI_Read_Remote_Supported_Features_Command(connection_handle=h)),
        st.tuples(handle, page).map(
            lambda d: H.HCI_Read_Remote_Extended_Features_Command(connection_handle=d[0], page_number=d[1])),
        st.tuples(handle, page).map(
            lambda d: H.HCI_Read_Remote_Extended_Features_Command(connection_handle=d[0], page_number=d[1])),
        st.tuples(handle, page).map(
            lambda d: H.HCI_Read_Remote_Extended_Features_Command(connection_handle=d[0], page_number=d[1])),
        handle.map(lambda h: H.HCI_LE_Read_Remote_Features_Command(connection_handle=h)),
        handle.map(lambda h: H.HCI_LE_Enable_Encryption_Command(
            connection_handle=h, random_number=bytes(8), encrypted_diversifier=0, long_term_key=bytes(16))),
        handle.map(lambda h: H.HCI_LE_Enable_Encryption_Command(
            connection_handle=h, random_number=bytes(8), encrypted_diversifier=0, long_term_key=bytes(16))),
        st.tuples(handle, reason).map(lambda d: H.HCI_Disconnect_Command(connection_handle=d[0], reason=d[1])),
        st.tuples(handle, reason).map(lambda d: H.HCI_Disconnect_Command(connection_handle=d[0], reason=d[1])),
        baddr.map(lambda a: H.HCI_Remote_Name_Request_Command(
            bd_addr=a, page_scan_repetition_mode=1, reserved=0, clock_offset=0)),
        st.tuples(baddr, st.integers(0, 1)).map(lambda d: H.HCI_Create_Connection_Command(
            bd_addr=d[0], packet_type=0xCC18, page_scan_repetition_mode=1, reserved=0, clock_offset=0,
            allow_role_switch=d[1])),
        st.tuples(laddr, st.integers(0, 1)).map(lambda d: _le_create_connection(d[0], d[1])),
        st.just(H.HCI_LE_Create_Connection_Cancel_Command()),
        st.tuples(baddr, st.integers(0, 1)).map(lambda d: H.HCI_Switch_Role_Command(bd_addr=d[0], role=d[1])),
        st.just(H.HCI_Read_BD_ADDR_Command()),
    ).map(bytes)
    cmd = st.one_of(directed, directed, directed, st.sampled_from(procs).flatmap(class_packet))
    free = st.lists(st.tuples(cmd, st.integers(0, 2)), min_size=2, max_size=10)
    # a link goes down and is created again (same peer, so the handle is used a second time), then it is used
    le_again = st.tuples(st.just((bytes(H.HCI_Disconnect_Command(connection_handle=1, reason=0x13)), 0)),
                         st.just((bytes(_le_create_connection(PEER_RANDOM)), 0)))
    classic_again = st.tuples(
        st.just((bytes(H.HCI_Disconnect_Command(connection_handle=2, reason=0x13)), 0)),
        st.just((bytes(H.HCI_Create_Connection_Command(
            bd_addr=PEER_PUBLIC, packet_type=0xCC18, page_scan_repetition_mode=1, reserved=0, clock_offset=0,
            allow_role_switch=1)), 0)))
    again = st.tuples(st.one_of(le_again, classic_again), st.lists(st.tuples(cmd, st.integers(0, 2)), min_size=1, max_size=6)
                      ).map(lambda d: list(d[0]) + d[1])
    return st.fixed_dictionaries(
        {
            'situation': st.sampled_from(['dual', 'dual', 'dual', 'dual_peer_leaves', 'adv_fast']),
            'extended': st.booleans(),
            'delays': _DELAYS,
            'callers': st.sampled_from([1, 1, 1, 2, 3]),
            'program': st.one_of(free, free, again),
        }
    )


def _set_cig(cig_id, cis_ids):
    n = len(cis_ids)
    return hci.HCI_LE_Set_CIG_Parameters_Command(
        cig_id=cig_id, sdu_interval_c_to_p=10000, sdu_interval_p_to_c=10000, worst_case_sca=0, packing=0, framing=0,
        max_transport_latency_c_to_p=10, max_transport_latency_p_to_c=10, cis_id=list(cis_ids),
        max_sdu_c_to_p=[100] * n, max_sdu_p_to_c=[100] * n, phy_c_to_p=[1] * n, phy_p_to_c=[1] * n,
        rtn_c_to_p=[1] * n, rtn_p_to_c=[1] * n)


CIS_FOLLOW_UPS = ('remove_cig', 'remove_other_cig', 'set_cig_same', 'set_cig_other_ids', 'disconnect_acl',
                  'disconnect_cis', 'disconnect_last_cis', 'create_cis_again', 'iso_path', 'read_remote', 'read')


def cis_programs():
    """Strategy: CIS set-up as a central. LE Set CIG Parameters (1..3 CISes), LE Create CIS for 1..n of the handles
    the controller hands out (the harness predicts them: the lowest free handles) over the live ACL (sometimes an
    unknown one), then 0..3 commands that meet the set-up while it is pending or after it: remove / re-configure the
    CIG, disconnect the ACL or a CIS handle, a second LE Create CIS, an ISO data path, unrelated commands. The peer's
    host accepts each CIS request after a generated think time (0 / 0.2 / 3 / 30 s), the peer may leave the link."""
    H = hci

    def build(d):
        sit, cig_id, n, k, acl, follow, accept, callers, delays, whos, extended = d
        first = 3 if sit in SIT_CLASSIC_LINK else 2  # LE link = 1, BR/EDR link = 2, then the CIS handles
        handles = list(range(first, first + n))
        k = min(k, n)
        create = H.HCI_LE_Create_CIS_Command(cis_connection_handle=handles[:k], acl_connection_handle=[acl] * k)
        program = [[bytes(_set_cig(cig_id, list(range(n)))), 0], [bytes(create), 0]]
        for i, f in enumerate(follow):
            cmd = {
                'remove_cig': lambda: H.HCI_LE_Remove_CIG_Command(cig_id=cig_id),
                'remove_other_cig': lambda: H.HCI_LE_Remove_CIG_Command(cig_id=cig_id ^ 1),
                'set_cig_same': lambda: _set_cig(cig_id, list(range(n))),
                'set_cig_other_ids': lambda: _set_cig(cig_id, [7, 8][: max(1, n - 1)]),
                'disconnect_acl': lambda: H.HCI_Disconnect_Command(connection_handle=1, reason=0x13),
                'disconnect_cis': lambda: H.HCI_Disconnect_Command(connection_handle=handles[0], reason=0x13),
                'disconnect_last_cis': lambda: H.HCI_Disconnect_Command(connection_handle=handles[-1], reason=0x13),
                'create_cis_again': lambda: create,
                'iso_path': lambda: H.HCI_LE_Setup_ISO_Data_Path_Command(
                    connection_handle=handles[0], data_path_direction=0, data_path_id=0,
                    codec_id=H.CodingFormat(H.CodecID.TRANSPARENT), controller_delay=0, codec_configuration=b''),
                'read_remote': lambda: H.HCI_LE_Read_Remote_Features_Command(connection_handle=1),
                'read': lambda: H.HCI_Read_BD_ADDR_Command(),
            }[f]()
            program.append([bytes(cmd), whos[i % len(whos)]])
        return {'situation': sit, 'extended': extended, 'delays': delays, 'callers': callers, 'program': program,
                'cis_accept': accept}

    return st.tuples(
        st.sampled_from(['connected', 'connected', 'dual', 'peer_leaves']), st.sampled_from([0, 1]),
        st.integers(1, 3), st.integers(1, 3), st.sampled_from([1, 1, 1, 1, 1, 0x0EFF]),
        st.lists(st.sampled_from(CIS_FOLLOW_UPS), min_size=0, max_size=3),
        st.sampled_from([0, 0, 0.2, 3, 30]), st.sampled_from([1, 1, 1, 2, 3]), _DELAYS,
        st.lists(st.integers(0, 2), min_size=1, max_size=3), st.booleans()).map(build)


def credit_programs():
    """Strategy: the general programs, sent to a controller that withholds the command credit: the k-th Command
    Complete / Command Status carries Num_HCI_Command_Packets = pattern[k mod len]; after a 0 the credit is returned
    by a Command Complete event for opcode 0 (the only thing that event is ever used for), 0 / 1 / 7 / 60 ms later."""
    credit = st.fixed_dictionaries({
        'pattern': st.lists(st.sampled_from([0, 0, 1]), min_size=1, max_size=5),
        'nop_delay': st.sampled_from([0, 0, 1, 7, 60]),
    })
    return st.tuples(program_strategy(), credit, st.integers(2, 6)).map(
        lambda d: {**d[0], 'credit': d[1], 'callers': max(d[0]['callers'], d[2] if len(d[0]['program']) > 1 else 1)})


# the points of a command's life a cancellation is aimed at: the caller's task exists (it has not run yet) / the host
# has written the command / the command is delivered to the controller / the response is delivered to the host (the
# cancellation is executed right before the host dispatches it, in the same loop callback). From there the
# cancellation is `ms` tap units and then `hops` loop iterations away; 0 / 0 = at once, inside the event.
CANCEL_EVENTS = ('start', 'written', 'at_controller', 'response')
# where a cancellation found its command (labels; classified by the harness when it is executed)
CANCEL_STATES = ('not_started', 'queued', 'written', 'at_controller', 'at_dispatch', 'answered_unseen', 'done')
_GAPS = (0, 0, 1, 10, 100)


def _simple_commands():
    H = hci
    return [bytes(c) for c in (
        H.HCI_Read_BD_ADDR_Command(), H.HCI_Read_Local_Name_Command(), H.HCI_LE_Read_Buffer_Size_Command(),
        H.HCI_Read_Local_Version_Information_Command(), H.HCI_Read_Local_Supported_Commands_Command(),
        H.HCI_LE_Rand_Command(), H.HCI_Read_Buffer_Size_Command(), H.HCI_LE_Read_Local_Supported_Features_Command())]


def _directives():
    cancel = st.fixed_dictionaries({
        'how': st.just('cancel'), 'at': st.sampled_from(CANCEL_EVENTS), 'hops': st.integers(0, 3),
        'ms': st.sampled_from([0, 0, 0, 0, 1, 3, 7, 50])})
    # an enclosing asyncio.wait_for: the time-out runs from the moment the caller issues the command (tap units, as
    # the delays: 1 unit = 1 ms), so with the generated delays it ends before, in the middle of and after the exchange
    wait_for = st.fixed_dictionaries({
        'how': st.just('wait_for'),
        'ms': st.one_of(st.sampled_from([0, 1, 2, 7, 8, 14, 50, 51, 57, 100]), st.integers(0, 120))})
    return cancel, wait_for


def cancel_programs():
    """Strategy: callers that give up. 1..6 commands over 1..4 callers of which at least one is cancelled
    (task.cancel() at a generated point of the command's life, see CANCEL_EVENTS) or wrapped in an asyncio.wait_for
    whose time-out falls before / into / after the exchange; then 1..3 further phases of callers, each started when the
    phase before it has returned (and `gap` ms later): one caller = sequential use, several = concurrent use. Commands:
    mostly plain reads (answered at once), any registered class, unregistered opcodes; generated delays, sometimes a
    controller that withholds the command credit."""
    classes = [hci.HCI_Command.command_classes[k] for k in sorted(hci.HCI_Command.command_classes)]
    classes = [c for c in classes if c.op_code != hci.HCI_RESET_COMMAND]
    simple = st.sampled_from(_simple_commands())
    cmd = st.one_of(simple, simple, simple, st.sampled_from(classes).flatmap(class_packet), unknown_packet())
    cancel, wait_for = _directives()
    directive = st.one_of(cancel, cancel, wait_for)
    who = st.integers(0, 3)
    entry = st.tuples(cmd, who, st.one_of(st.none(), st.none(), directive))
    later = st.tuples(cmd, who, st.one_of(st.none(), st.none(), st.none(), st.none(), st.none(), directive))
    credit = st.fixed_dictionaries({
        'pattern': st.lists(st.sampled_from([0, 0, 1]), min_size=1, max_size=5),
        'nop_delay': st.sampled_from([0, 0, 1, 7, 60]),
    })

    def build(d):
        first, forced_at, forced, phases, sit, extended, delays, callers, gap, cred = d
        program = [[p, w] + ([dv] if dv else []) for p, w, dv in first]
        k = forced_at % len(program)
        program[k] = program[k][:2] + [forced]  # at least one caller gives up
        then = [[[p, w] + ([dv] if dv else []) for p, w, dv in ph] for ph in phases]
        case = {'situation': sit, 'extended': extended, 'delays': delays, 'callers': callers, 'program': program,
                'then': then, 'gap': gap}
        if cred is not None:
            case['credit'] = cred
        return case

    return st.tuples(
        st.lists(entry, min_size=1, max_size=6), st.integers(0, 5), directive,
        st.lists(st.lists(later, min_size=1, max_size=4), min_size=1, max_size=3),
        st.sampled_from(['none', 'none', 'none', 'connected']), st.booleans(),
        st.lists(st.sampled_from([0, 0, 1, 7, 50]), min_size=0, max_size=6), st.integers(1, 4),
        st.sampled_from(_GAPS), st.one_of(st.none(), st.none(), st.none(), credit)).map(build)


def cancel_grid():
    """Enumerated (every shard runs all of it): ONE caller gives up at every point of the grid event x hops (x the
    wait_for time-outs 0..9 ms), alone or queued behind another caller's command, under three delay vectors; followed
    at once by a sequential caller and then by three concurrent callers, or by the three concurrent callers first."""
    reads = _simple_commands()
    cases = []
    directives = [{'how': 'cancel', 'at': at, 'hops': hops, 'ms': 0} for at in CANCEL_EVENTS for hops in range(4)]
    directives += [{'how': 'wait_for', 'ms': ms} for ms in range(10)]
    for directive in directives:
        for delays in ([], [1], [7, 0]):
            for behind in (False, True):
                for concurrent_first in (False, True):
                    program = ([[reads[1], 0]] if behind else []) + [[reads[0], 1, directive]]
                    one, three = [[reads[2], 0]], [[reads[3], 0], [reads[4], 1], [reads[5], 2]]
                    # (one caller at a time re-synchronises a semaphore that was released once too often - the
                    # release is guarded by locked() - so both orders are needed)
                    then = [three, one] if concurrent_first else [one, three, [[reads[0], 0]]]
                    cases.append({'situation': 'none', 'extended': True, 'delays': list(delays), 'callers': 3,
                                  'program': program, 'then': then, 'gap': 0})
    return cases


# ---------------------------------------------------------------------------
# one case
# ---------------------------------------------------------------------------
class _RawCommand(hci.HCI_Command):
    """A command that serialises to exactly the given packet bytes (and tells the harness when it is serialised: the
    host does that at the moment it writes the command, so the harness knows whose command a written packet is)."""

    def __init__(self, packet: bytes, note=None):
        self._packet = packet
        self._note = note
        self.op_code = int.from_bytes(packet[1:3], 'little')
        self.name = cmd_name(self.op_code)
        self._parameters = packet[4:]

    def __bytes__(self):
        if self._note is not None:
            self._note()
        return self._packet


def _entry(e):
    """One program entry as plain data: [packet, who] or [packet, who, directive]."""
    out = [bytes(e[0]), int(e[1])]
    if len(e) > 2 and e[2]:
        out.append(dict(e[2]))
    return out


def run_case(ctx, case) -> None:
    situation = case['situation']
    delays = list(case['delays'])
    # the phases of the case: case['program'], then (cancel programs) the phases of case['then'], each started when the
    # callers of the phase before it have returned; `program` is all of it, flat: (packet, who), the index is the
    # command's identity in results / directives / life
    phases = [[_entry(e) for e in case['program']]] + [[_entry(e) for e in ph] for ph in (case.get('then') or [])]
    flat = [(ph, e) for ph, entries in enumerate(phases) for e in entries]
    program = [(e[0], e[1]) for _ph, e in flat]
    directives = {i: e[2] for i, (_ph, e) in enumerate(flat) if len(e) > 2}
    gap = float(case.get('gap') or 0)
    ncallers = max(1, int(case['callers']))
    loop = vloop.new_loop()
    loop.max_iterations = 300_000
    state: dict = {}
    # per command: what the harness has seen of its life (started / written / at_controller / responded / dispatched)
    life = [dict() for _ in program]
    state.update(life=life, directives=directives, cancel_states=[], phases=phases)

    def fail(sig, what):
        ctx.fail(sig, what, {'kind': 'program', **{k: case[k] for k in ('situation', 'extended', 'delays', 'callers')},
                             **{k: case[k] for k in OPTIONAL_KEYS if case.get(k) is not None},
                             'program': phases[0], **({'then': phases[1:]} if len(phases) > 1 else {})})

    async def setup():
        link = world.OrderedLink()
        ctrl = Controller('C0', link=link, public_address=world.public_addr(0))
        if not case['extended']:
            ctrl.le_features = hci.LeFeatureMask(int(ctrl.le_features) & ~int(hci.LeFeatureMask.LE_EXTENDED_ADVERTISING))
        else:
            ctrl.le_features = hci.LeFeatureMask(int(ctrl.le_features) | int(hci.LeFeatureMask.LE_EXTENDED_ADVERTISING))
        # Core-spec default advertising interval (the class default of 0 makes the virtual
        # advertiser re-arm a zero-delay timer forever once enabled; not C03's subject)
        ctrl.le_legacy_advertiser.advertising_interval_min = 0x0800
        ctrl.le_legacy_advertiser.advertising_interval_max = 0x0800
        tap = world.Tap('T0', None)
        host = Host()
        host.set_packet_sink(tap.to_controller)

        class Guard:
            """Delivers to the controller and attributes handler exceptions to the command."""

            def on_packet(self, packet):
                try:
                    ctrl.on_packet(packet)
                except Exception as e:  # noqa: BLE001 - same effect as an exception in a loop callback
                    state.setdefault('handler_errors', []).append((packet, e))

        tap.sinks[world.H2C] = Guard()
        ctrl.set_packet_sink(tap.to_host)
        tap.sinks[world.C2H] = host
        await host.reset(driver_factory=None)
        await host.send_sync_command(hci.HCI_LE_Set_Random_Address_Command(random_address=VICTIM_RANDOM))
        await host.send_sync_command(hci.HCI_Write_Scan_Enable_Command(scan_enable=3))
        peer = None
        if situation != 'none':
            peer = world.RawPeer(link, 1)
            await peer.start()
            await peer.host.send_sync_command(hci.HCI_Write_Scan_Enable_Command(scan_enable=3))

            # a present peer's host answers classic connection requests (accepts them)
            def on_connection_request(bd_addr, _cod, _link_type, peer=peer):
                loop.create_task(
                    peer.host.send_command(hci.HCI_Accept_Connection_Request_Command(bd_addr=bd_addr, role=1))
                )

            peer.host.on('connection_request', on_connection_request)
            if case.get('cis_accept') is not None:
                # a present peer's host answers CIS requests: it accepts them after the generated think time
                def on_cis_request(_acl, cis_handle, _cig, _cis, peer=peer, wait=float(case['cis_accept'])):
                    async def accept():
                        if wait:
                            await asyncio.sleep(wait)
                        try:
                            await peer.host.send_command(
                                hci.HCI_LE_Accept_CIS_Request_Command(connection_handle=cis_handle))
                        except Exception:  # noqa: BLE001 - the peer's own trouble (link gone meanwhile)
                            pass

                    loop.create_task(accept())

                peer.host.on('cis_request', on_cis_request)
            adv_interval = 1000 if situation in SIT_FAST_ADV else 0x4000
            if situation in SIT_FAST_ADV:
                # the peer comes back: it advertises again after every connection / disconnection
                def readvertise(*_a, peer=peer):
                    if not state.get('peer_left'):
                        loop.create_task(
                            peer.host.send_command(hci.HCI_LE_Set_Advertising_Enable_Command(advertising_enable=1)))

                peer.host.on('le_connection', readvertise)
                peer.host.on('disconnection', readvertise)
            await peer.host.send_sync_command(
                hci.HCI_LE_Set_Advertising_Parameters_Command(
                    advertising_interval_min=adv_interval, advertising_interval_max=adv_interval, advertising_type=0,
                    own_address_type=1, peer_address_type=0, peer_address=hci.Address.ANY,
                    advertising_channel_map=7, advertising_filter_policy=0,
                )
            )
            await peer.host.send_sync_command(hci.HCI_LE_Set_Advertising_Enable_Command(advertising_enable=1))
        if situation in SIT_LE_LINK:
            fut = loop.create_future()
            host.once('le_connection', lambda handle, *a: fut.done() or fut.set_result(handle))
            await host.send_async_command(
                hci.HCI_LE_Create_Connection_Command(
                    le_scan_interval=96, le_scan_window=96, initiator_filter_policy=0, peer_address_type=1,
                    peer_address=PEER_RANDOM, own_address_type=1, connection_interval_min=12,
                    connection_interval_max=24, max_latency=0, supervision_timeout=72, min_ce_length=0,
                    max_ce_length=0,
                )
            )
            state['handle'] = await fut
            # the peer advertises again so that further connection attempts find it
            await peer.host.send_sync_command(hci.HCI_LE_Set_Advertising_Enable_Command(advertising_enable=1))
        if situation in SIT_CLASSIC_LINK:
            # a BR/EDR link to the same peer on top (the peer's host accepts the request)
            fut = loop.create_future()
            host.once('classic_connection', lambda handle, *a: fut.done() or fut.set_result(handle))
            await host.send_async_command(
                hci.HCI_Create_Connection_Command(
                    bd_addr=PEER_PUBLIC, packet_type=0xCC18, page_scan_repetition_mode=1, reserved=0,
                    clock_offset=0, allow_role_switch=1,
                )
            )
            state['classic_handle'] = await fut
        credit = case.get('credit')
        if credit:
            # a controller that withholds the command credit: the k-th answer carries Num_HCI_Command_Packets =
            # pattern[k]; after a 0 the credit comes back in a Command Complete for opcode 0, nop_delay units later
            pattern = [int(x) for x in credit['pattern']] or [1]
            nop_delay = float(credit.get('nop_delay', 0)) * tap.unit
            answered = itertools.count()

            def withhold(direction, packet):
                if direction != world.C2H or packet[0] != 0x04 or packet[1] not in (0x0E, 0x0F) or len(packet) < 6:
                    return packet
                at = 3 if packet[1] == 0x0E else 4
                if int.from_bytes(packet[at + 1:at + 3], 'little') == 0:
                    return packet
                n = pattern[next(answered) % len(pattern)]
                if n == 0:
                    state['credits_withheld'] = state.get('credits_withheld', 0) + 1
                    if nop_delay:
                        loop.call_later(nop_delay, tap.to_host.on_packet, NOP_CREDIT)
                    else:
                        loop.call_soon(tap.to_host.on_packet, NOP_CREDIT)
                return packet[:at] + bytes([n]) + packet[at + 1:]

            tap.filters.append(withhold)
        # from here on the tap applies the generated delays
        tap._delays = {world.H2C: tap._cycle(delays, 0), world.C2H: tap._cycle(delays, 1)}
        state.update(link=link, ctrl=ctrl, tap=tap, host=host, peer=peer, mark=len(tap.log))
        if directives:
            follow_commands(tap, host)

    # ---- whose command is where (only needed to aim cancellations; nothing is judged from it) ------------------
    written = collections.deque()  # commands written by the host, not yet delivered to the controller (None: not ours)
    unanswered = collections.deque()  # delivered to the controller, response not yet delivered to the host

    def follow_commands(tap, host):
        class HostWrites:
            """host -> tap: the command the host writes now is the one it has just serialised."""

            def on_packet(self, packet):
                i = state.pop('serialised', None)
                tap.to_controller.on_packet(packet)
                if packet[0] == 0x01:
                    written.append(i)
                    if i is not None:
                        life[i]['written'] = True
                        fire(i, 'written')

        class HostReads:
            """tap -> host: a response counts as dispatched when the host has returned from it."""

            def on_packet(self, packet):
                try:
                    host.on_packet(packet)
                finally:
                    for i in state.pop('dispatching', ()):
                        life[i]['dispatched'] = True

        def listener(direction, packet):
            if direction == world.H2C and packet[0] == 0x01:
                i = written.popleft() if written else None
                unanswered.append(i)
                if i is not None:
                    life[i]['at_controller'] = True
                    fire(i, 'at_controller')
            elif direction == world.C2H and packet[0] == 0x04 and packet[1] in (0x0E, 0x0F) and len(packet) >= 7:
                op = int.from_bytes(packet[4:6], 'little') if packet[1] == 0x0E else int.from_bytes(packet[5:7], 'little')
                if op == 0 or not unanswered:
                    return
                i = unanswered.popleft()
                if i is not None:
                    life[i]['responded'] = True
                    state.setdefault('dispatching', []).append(i)
                    fire(i, 'response')  # the host dispatches the response right after the listeners, in this callback

        host.set_packet_sink(HostWrites())
        tap.sinks[world.C2H] = HostReads()
        tap.listeners.append(listener)

    def where_is(i):
        L = life[i]
        if not L.get('started'):
            return 'not_started'
        if not L.get('written'):
            return 'queued'
        if L.get('dispatched'):
            return 'answered_unseen'
        if L.get('responded'):
            return 'at_dispatch'
        return 'at_controller' if L.get('at_controller') else 'written'

    def fire(i, event):
        d = directives.get(i)
        if not d or d.get('how') != 'cancel' or d.get('at') != event or life[i].get('fired'):
            return
        life[i]['fired'] = True

        def do():
            task = life[i]['task']
            state['cancel_states'].append('done' if task.done() else where_is(i))
            task.cancel()

        def hop(n):
            if n <= 0:
                do()
            else:
                loop.call_soon(hop, n - 1)

        ms = float(d.get('ms') or 0) * state['tap'].unit
        if ms:
            loop.call_later(ms, hop, int(d.get('hops') or 0))
        else:
            hop(int(d.get('hops') or 0))

    results: list = [None] * len(program)

    async def issue(i, packet):
        """One caller's command: plainly, or as a task that is cancelled at the generated point, or inside an
        asyncio.wait_for with the generated time-out. Returns what the caller got."""
        host = state['host']
        d = directives.get(i)
        how = d.get('how') if d else None
        if how is None:
            # (no bookkeeping at all for the cases without a caller that gives up: exactly the first-round harness)
            rsp = await host.send_command(_RawCommand(packet))
            return ('ok', rsp.command_opcode, type(rsp).__name__)

        async def send():
            life[i]['started'] = True
            return await host.send_command(_RawCommand(packet, note=lambda: state.__setitem__('serialised', i)))

        if how == 'cancel':
            task = life[i]['task'] = loop.create_task(send())
            fire(i, 'start')
            try:
                rsp = await task
            except asyncio.CancelledError:
                if not task.cancelled():
                    raise
                return ('cancelled',)
        elif how == 'wait_for':
            try:
                rsp = await asyncio.wait_for(send(), timeout=float(d.get('ms') or 0) * state['tap'].unit)
            except asyncio.TimeoutError:
                state['cancel_states'].append('timeout:' + ('answered' if life[i].get('responded') else where_is(i)))
                return ('timeout',)
        else:
            raise HarnessError(f'C03: unknown directive {d!r}')
        return ('ok', rsp.command_opcode, type(rsp).__name__)

    async def caller(ph, k):
        first = sum(len(entries) for entries in phases[:ph])
        for i in range(first, first + len(phases[ph])):
            packet, who = program[i]
            if who % ncallers != k:
                continue
            try:
                results[i] = await issue(i, packet)
            except asyncio.CancelledError:
                raise
            except HarnessError:
                raise
            except Exception as e:
                results[i] = ('exc', type(e).__name__, str(e)[:80])
            if ph == 0 and situation in SIT_LEAVES and state.get('peer') is not None and i >= len(phases[0]) // 2:
                # the peer disappears from the link in the middle of the program
                try:
                    state['link'].remove_controller(state['peer'].controller)
                except ValueError:
                    pass
                state['peer_left'] = True

    async def main():
        await setup()
        tasks = [loop.create_task(caller(0, k)) for k in range(ncallers)]
        state['tasks'] = tasks
        await asyncio.gather(*tasks)
        for ph in range(1, len(phases)):
            # further callers, once the callers before them have returned (a caller that gave up has returned: its
            # command may still be on its way)
            if gap:
                await asyncio.sleep(gap * state['tap'].unit)
            await asyncio.gather(*[loop.create_task(caller(ph, k)) for k in sorted({e[1] % ncallers for e in phases[ph]})])
        # conclusion phase: give accepted procedures time, cancel a pending LE connection creation
        await asyncio.sleep(2.0)
        pend = pending_procedures(state['tap'].log[state['mark']:])
        if any(kind == 'le_connection_complete' for kind, _ in pend):
            state['cancel_sent'] = True
            try:
                await state['host'].send_command(hci.HCI_LE_Create_Connection_Cancel_Command())
            except Exception as e:  # noqa: BLE001 - judged below from the log
                state['cancel_error'] = repr(e)
        await asyncio.sleep(HORIZON)

    outcome = 'done'
    try:
        loop.complete(main(), horizon=HORIZON * 3)
    except vloop.Stalled:
        outcome = 'stalled'
    except vloop.HorizonExceeded:
        outcome = 'horizon'
    except vloop.BudgetExceeded:
        outcome = 'budget'
    except Exception as e:
        loop.shutdown()
        raise HarnessError(f'C03 harness set-up failed: {e!r}')

    try:
        if 'tap' not in state:
            # the set-up itself is a sequence of HCI commands on the real host and controller
            fail(f'setup/{outcome}', f'the harness set-up commands (reset, set address, connect) did not complete: {outcome}')
            ctx.case(('setup', case['situation']), False, {'setup_failed'})
            return
        analyse(ctx, case, program, ncallers, state, results, outcome, loop, fail)
    finally:
        loop.shutdown()


def pending_procedures(log):
    """Procedures accepted as pending (Command Status 0) and not yet concluded, from the history."""
    pending = []
    last_cis_count = 0
    for _t, d, pkt in log:
        if d == world.H2C and pkt[0] == 0x01 and int.from_bytes(pkt[1:3], 'little') == hci.HCI_LE_CREATE_CIS_COMMAND:
            last_cis_count = pkt[4] if len(pkt) > 4 else 0
        if d != world.C2H or pkt[0] != 0x04:
            continue
        if pkt[1] == 0x0F and len(pkt) >= 7:  # Command Status
            status, op = pkt[3], int.from_bytes(pkt[5:7], 'little')
            if status == 0 and op in PROCEDURES:
                n = 1
                if op == hci.HCI_LE_CREATE_CIS_COMMAND:
                    # one CIS Established per requested CIS (none for an empty request)
                    n = last_cis_count
                pending.extend([(PROCEDURES[op], op)] * n)
            continue
        kind = completion_kind(pkt)
        if kind:
            for i, (k, _op) in enumerate(pending):
                if k == kind:
                    del pending[i]
                    break
    return pending


def analyse(ctx, case, program, ncallers, state, results, outcome, loop, fail):
    log = state['tap'].log[state['mark']:]
    labels = {f'situation:{case["situation"]}', f'callers:{min(ncallers, 3)}'}
    if any(case['delays']):
        labels.add('delayed')
    # ---- clause 1 + 2: outstanding count and exactly one answer per command
    outstanding = None  # opcode of the command the controller has not answered yet
    ok = True
    for _t, d, pkt in log:
        if d == world.H2C and pkt[0] == 0x01:
            op = int.from_bytes(pkt[1:3], 'little')
            if outstanding is not None:
                fail('two_outstanding', f'command {cmd_name(op)} sent while {cmd_name(outstanding)} is unanswered')
                ok = False
                break
            outstanding = op
        elif d == world.C2H and pkt[0] == 0x04 and pkt[1] in (0x0E, 0x0F):
            op = int.from_bytes(pkt[4:6], 'little') if pkt[1] == 0x0E else int.from_bytes(pkt[5:7], 'little')
            if op == 0:
                continue
            if outstanding is None:
                fail(f'unsolicited_response/{cmd_name(op)}', f'second or unsolicited Command Complete/Status for {cmd_name(op)}')
                ok = False
                break
            if op != outstanding:
                fail(f'wrong_opcode_response/{cmd_name(outstanding)}', f'{cmd_name(outstanding)} answered with opcode of {cmd_name(op)}')
                ok = False
                break
            outstanding = None
    if ok and outstanding is not None:
        # unanswered command: why?
        name = cmd_name(outstanding)
        excs = [e for p, e in state.get('handler_errors', []) if p[0] == 1 and int.from_bytes(p[1:3], 'little') == outstanding]
        if excs:
            exc = excs[-1]
            site = _site(exc)
            fail(f'no_reply/handler_raises/{name}/{type(exc).__name__}', f'{name}: controller handler raised {exc!r} at {site}; no Command Complete/Status')
        else:
            klass = hci.HCI_Command.command_classes.get(outstanding)
            kind = 'unregistered' if klass is None else ('async' if issubclass(klass, hci.HCI_AsyncCommand) else 'sync')
            has_handler = hasattr(state['ctrl'], f'on_{name.lower()}') if klass else False
            fail(f'no_reply/{kind}/{"handler" if has_handler else "no_handler"}/{name if has_handler else "*"}',
                 f'{name}: no Command Complete or Command Status was sent (callers wait forever)')
        ok = False
    # ---- clause 3: callers
    if ok:
        for i, (pkt, _who) in enumerate(program):
            op = int.from_bytes(pkt[1:3], 'little')
            r = results[i]
            if r is None:
                fail('caller_pending', f'caller of {cmd_name(op)} still waiting at quiescence ({outcome})')
                ok = False
                break
            if r[0] in ('cancelled', 'timeout'):
                # a caller the harness made give up (only such a caller can end like this: see issue())
                how = (state['directives'].get(i) or {}).get('how')
                if {'cancel': 'cancelled', 'wait_for': 'timeout'}.get(how) != r[0]:
                    raise HarnessError(f'C03: caller {i} ended with {r[0]} under directive {how!r}')
                continue
            if r[0] == 'exc':
                fail(f'caller_exception/{r[1]}', f'caller of {cmd_name(op)} got {r[1]}({r[2]}) instead of the response to its command')
                ok = False
                break
            if r[0] == 'ok' and r[1] != op:
                fail('caller_got_wrong_response', f'caller of {cmd_name(op)} received the response for {cmd_name(r[1])}')
                ok = False
                break
    # ---- clause 4: procedures conclude
    if ok:
        for kind, op in pending_procedures(log):
            sit = case['situation'] + ('/cancelled' if state.get('cancel_sent') and kind == 'le_connection_complete' else '')
            if op == hci.HCI_LE_CREATE_CIS_COMMAND:
                # what met the pending set-up (one bucket per root cause): the first command after the accepted
                # LE Create CIS that touches the CIG, a CIS or the link
                sit += _cis_met_by(log)
            fail(f'procedure_not_concluded/{cmd_name(op)}/{sit}',
                 f'{cmd_name(op)} was accepted (Command Status pending) but no {kind} event followed within {HORIZON}s')
            ok = False
            break
    # ---- the state the statement's first sentence rests on (anchors: command semaphore, pending command, pending
    # response future), at quiescence: every command of the history is answered and every caller has returned, so the
    # channel must be exactly free - one permit, nothing pending (more than one permit = the next concurrent callers
    # send side by side; none = the next caller waits forever)
    if ok and outcome == 'done' and state['directives']:
        host = state['host']
        permits = getattr(host.command_semaphore, '_value', None)
        if permits is not None and permits != 1:
            fail(f'channel_state/semaphore_permits_{min(permits, 2)}',
                 f'at quiescence (all commands answered, all callers returned) the command semaphore has {permits} permits')
            ok = False
        elif host.pending_command is not None or host.pending_response is not None:
            fail('channel_state/pending_left',
                 f'at quiescence the host still has pending_command={host.pending_command!r} / '
                 f'pending_response={host.pending_response!r}')
            ok = False
    if outcome == 'budget':
        labels.add('iteration_budget_hit')
    ops = [int.from_bytes(p[1:3], 'little') for p, _ in program]
    if any(o not in hci.HCI_Command.command_classes for o in ops):
        labels.add('unregistered_opcode')
    if any(o in PROCEDURES for o in ops):
        labels.add('procedure_command')
    nontrivial = len(program) >= 2 and (
        ncallers >= 2 or any(case['delays']) or 'unregistered_opcode' in labels or 'procedure_command' in labels
        or bool(state['directives'])
    )
    if len({w % ncallers for _, w in program}) >= 2:
        labels.add('concurrent_callers')
    labels |= history_labels(log, state)
    if state['directives']:
        labels.add('caller_gives_up')
        gave_up = set(state['cancel_states'])
        labels |= {f'gives_up:{w}' for w in gave_up}
        # a caller gave up while its command was on its way (or its response was being dispatched), and callers came
        # after it: one at a time / several at once
        if gave_up & {'written', 'at_controller', 'at_dispatch', 'answered_unseen', 'timeout:written',
                      'timeout:at_controller', 'timeout:answered'}:
            widths = [len({e[1] % ncallers for e in ph}) for ph in state['phases'][1:]]
            if any(w == 1 for w in widths):
                labels.add('gives_up_in_flight_then_sequential')
            if any(w >= 2 for w in widths):
                labels.add('gives_up_in_flight_then_concurrent')
    if state.get('credits_withheld'):
        labels.add('credit_withheld')
        if 'concurrent_callers' in labels:
            labels.add('credit_withheld_concurrent')
    ctx.case((case['situation'], case['extended'], case['delays'], ncallers, program,
              [case.get(k) for k in OPTIONAL_KEYS])
             + ((state['phases'],) if state['directives'] or len(state['phases']) > 1 else ()), nontrivial, labels,
             sample={'situation': case['situation'], 'callers': ncallers, 'delays': case['delays'],
                     'program': [cmd_name(o) for o in ops]})


CIS_TOUCHING = (hci.HCI_LE_REMOVE_CIG_COMMAND, hci.HCI_LE_SET_CIG_PARAMETERS_COMMAND, hci.HCI_DISCONNECT_COMMAND,
                hci.HCI_LE_CREATE_CIS_COMMAND)


def _cis_met_by(log) -> str:
    accepted = False
    for _t, d, pkt in log:
        if d == world.C2H and pkt[0] == 0x04 and pkt[1] == 0x0F and len(pkt) >= 7 and pkt[3] == 0 \
                and int.from_bytes(pkt[5:7], 'little') == hci.HCI_LE_CREATE_CIS_COMMAND:
            accepted = True
        elif accepted and d == world.H2C and pkt[0] == 0x01 and int.from_bytes(pkt[1:3], 'little') in CIS_TOUCHING:
            return '/then_' + cmd_name(int.from_bytes(pkt[1:3], 'little'))
    return ''


def _event_status_handle(pkt):
    """(status, handle) of a procedure completion event (harness-side table, see completion_kind)."""
    if pkt[1] == 0x3E:
        return pkt[4], int.from_bytes(pkt[5:7], 'little')
    if pkt[1] in (0x07,):  # Remote Name Request Complete carries an address
        return pkt[3], None
    return pkt[3], int.from_bytes(pkt[4:6], 'little')


def history_labels(log, state) -> set:
    """What the history of one case contained (generator coverage only, nothing is judged here): which procedures
    were accepted as pending, which ended with success, links that came back on a handle used before."""
    labels = set()
    released = set()  # handles seen in a Disconnection Complete
    last_page = None
    last_cis_count = 0
    for _t, d, pkt in log:
        if d == world.H2C and pkt[0] == 0x01:
            if int.from_bytes(pkt[1:3], 'little') == hci.HCI_READ_REMOTE_EXTENDED_FEATURES_COMMAND and len(pkt) >= 7:
                last_page = pkt[6]
            if int.from_bytes(pkt[1:3], 'little') == hci.HCI_LE_CREATE_CIS_COMMAND:
                last_cis_count = pkt[4] if len(pkt) > 4 else 0
            continue
        if d != world.C2H or pkt[0] != 0x04:
            continue
        if pkt[1] == 0x0F and len(pkt) >= 7:
            status, op = pkt[3], int.from_bytes(pkt[5:7], 'little')
            if status == 0 and op in PROCEDURES and not (op == hci.HCI_LE_CREATE_CIS_COMMAND and not last_cis_count):
                labels.add(f'accepted:{PROCEDURES[op]}')
                if op == hci.HCI_LE_CREATE_CIS_COMMAND and last_cis_count > 1:
                    labels.add('accepted:several_cis_at_once')
                if op == hci.HCI_READ_REMOTE_EXTENDED_FEATURES_COMMAND and last_page is not None:
                    labels.add('ext_features_page:' + ('within' if last_page <= 3 else 'beyond_peer_max'))
            continue
        kind = completion_kind(pkt)
        if not kind:
            continue
        status, handle = _event_status_handle(pkt)
        if status == 0:
            labels.add(f'success:{kind}')
        if kind == 'disconnection_complete' and status == 0:
            released.add(handle)
            if handle == state.get('classic_handle'):
                labels.add('classic_link_disconnected')
        if kind in ('le_connection_complete', 'connection_complete') and status == 0:
            if handle in released or (handle in (state.get('handle'), state.get('classic_handle'))):
                labels.add('link_back_on_used_handle')
    return labels


def _site(exc) -> str:
    tb = exc.__traceback__
    site = '?'
    while tb is not None:
        fn = tb.tb_frame.f_code.co_filename
        if '/bumble/' in fn:
            site = f'{fn.split("/bumble/")[-1]}:{tb.tb_frame.f_code.co_name}'
        tb = tb.tb_next
    return site


# ---------------------------------------------------------------------------
def run(ctx) -> None:
    vloop.selftest()
    # every registered command class once alone (registry enumerated), in two situations
    classes = [hci.HCI_Command.command_classes[k] for k in sorted(hci.HCI_Command.command_classes)]
    n = 0
    for i, cls in enumerate(classes):
        if i % ctx.nshards != ctx.shard or cls.op_code == hci.HCI_RESET_COMMAND:
            continue
        n += 1

        def one(packet, cls=cls):
            for situation in ('connected',):
                run_case(ctx, {'situation': situation, 'extended': True, 'delays': [], 'callers': 1,
                               'program': [[packet, 0], [bytes(hci.HCI_Read_BD_ADDR_Command()), 0]]})

        ctx.hyp(f'alone/{cls.__name__}', one, class_packet(cls), max_examples=ctx.pick(4, 60))
    ctx.extra['classes_sent_alone'] = n

    # the directed families come first and the bulk of random programs last: the tier's wall-clock budget (on a
    # loaded machine) then cuts into the largest family instead of silently skipping the small directed ones
    def one_object_program(c):
        ctx.label('object_program')
        run_case(ctx, c)

    ctx.hyp('object_programs', one_object_program, object_programs(), max_examples=ctx.n(400, 24000))

    def family(label):
        def one(c):
            ctx.label(label)
            run_case(ctx, c)
        return one

    ctx.hyp('link_programs', family('link_program'), link_programs(), max_examples=ctx.n(500, 32000))
    ctx.hyp('cis_programs', family('cis_program'), cis_programs(), max_examples=ctx.n(300, 20000))
    ctx.hyp('credit_programs', family('credit_program'), credit_programs(), max_examples=ctx.n(250, 16000))
    # callers that give up: the enumerated grid of cancellation points (all of it in every shard), then generated ones
    for c in cancel_grid():
        ctx.label('cancel_grid')
        run_case(ctx, c)
    ctx.hyp('cancel_programs', family('cancel_program'), cancel_programs(), max_examples=ctx.n(500, 32000))
    ctx.hyp('programs', lambda c: run_case(ctx, c), program_strategy(), max_examples=ctx.n(2500, 320000))
    ctx.floor('object_program', 100)
    # every procedure of the statement is entered (accepted as pending) and also ends well, on live links
    for kind in sorted(set(PROCEDURES.values())):
        ctx.floor(f'accepted:{kind}', 15)
    for kind in ('le_connection_complete', 'connection_complete', 'disconnection_complete', 'le_cis_established',
                 'le_read_remote_features_complete', 'read_remote_supported_features_complete',
                 'read_remote_extended_features_complete', 'remote_name_request_complete', 'encryption_change'):
        ctx.floor(f'success:{kind}', 10)
    ctx.floor('accepted:several_cis_at_once', 10)
    ctx.floor('ext_features_page:within', 10)
    ctx.floor('ext_features_page:beyond_peer_max', 10)
    ctx.floor('classic_link_disconnected', 10)
    ctx.floor('link_back_on_used_handle', 10)
    ctx.floor('situation:dual_peer_leaves', 10)
    ctx.floor('cancel_grid', 312)
    ctx.floor('cancel_program', 100)
    # a caller gave up at every point of a command's life ...
    for where in CANCEL_STATES:
        ctx.floor(f'gives_up:{where}', 10)
    for where in ('queued', 'written', 'at_controller', 'answered'):
        ctx.floor(f'gives_up:timeout:{where}', 5)
    # ... and while its command was on its way it was followed by one caller at a time / by several at once
    ctx.floor('gives_up_in_flight_then_sequential', 50)
    ctx.floor('gives_up_in_flight_then_concurrent', 50)
    ctx.floor('credit_withheld', 50)
    ctx.floor('credit_withheld_concurrent', 20)
    ctx.floor('concurrent_callers', 20)
    ctx.floor('unregistered_opcode', 20)
    ctx.floor('procedure_command', 20)
    ctx.floor('delayed', 20)
    ctx.floor('situation:peer_leaves', 10)


def replay(ctx, case) -> None:
    run_case(ctx, case)
