"""
C03 - One HCI command outstanding; every command is answered exactly once.

One real Host <-> HCI tap (generated order-preserving delays) <-> real virtual Controller on a
LocalLink with 0..1 peer controllers. Programs of HCI command packets (every registered class
with arbitrary field values, unregistered opcodes, procedure commands with situational
parameters) are issued by 1..6 concurrent callers through Host.send_command; the oracle is an
invariant over the tapped HCI history.
"""

from __future__ import annotations

import asyncio

from hypothesis import strategies as st

from bumble import hci
from bumble.controller import Controller
from bumble.host import Host
from vlib import specgen, vloop, world
from vlib.runner import HarnessError

PROPERTY = 'C03'
LEVEL = 'exploration'
RULE = (
    'programs of HCI command packets drawn from every registered command class (field values from the '
    'spec-driven generator, situational handles/addresses substituted, object identifiers from a small pool), object '
    'programs (create an advertising set, then a command of each class that names a set by the same identifier, with '
    'operation/enable fields swept over 0..5), unregistered opcodes and '
    'procedure commands, distributed over 1..6 concurrent callers, with generated order-preserving HCI '
    'delays, controller capability variants and link situations (no peer / advertising peer / connected '
    'peer / peer leaving the link); every registered class is also sent once alone (registry '
    'enumerated). non-trivial = >=2 commands and (>=2 callers or non-zero delay or an '
    'unregistered/unhandled opcode or a procedure command); distinct by (packets, caller assignment, delays).'
)
ASSUMPTIONS = [
    'delays are order-preserving (as the property states); "eventually" is decided as: no stall and '
    'completion within the virtual-time horizon',
    'an LE connection creation towards a peer that never advertises is concluded by cancelling it '
    '(a controller has no timeout for it); the cancel must then produce the LE Connection Complete',
    'Num_HCI_Command_Packets is 1 in the virtual controller',
]
SHRINK_KEYS = ('program',)

HORIZON = 400.0
VICTIM_RANDOM = hci.Address('C0:00:00:00:00:00')
PEER_RANDOM = hci.Address('C1:01:01:01:01:01')
PEER_PUBLIC = hci.Address('F1:F1:F1:F1:F1:F1', hci.Address.PUBLIC_DEVICE_ADDRESS)

E = hci
# procedure command opcode -> name of the completion it must be concluded by
PROCEDURES = {
    E.HCI_LE_CREATE_CONNECTION_COMMAND: 'le_connection_complete',
    E.HCI_LE_EXTENDED_CREATE_CONNECTION_COMMAND: 'le_connection_complete',
    E.HCI_CREATE_CONNECTION_COMMAND: 'connection_complete',
    E.HCI_DISCONNECT_COMMAND: 'disconnection_complete',
    E.HCI_LE_READ_REMOTE_FEATURES_COMMAND: 'le_read_remote_features_complete',
    E.HCI_REMOTE_NAME_REQUEST_COMMAND: 'remote_name_request_complete',
    E.HCI_READ_REMOTE_SUPPORTED_FEATURES_COMMAND: 'read_remote_supported_features_complete',
    E.HCI_READ_REMOTE_EXTENDED_FEATURES_COMMAND: 'read_remote_extended_features_complete',
    E.HCI_LE_ENABLE_ENCRYPTION_COMMAND: 'encryption_change',
    E.HCI_LE_CREATE_CIS_COMMAND: 'le_cis_established',
}


def completion_kind(packet: bytes):
    """Classifies a controller->host event as a procedure completion (harness-side table)."""
    if packet[0] != 0x04:
        return None
    code = packet[1]
    if code == 0x3E:
        sub = packet[3]
        return {
            0x01: 'le_connection_complete', 0x0A: 'le_connection_complete', 0x29: 'le_connection_complete',
            0x04: 'le_read_remote_features_complete', 0x19: 'le_cis_established',
        }.get(sub)
    return {
        0x03: 'connection_complete', 0x05: 'disconnection_complete', 0x07: 'remote_name_request_complete',
        0x0B: 'read_remote_supported_features_complete', 0x23: 'read_remote_extended_features_complete',
        0x08: 'encryption_change', 0x59: 'encryption_change', 0x30: 'encryption_change',
    }.get(code)


def cmd_name(op: int) -> str:
    cls = hci.HCI_Command.command_classes.get(op)
    return cls.__name__ if cls else f'unregistered_0x{op:04X}'


# ---------------------------------------------------------------------------
# generators
# ---------------------------------------------------------------------------
def _substitute(cls, values: dict, sub: dict) -> dict:
    """Situational parameters: live/unknown handles, the peer's addresses, sane advertising intervals."""
    v = dict(values)
    for name in list(v):
        if name in ('connection_handle', 'handle') and isinstance(v[name], int) and sub.get('handle') is not None:
            v[name] = sub['handle']
        # identifiers of controller-side objects come from a small pool, so that the commands of one program meet
        # on the same advertising set / CIG / sync handle (create it, then operate on it)
        if name in ('advertising_handle', 'cig_id', 'big_handle', 'sync_handle', 'advertising_sid') and isinstance(v[name], int) \
                and sub.get('object') is not None:
            v[name] = sub['object']
        if name in ('bd_addr',) and isinstance(v[name], hci.Address) and sub.get('addr'):
            v[name] = PEER_PUBLIC
        if name == 'peer_address' and isinstance(v[name], hci.Address) and sub.get('addr'):
            if 'peer_address_type' in v:
                v['peer_address_type'] = 1
            v[name] = hci.Address(bytes(PEER_RANDOM), hci.Address.RANDOM_DEVICE_ADDRESS)
        # keep the virtual advertiser from spinning: the Core spec range starts at 0x20
        if name in ('advertising_interval_min', 'advertising_interval_max', 'primary_advertising_interval_min',
                    'primary_advertising_interval_max', 'periodic_advertising_interval_min',
                    'periodic_advertising_interval_max') and isinstance(v[name], int):
            v[name] = max(v[name], 0x800)
    return v


def class_packet(cls):
    """Strategy: one command packet (bytes) of a registered class."""
    from checks.c01_hci_codec import SPECIAL

    sub = st.fixed_dictionaries(
        {'handle': st.sampled_from([None, None, 1, 1, 2, 0x0EFF]), 'addr': st.booleans(),
         'object': st.sampled_from([None, 0, 0, 1, 1, 2])}
    )
    if cls in SPECIAL:
        base = SPECIAL[cls]()
    else:
        base = specgen.fields_strategy(cls.fields, 255)

    def build(d):
        (values, _wire, _exp), s = d
        try:
            return bytes(cls(**_substitute(cls, values, s)))
        except Exception:
            return bytes(cls(**values))

    return st.tuples(base, sub).map(build)


def unknown_packet():
    known = set(hci.HCI_Command.command_classes)
    op = st.one_of(
        st.integers(1, 0xFFFF).filter(lambda o: o not in known),
        st.integers(0xFC00, 0xFFFF).filter(lambda o: o not in known),
    )
    return st.tuples(op, st.binary(max_size=12)).map(
        lambda d: bytes([1]) + d[0].to_bytes(2, 'little') + bytes([len(d[1])]) + d[1]
    )


def object_programs():
    """Strategy: create a controller-side object (advertising set), then one command of a class that names such an
    object by the same identifier, with small enumerated fields (operation, enable, ...) swept over 0..5."""
    from checks.c01_hci_codec import SPECIAL

    classes = [hci.HCI_Command.command_classes[k] for k in sorted(hci.HCI_Command.command_classes)]
    users = [c for c in classes if c not in SPECIAL and 'advertising_handle' in specgen.flat_names(c.fields)]
    params_cls = hci.HCI_LE_Set_Extended_Advertising_Parameters_Command

    def packet(cls, values, obj, small):
        v = _substitute(cls, values, {'handle': None, 'addr': False, 'object': obj})
        for name in ('operation', 'fragment_preference', 'enable'):
            if name in v and isinstance(v[name], int):
                v[name] = small
        try:
            return bytes(cls(**v))
        except Exception:
            return bytes(cls(**values))

    def build(d):
        cls, (pv, _w, _e), (uv, _w2, _e2), obj, small, create = d
        program = []
        if create:
            program.append([packet(params_cls, pv, obj, 0), 0])
        program.append([packet(cls, uv, obj, small), 0])
        program.append([bytes(hci.HCI_Read_BD_ADDR_Command()), 0])
        return {'situation': 'none', 'extended': True, 'delays': [], 'callers': 1, 'program': program}

    return st.sampled_from(users).flatmap(lambda cls: st.tuples(
        st.just(cls), specgen.fields_strategy(params_cls.fields, 255), specgen.fields_strategy(cls.fields, 255),
        st.sampled_from([0, 1]), st.integers(0, 5), st.sampled_from([True, True, True, False]))).map(build)


def program_strategy():
    classes = [hci.HCI_Command.command_classes[k] for k in sorted(hci.HCI_Command.command_classes)]
    # never reset the controller in the middle of a program (a reset legitimately drops procedures)
    classes = [c for c in classes if c.op_code != hci.HCI_RESET_COMMAND]
    procs = [hci.HCI_Command.command_classes[k] for k in sorted(PROCEDURES) if k in hci.HCI_Command.command_classes]
    procs.append(hci.HCI_LE_Create_Connection_Cancel_Command)
    any_cmd = st.sampled_from(classes).flatmap(class_packet)
    proc_cmd = st.sampled_from(procs).flatmap(class_packet)
    cmd = st.one_of(any_cmd, any_cmd, proc_cmd, unknown_packet())
    return st.fixed_dictionaries(
        {
            'situation': st.sampled_from(['none', 'adv_peer', 'connected', 'connected', 'peer_leaves']),
            'extended': st.booleans(),
            'delays': st.lists(st.sampled_from([0, 0, 0, 1, 7, 50]), min_size=0, max_size=6),
            'callers': st.integers(1, 6),
            'program': st.lists(st.tuples(cmd, st.integers(0, 5)), min_size=1, max_size=12),
        }
    )


# ---------------------------------------------------------------------------
# one case
# ---------------------------------------------------------------------------
class _RawCommand(hci.HCI_Command):
    """A command that serialises to exactly the given packet bytes."""

    def __init__(self, packet: bytes):
        self._packet = packet
        self.op_code = int.from_bytes(packet[1:3], 'little')
        self.name = cmd_name(self.op_code)
        self._parameters = packet[4:]

    def __bytes__(self):
        return self._packet


def run_case(ctx, case) -> None:
    situation = case['situation']
    delays = list(case['delays'])
    program = [(bytes(p), int(c)) for p, c in case['program']]
    ncallers = max(1, int(case['callers']))
    loop = vloop.new_loop()
    loop.max_iterations = 300_000
    state: dict = {}

    def fail(sig, what):
        ctx.fail(sig, what, {'kind': 'program', **{k: case[k] for k in ('situation', 'extended', 'delays', 'callers')},
                             'program': [[p, c] for p, c in program]})

    async def setup():
        link = world.OrderedLink()
        ctrl = Controller('C0', link=link, public_address=world.public_addr(0))
        if not case['extended']:
            ctrl.le_features = hci.LeFeatureMask(int(ctrl.le_features) & ~int(hci.LeFeatureMask.LE_EXTENDED_ADVERTISING))
        else:
            ctrl.le_features = hci.LeFeatureMask(int(ctrl.le_features) | int(hci.LeFeatureMask.LE_EXTENDED_ADVERTISING))
        # Core-spec default advertising interval (the class default of 0 makes the virtual
        # advertiser re-arm a zero-delay timer forever once enabled; not C03's subject)
        ctrl.le_legacy_advertiser.advertising_interval_min = 0x0800
        ctrl.le_legacy_advertiser.advertising_interval_max = 0x0800
        tap = world.Tap('T0', None)
        host = Host()
        host.set_packet_sink(tap.to_controller)

        class Guard:
            """Delivers to the controller and attributes handler exceptions to the command."""

            def on_packet(self, packet):
                try:
                    ctrl.on_packet(packet)
                except Exception as e:  # noqa: BLE001 - same effect as an exception in a loop callback
                    state.setdefault('handler_errors', []).append((packet, e))

        tap.sinks[world.H2C] = Guard()
        ctrl.set_packet_sink(tap.to_host)
        tap.sinks[world.C2H] = host
        await host.reset(driver_factory=None)
        await host.send_sync_command(hci.HCI_LE_Set_Random_Address_Command(random_address=VICTIM_RANDOM))
        await host.send_sync_command(hci.HCI_Write_Scan_Enable_Command(scan_enable=3))
        peer = None
        if situation != 'none':
            peer = world.RawPeer(link, 1)
            await peer.start()
            await peer.host.send_sync_command(hci.HCI_Write_Scan_Enable_Command(scan_enable=3))

            # a present peer's host answers classic connection requests (accepts them)
            def on_connection_request(bd_addr, _cod, _link_type, peer=peer):
                loop.create_task(
                    peer.host.send_command(hci.HCI_Accept_Connection_Request_Command(bd_addr=bd_addr, role=1))
                )

            peer.host.on('connection_request', on_connection_request)
            await peer.host.send_sync_command(
                hci.HCI_LE_Set_Advertising_Parameters_Command(
                    advertising_interval_min=0x4000, advertising_interval_max=0x4000, advertising_type=0,
                    own_address_type=1, peer_address_type=0, peer_address=hci.Address.ANY,
                    advertising_channel_map=7, advertising_filter_policy=0,
                )
            )
            await peer.host.send_sync_command(hci.HCI_LE_Set_Advertising_Enable_Command(advertising_enable=1))
        if situation in ('connected', 'peer_leaves'):
            fut = loop.create_future()
            host.once('le_connection', lambda handle, *a: fut.done() or fut.set_result(handle))
            await host.send_async_command(
                hci.HCI_LE_Create_Connection_Command(
                    le_scan_interval=96, le_scan_window=96, initiator_filter_policy=0, peer_address_type=1,
                    peer_address=PEER_RANDOM, own_address_type=1, connection_interval_min=12,
                    connection_interval_max=24, max_latency=0, supervision_timeout=72, min_ce_length=0,
                    max_ce_length=0,
                )
            )
            state['handle'] = await fut
            # the peer advertises again so that further connection attempts find it
            await peer.host.send_sync_command(hci.HCI_LE_Set_Advertising_Enable_Command(advertising_enable=1))
        # from here on the tap applies the generated delays
        tap._delays = {world.H2C: tap._cycle(delays, 0), world.C2H: tap._cycle(delays, 1)}
        state.update(link=link, ctrl=ctrl, tap=tap, host=host, peer=peer, mark=len(tap.log))

    results: list = [None] * len(program)

    async def caller(k):
        host = state['host']
        for i, (packet, who) in enumerate(program):
            if who % ncallers != k:
                continue
            try:
                rsp = await host.send_command(_RawCommand(packet))
                results[i] = ('ok', rsp.command_opcode, type(rsp).__name__)
            except asyncio.CancelledError:
                raise
            except Exception as e:
                results[i] = ('exc', type(e).__name__, str(e)[:80])
            if situation == 'peer_leaves' and state.get('peer') is not None and i >= len(program) // 2:
                # the peer disappears from the link in the middle of the program
                try:
                    state['link'].remove_controller(state['peer'].controller)
                except ValueError:
                    pass
                state['peer_left'] = True

    async def main():
        await setup()
        tasks = [loop.create_task(caller(k)) for k in range(ncallers)]
        state['tasks'] = tasks
        await asyncio.gather(*tasks)
        # conclusion phase: give accepted procedures time, cancel a pending LE connection creation
        await asyncio.sleep(2.0)
        pend = pending_procedures(state['tap'].log[state['mark']:])
        if any(kind == 'le_connection_complete' for kind, _ in pend):
            state['cancel_sent'] = True
            try:
                await state['host'].send_command(hci.HCI_LE_Create_Connection_Cancel_Command())
            except Exception as e:  # noqa: BLE001 - judged below from the log
                state['cancel_error'] = repr(e)
        await asyncio.sleep(HORIZON)

    outcome = 'done'
    try:
        loop.complete(main(), horizon=HORIZON * 3)
    except vloop.Stalled:
        outcome = 'stalled'
    except vloop.HorizonExceeded:
        outcome = 'horizon'
    except vloop.BudgetExceeded:
        outcome = 'budget'
    except Exception as e:
        loop.shutdown()
        raise HarnessError(f'C03 harness set-up failed: {e!r}')

    try:
        if 'tap' not in state:
            # the set-up itself is a sequence of HCI commands on the real host and controller
            fail(f'setup/{outcome}', f'the harness set-up commands (reset, set address, connect) did not complete: {outcome}')
            ctx.case(('setup', case['situation']), False, {'setup_failed'})
            return
        analyse(ctx, case, program, ncallers, state, results, outcome, loop, fail)
    finally:
        loop.shutdown()


def pending_procedures(log):
    """Procedures accepted as pending (Command Status 0) and not yet concluded, from the history."""
    pending = []
    last_cis_count = 0
    for _t, d, pkt in log:
        if d == world.H2C and pkt[0] == 0x01 and int.from_bytes(pkt[1:3], 'little') == hci.HCI_LE_CREATE_CIS_COMMAND:
            last_cis_count = pkt[4] if len(pkt) > 4 else 0
        if d != world.C2H or pkt[0] != 0x04:
            continue
        if pkt[1] == 0x0F and len(pkt) >= 7:  # Command Status
            status, op = pkt[3], int.from_bytes(pkt[5:7], 'little')
            if status == 0 and op in PROCEDURES:
                n = 1
                if op == hci.HCI_LE_CREATE_CIS_COMMAND:
                    # one CIS Established per requested CIS (none for an empty request)
                    n = last_cis_count
                pending.extend([(PROCEDURES[op], op)] * n)
            continue
        kind = completion_kind(pkt)
        if kind:
            for i, (k, _op) in enumerate(pending):
                if k == kind:
                    del pending[i]
                    break
    return pending


def analyse(ctx, case, program, ncallers, state, results, outcome, loop, fail):
    log = state['tap'].log[state['mark']:]
    labels = {f'situation:{case["situation"]}', f'callers:{min(ncallers, 3)}'}
    if any(case['delays']):
        labels.add('delayed')
    # ---- clause 1 + 2: outstanding count and exactly one answer per command
    outstanding = None  # opcode of the command the controller has not answered yet
    ok = True
    for _t, d, pkt in log:
        if d == world.H2C and pkt[0] == 0x01:
            op = int.from_bytes(pkt[1:3], 'little')
            if outstanding is not None:
                fail('two_outstanding', f'command {cmd_name(op)} sent while {cmd_name(outstanding)} is unanswered')
                ok = False
                break
            outstanding = op
        elif d == world.C2H and pkt[0] == 0x04 and pkt[1] in (0x0E, 0x0F):
            op = int.from_bytes(pkt[4:6], 'little') if pkt[1] == 0x0E else int.from_bytes(pkt[5:7], 'little')
            if op == 0:
                continue
            if outstanding is None:
                fail(f'unsolicited_response/{cmd_name(op)}', f'second or unsolicited Command Complete/Status for {cmd_name(op)}')
                ok = False
                break
            if op != outstanding:
                fail(f'wrong_opcode_response/{cmd_name(outstanding)}', f'{cmd_name(outstanding)} answered with opcode of {cmd_name(op)}')
                ok = False
                break
            outstanding = None
    if ok and outstanding is not None:
        # unanswered command: why?
        name = cmd_name(outstanding)
        excs = [e for p, e in state.get('handler_errors', []) if p[0] == 1 and int.from_bytes(p[1:3], 'little') == outstanding]
        if excs:
            exc = excs[-1]
            site = _site(exc)
            fail(f'no_reply/handler_raises/{name}/{type(exc).__name__}', f'{name}: controller handler raised {exc!r} at {site}; no Command Complete/Status')
        else:
            klass = hci.HCI_Command.command_classes.get(outstanding)
            kind = 'unregistered' if klass is None else ('async' if issubclass(klass, hci.HCI_AsyncCommand) else 'sync')
            has_handler = hasattr(state['ctrl'], f'on_{name.lower()}') if klass else False
            fail(f'no_reply/{kind}/{"handler" if has_handler else "no_handler"}/{name if has_handler else "*"}',
                 f'{name}: no Command Complete or Command Status was sent (callers wait forever)')
        ok = False
    # ---- clause 3: callers
    if ok:
        for i, (pkt, _who) in enumerate(program):
            op = int.from_bytes(pkt[1:3], 'little')
            r = results[i]
            if r is None:
                fail('caller_pending', f'caller of {cmd_name(op)} still waiting at quiescence ({outcome})')
                ok = False
                break
            if r[0] == 'exc':
                fail(f'caller_exception/{r[1]}', f'caller of {cmd_name(op)} got {r[1]}({r[2]}) instead of the response to its command')
                ok = False
                break
            if r[0] == 'ok' and r[1] != op:
                fail('caller_got_wrong_response', f'caller of {cmd_name(op)} received the response for {cmd_name(r[1])}')
                ok = False
                break
    # ---- clause 4: procedures conclude
    if ok:
        for kind, op in pending_procedures(log):
            sit = case['situation'] + ('/cancelled' if state.get('cancel_sent') and kind == 'le_connection_complete' else '')
            fail(f'procedure_not_concluded/{cmd_name(op)}/{sit}',
                 f'{cmd_name(op)} was accepted (Command Status pending) but no {kind} event followed within {HORIZON}s')
            ok = False
            break
    if outcome == 'budget':
        labels.add('iteration_budget_hit')
    ops = [int.from_bytes(p[1:3], 'little') for p, _ in program]
    if any(o not in hci.HCI_Command.command_classes for o in ops):
        labels.add('unregistered_opcode')
    if any(o in PROCEDURES for o in ops):
        labels.add('procedure_command')
    nontrivial = len(program) >= 2 and (
        ncallers >= 2 or any(case['delays']) or 'unregistered_opcode' in labels or 'procedure_command' in labels
    )
    if len({w % ncallers for _, w in program}) >= 2:
        labels.add('concurrent_callers')
    ctx.case((case['situation'], case['extended'], case['delays'], ncallers, program), nontrivial, labels,
             sample={'situation': case['situation'], 'callers': ncallers, 'delays': case['delays'],
                     'program': [cmd_name(o) for o in ops]})


def _site(exc) -> str:
    tb = exc.__traceback__
    site = '?'
    while tb is not None:
        fn = tb.tb_frame.f_code.co_filename
        if '/bumble/' in fn:
            site = f'{fn.split("/bumble/")[-1]}:{tb.tb_frame.f_code.co_name}'
        tb = tb.tb_next
    return site


# ---------------------------------------------------------------------------
def run(ctx) -> None:
    vloop.selftest()
    # every registered command class once alone (registry enumerated), in two situations
    classes = [hci.HCI_Command.command_classes[k] for k in sorted(hci.HCI_Command.command_classes)]
    n = 0
    for i, cls in enumerate(classes):
        if i % ctx.nshards != ctx.shard or cls.op_code == hci.HCI_RESET_COMMAND:
            continue
        n += 1

        def one(packet, cls=cls):
            for situation in ('connected',):
                run_case(ctx, {'situation': situation, 'extended': True, 'delays': [], 'callers': 1,
                               'program': [[packet, 0], [bytes(hci.HCI_Read_BD_ADDR_Command()), 0]]})

        ctx.hyp(f'alone/{cls.__name__}', one, class_packet(cls), max_examples=ctx.pick(4, 60))
    ctx.extra['classes_sent_alone'] = n
    ctx.hyp('programs', lambda c: run_case(ctx, c), program_strategy(), max_examples=ctx.n(2500, 320000))

    def one_object_program(c):
        ctx.label('object_program')
        run_case(ctx, c)

    ctx.hyp('object_programs', one_object_program, object_programs(), max_examples=ctx.n(400, 24000))
    ctx.floor('object_program', 100)
    ctx.floor('concurrent_callers', 20)
    ctx.floor('unregistered_opcode', 20)
    ctx.floor('procedure_command', 20)
    ctx.floor('delayed', 20)
    ctx.floor('situation:peer_leaves', 10)


def replay(ctx, case) -> None:
    run_case(ctx, case)
