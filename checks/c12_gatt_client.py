"""
C12 - A GATT client sees exactly the server's database, values and notifications.

Harness A: one Bumble GATT server (node 0 of a vlib.world.World) and 1..3 Bumble client
devices over LE, each with 0..2 enhanced (EATT) bearers.  The database, the MTU
preferences and an operation list (read / write / subscribe / unsubscribe / server sends)
are generated as plain data.  The reference tree is derived by the harness: the database
description says WHAT each service contains, the harness' own walk over
`Server.attributes` (types and declaration bytes only, no server helper is called) says
WHERE it is; a perfect client must reconstruct exactly that.  The server node's HCI tap is
sniffed (ACL -> L2CAP -> ATT / K-frame SDU reassembly done here) for the on-the-wire clause.
Histories also contain: several subscribers of one client per characteristic, overlapping reads / reads during
server sends, enhanced bearers that are closed and opened while the connection stays, reconnections with a new MTU.

Harness B: a Bumble GATT client against a vlib.world.RawPeer that plays an adversarial ATT
server on CID 4 from a generated response script; every discovery procedure has to
terminate (return or raise).  Non-termination is decided structurally (same request issued
again after the same answer, request count beyond the handle space) or by the virtual loop
(Stalled / HorizonExceeded), never by wall clock.
"""

from __future__ import annotations

import asyncio
import struct

from hypothesis import strategies as st

from bumble import att, gatt_client, l2cap
from bumble.core import UUID
from bumble.device import DeviceConfiguration
from bumble.gatt import Characteristic, Descriptor, Service
from vlib import vloop, world
from vlib.runner import HarnessError

PROPERTY = 'C12'
LEVEL = 'exploration'
RULE = (
    'A (db): databases of 1..6 services (primary/secondary, include edges over a drawn acyclic rank, '
    'both "included service registered before" and "registered through the includer"), 0..5 '
    'characteristics each (property mixes), 0..3 descriptors, UUID widths 16/32/128 mixed inside a '
    'range, value lengths biased to k*(MTU-1)+{-1,0,1}, MTU-3+{-1,0,1}, 0, 512; optional default '
    'GAP/GATT services in front; server max MTU and client MTU preference 23..517 (or no exchange); '
    '1..3 client devices with 0..2 EATT bearers each (L2CAP MTU 64..517 or default on both sides); '
    'operation lists of read/write/subscribe (one bearer or all bearers)/unsubscribe/notify_subscribers/indicate_subscribers/'
    'notify_subscriber/indicate_subscriber (connection or one bearer, forced or not; also "the API matching the latest subscription"). Every client '
    'runs the full discovery; everything readable is read on client 0, every generated characteristic value on every EATT bearer. '
    'Client 0 also runs the filtered / ranged forms (discover_services(uuids), discover_characteristics(uuids, service) with the UUID of the '
    'second-to-last characteristic of the largest service, discover_characteristics([], None), discover_descriptors(start, end)); on every bearer '
    'the tree the client keeps (Client.services, .characteristics, .included_services, .descriptors, get_*_by_uuid) is compared with what was returned. '
    'Appended blocks (each in about a third of the cases): several subscribers of one client on one characteristic (callback slots 0..2, '
    'callback-less subscribe with the proxy\'s "update" event, unsubscribe of one of several / of all / of a callback that never subscribed, sends after each step); '
    'overlapping operations (2..4 reads started together on the same or different bearers, a read in flight - 0..6 loop turns ahead - while the '
    'server notifies/indicates); one enhanced bearer closed by the client or the server while the connection stays, sends, a new enhanced bearer '
    'opened later (channel identifiers reused), sends; reconnect with a fresh MTU exchange on the new connection. '
    'Two further families (small database, first service primary) append 3..8 writes of generated length classes: 0, 1, 2, 20, 510, 511, 512, 513, '
    'L-2..L+2 with L = min(ATT_MTU-3, 512) of the writing bearer, lengths at the read boundaries of the bearers, any length 0..514; target = a '
    'characteristic value or one of its user descriptors; Write Request or Write Command; on the unenhanced or an enhanced bearer of any client; every '
    'case contains one Write Request and one Write Command of exactly L bytes. Each write is followed by a read-back on the writing bearer or on another '
    'one (a long read when that bearer\'s ATT_MTU is small). Family "writes": MTU preferences as above; family "writes_max": server max MTU and '
    'client 0\'s preference both in 515..517 (EATT L2CAP MTUs mostly 515/517/2048), so that L = 512, the largest attribute value. '
    'non-trivial = some discovery '
    'step needed >=2 response PDUs, or UUID widths are mixed inside one discovery range, or a long '
    'read happened, or a server send had >=2 subscribed bearers, or long reads overlapped (with each other on two bearers / with a send to the reading bearer), '
    'or a write of 0, L-1 or L bytes was applied and read back. '
    'B (script): one discovery procedure (all six, generated handle ranges for the range-based ones) '
    'against a scripted adversarial server: list responses with absolute / request-relative handles '
    '(equal to start, start-1, 0, 0xFFFF, end < start, non-monotonic), empty lists, wrong-type '
    'responses, error responses with arbitrary codes, repeated identical responses, duplicates, '
    'silence, raw bytes, and a tail policy once the script is used up (repeat last bytes forever / '
    'Attribute Not Found / silence). non-trivial = the procedure consumed an empty, non-advancing, '
    'repeated, wrong-type, silent or unexpected-error response. distinct by the whole case.'
)
ASSUMPTIONS = [
    'a caller that gives up a read (task.cancel(), an enclosing asyncio.wait_for) is ordinary use of the asyncio API; the abandoned call '
    'may end any way it likes, the reads that FOLLOW on the same bearer must return the exact current value (operation read_giveup)',
    'all generated attributes are readable and writeable without security (permissions are C11)',
    'a plain Write Request/Command is only asserted for values of at most ATT_MTU-3 bytes',
    'the client API offers Write Request and Write Command only (no prepared / long writes), so a written value has at most min(ATT_MTU-3, 512) bytes; '
    'inside that bound a write must not raise, the server\'s attribute must hold exactly the written bytes afterwards and a read on any bearer must return '
    'them. A write of more than ATT_MTU-3 or more than 512 bytes is outside the statement: refused, dropped, applied or truncated are all accepted, only '
    'the following read still has to return whatever the server holds (when that is at most 512 bytes)',
    'ATT_MTU of an enhanced bearer = min of the two L2CAP MTU fields (Core Vol 3 Part F 3.2.8)',
    'a forced send to an unsubscribed bearer: only the wire clause is asserted for the target '
    '(its callback may or may not fire); callbacks of all other bearers must stay silent',
    'the UUID of an included service is part of the structure a client has to reconstruct '
    '(GATT 4.5.1: read from the service declaration when it is not in the include declaration)',
    'termination: a raise (including the 30 s GATT timeout) is a termination; "same request a third '
    'time after two identical answers" is non-termination against a deterministic adversary',
    'descriptor types 0x2800-0x2803 and 0x2902 are not generated as user descriptors; generated '
    '128-bit UUIDs are never on the Bluetooth base (no equal-valued UUIDs of different widths)',
    'several subscribers of one client: a callback that subscribed for the kind of PDU that arrives and has not unsubscribed is called exactly '
    'once, one that unsubscribed or never subscribed is not called; the bearer stays subscribed (CCCD unchanged, the server keeps sending) while '
    'a callback subscribed for the enabled kind is left and reads 0000 when the last subscriber left or unsubscribe() was called without a callback. '
    'Left open (both accepted): what happens to the CCCD when only a callback-less subscription or only subscribers of the other kind remain, '
    'and whether a callback registered for notifications sees an indication (or vice versa)',
    'the proxy\'s "update" event has to fire once per delivered PDU while a callback of that kind (or an untouched callback-less subscription) is registered',
    'closing an enhanced bearer removes that bearer\'s subscriptions only; a bearer opened later starts unsubscribed whatever identifiers it gets',
    'GATT 4.6.2: discover_characteristics(uuids, service) returns the matching characteristics with the same value handle / end handle as the unfiltered procedure',
]
SHRINK_KEYS = ('ops', 'script', 'services', 'chars', 'descs', 'includes', 'eatt')

HORIZON_A = 900.0
HORIZON_B = 200.0
QUIET = 0.5  # virtual seconds; far beyond the longest generated HCI delay chain
MAX_REQUESTS = 65536 + 16
ATT_REQUEST_OPCODES = {0x02, 0x04, 0x06, 0x08, 0x0A, 0x0C, 0x0E, 0x10, 0x12, 0x16, 0x18, 0x20}

BASE_LE = bytes.fromhex('00001000800000805F9B34FB')[::-1]
READABLE_WRITEABLE = Characteristic.READABLE | Characteristic.WRITEABLE


# ---------------------------------------------------------------------------
# small helpers (harness-owned conversions; nothing here calls into the GATT code)
# ---------------------------------------------------------------------------
def u128(b: bytes) -> bytes:
    """128-bit little-endian form of a 2/4/16 byte little-endian UUID."""
    b = bytes(b)
    if len(b) == 2:
        return BASE_LE + b + b'\x00\x00'
    if len(b) == 4:
        return BASE_LE + b
    if len(b) == 16:
        return b
    return b'?' + b  # not a UUID; compares unequal to everything well-formed


def uuid_le(s: str) -> bytes:
    return bytes.fromhex(s)[::-1]


def pdu_width(s: str) -> int:
    """Size of the UUID inside an ATT PDU (32-bit UUIDs travel as 128-bit)."""
    return 2 if len(s) == 4 else 16


T_PRIMARY = u128(b'\x00\x28')
T_SECONDARY = u128(b'\x01\x28')
T_INCLUDE = u128(b'\x02\x28')
T_CHARACTERISTIC = u128(b'\x03\x28')
T_CCCD = u128(b'\x02\x29')


def pattern(n: int, seed: int) -> bytes:
    return bytes(((seed * 37 + i * 11 + (i >> 8) * 5 + 1) & 0xFF) for i in range(n))


def hx(b) -> str:
    b = bytes(b)
    return b.hex() if len(b) <= 24 else f'{b[:10].hex()}..({len(b)} bytes)'


U16_POOL = [f'{0xA000 + i:04X}' for i in range(12)]
U32_POOL = [f'{0x00010000 + 0x1111 * i:08X}' for i in range(1, 9)]
U128_POOL = [f'{0x3A143AD7 + i:08X}D4A7436B97D65B62C315{i:04X}' for i in range(12)]
D16_POOL = ['2901', '2904', '2900', 'B001', 'B002']


# ---------------------------------------------------------------------------
# HCI tap sniffer: ACL -> L2CAP PDUs -> ATT PDUs (fixed channel 4, or K-frame SDUs on dynamic CIDs)
# ---------------------------------------------------------------------------
class Sniffer:
    def __init__(self, tap):
        self.tap = tap
        self.pos = 0
        self.acl: dict = {}
        self.sdu: dict = {}
        self.att: list = []  # (direction, connection handle, cid, att pdu bytes)

    def pump(self) -> int:
        log = self.tap.log
        while self.pos < len(log):
            _t, d, pkt = log[self.pos]
            self.pos += 1
            if not pkt or pkt[0] != 0x02 or len(pkt) < 5:
                continue
            hf = int.from_bytes(pkt[1:3], 'little')
            handle, pb = hf & 0x0FFF, (hf >> 12) & 3
            key = (d, handle)
            if pb in (0, 2):
                self.acl[key] = bytearray(pkt[5:])
            else:
                self.acl.setdefault(key, bytearray()).extend(pkt[5:])
            buf = self.acl[key]
            if len(buf) >= 4:
                n = int.from_bytes(buf[0:2], 'little')
                if len(buf) >= 4 + n:
                    cid = int.from_bytes(buf[2:4], 'little')
                    self._l2cap(d, handle, cid, bytes(buf[4 : 4 + n]))
                    self.acl[key] = bytearray()
        return len(self.att)

    def _l2cap(self, d, handle, cid, payload):
        if cid == att.ATT_CID:
            self.att.append((d, handle, cid, payload))
        elif cid >= 0x40:
            key = (d, handle, cid)
            st_ = self.sdu.get(key)
            if st_ is None:
                if len(payload) < 2:
                    return
                st_ = [int.from_bytes(payload[0:2], 'little'), bytearray(payload[2:])]
            else:
                st_[1].extend(payload)
            if len(st_[1]) >= st_[0]:
                self.att.append((d, handle, cid, bytes(st_[1][: st_[0]])))
                self.sdu.pop(key, None)
            else:
                self.sdu[key] = st_


# ---------------------------------------------------------------------------
# Harness A: generators
# ---------------------------------------------------------------------------
MTU_POINTS = [23, 23, 24, 25, 27, 30, 48, 64, 100, 185, 247, 255, 256, 257, 512, 515, 516, 517]
MAX_VALUE = 512  # the largest attribute value (Core Vol 3 Part F 3.2.9); the harness' own constant
BIG_MTUS = [515, 516, 517, 517]  # ATT_MTU - 3 >= 512
BIG_EATT_MTUS = [515, 517, 2048]
# written lengths: ['len', n] = n bytes (at most ATT_MTU-3 of the writing bearer), ['mtu', d] = min(ATT_MTU-3, 512) + d bytes
WRITE_SPECS = [['len', 0], ['len', 1], ['len', 2], ['len', 20], ['mtu', 0], ['mtu', 0], ['mtu', 0], ['mtu', -1], ['mtu', -2], ['mtu', 1], ['mtu', 2],
               ['len', 510], ['len', 511], ['len', 512], ['len', 512], ['len', 513]]


def mtu_st():
    return st.one_of(st.sampled_from(MTU_POINTS), st.integers(23, 517))


def eatt_mtu_st():
    return st.one_of(st.sampled_from([64, 65, 100, 247, 517, 2048, 2048]), st.integers(64, 517))


def uuid_st(kind: str):
    if kind == 'desc':
        return st.one_of(st.sampled_from(D16_POOL), st.sampled_from(D16_POOL), st.sampled_from(U32_POOL), st.sampled_from(U128_POOL))
    return st.one_of(st.sampled_from(U16_POOL), st.sampled_from(U16_POOL), st.sampled_from(U32_POOL), st.sampled_from(U128_POOL))


def length_st(mtus):
    """Value lengths biased to the packing / long-read boundaries of the bearers' ATT_MTUs."""
    points = {0, 1, 2, 20, 22, 512, 511}
    for m in mtus:
        for d in (-1, 0, 1):
            points.add(m - 3 + d)
            points.add(m - 1 + d)
            points.add(m - 4 + d)  # Read By Type limit
            for k in (2, 3):
                points.add(k * (m - 1) + d)
        kmax = 512 // (m - 1)
        if kmax >= 4:
            points.add(kmax * (m - 1))
            points.add(kmax * (m - 1) - 1)
    points = sorted(p for p in points if 0 <= p <= 512)
    return st.one_of(st.sampled_from(points), st.sampled_from(points), st.integers(0, 40), st.integers(0, 512))


PROP_POINTS = [0x02, 0x0A, 0x10, 0x20, 0x30, 0x12, 0x22, 0x32, 0x3A, 0x04, 0x0E, 0x1E, 0x00, 0xFF, 0x80 | 0x12]


@st.composite
def db_case(draw, focus=None):
    """focus=None: the general family (every appended block with its own probability). focus='subscribers' / 'overlap' /
    'churn' / 'writes' / 'writes_max': a small database (1..2 services, 1..3 characteristics, the first one subscribable), 1..2 clients, a short
    general operation list, and ALWAYS the block of that name - so that these histories do not depend on the luck of
    the general family."""
    # focus='writes_max': both sides ask for 515..517 on the unenhanced bearer of client 0 and (mostly) for >= 515 on the
    # enhanced bearers, so that the largest attribute value (512 bytes) fits into one Write PDU
    big = focus == 'writes_max'
    server_mtu = draw(st.sampled_from(BIG_MTUS) if big else mtu_st())
    eatt_server_mtu = draw(st.sampled_from(BIG_EATT_MTUS) if big else eatt_mtu_st())
    nclients = draw(st.sampled_from([1, 2, 3, 1, 2] if focus is None else [1, 2, 2]))
    clients = []
    for k in range(nclients):
        clients.append(
            {
                'mtu': draw(st.sampled_from(BIG_MTUS) if big and k == 0 else st.one_of(st.none(), mtu_st(), mtu_st(), mtu_st())),
                'eatt': draw(st.lists(st.one_of(st.sampled_from(BIG_EATT_MTUS), eatt_mtu_st()) if big else eatt_mtu_st(), min_size=1, max_size=2))
                if draw(st.booleans()) or (focus == 'churn' and k == 0) else [],
            }
        )
    bearer_mtus = []
    for c in clients:
        bearer_mtus.append(min(c['mtu'], server_mtu) if c['mtu'] is not None else 23)
        for e in c['eatt']:
            bearer_mtus.append(min(e, eatt_server_mtu))
    lengths = length_st(sorted(set(m for m in bearer_mtus if m <= 517)) or [23])

    nsvc = draw(st.integers(1, 6 if focus is None else 2))
    rank = draw(st.permutations(list(range(nsvc))))
    services = []
    for i in range(nsvc):
        nchars = draw(st.sampled_from([0, 1, 1, 2, 2, 3, 4, 5] if focus is None else [1, 2, 3]))
        chars = []
        for ci in range(nchars):
            ndesc = draw(st.sampled_from([0, 0, 0, 1, 1, 2, 3]))
            chars.append(
                {
                    'uuid': draw(uuid_st('char')),
                    'props': draw(st.one_of(st.sampled_from(PROP_POINTS), st.sampled_from(PROP_POINTS), st.integers(0, 255)))
                    if focus is None or (i, ci) != (0, 0) else draw(st.sampled_from([0x10, 0x20, 0x30, 0x30, 0x12, 0x22, 0x32, 0x3A])),
                    'value': [draw(lengths), draw(st.integers(0, 255))],
                    'descs': [
                        {'uuid': draw(uuid_st('desc')), 'value': [draw(st.one_of(st.integers(0, 8), lengths)), draw(st.integers(0, 255))]}
                        for _ in range(ndesc)
                    ],
                }
            )
        candidates = [j for j in range(nsvc) if rank[j] < rank[i]]
        includes = []
        if candidates and draw(st.integers(0, 2)) == 0:
            includes = draw(st.lists(st.sampled_from(candidates), min_size=1, max_size=3, unique=True))
        services.append(
            {
                'uuid': draw(uuid_st('svc')),
                # (writes: the first service is primary, so that the client reaches something it can write)
                'primary': draw(st.sampled_from([True, True, True, False])) or (focus in ('writes', 'writes_max') and i == 0),
                'includes': includes,
                'chars': chars,
            }
        )

    idx = st.integers(0, 15)
    # subscriptions and sends concentrate on few characteristics so that bearers share one
    cidx = st.one_of(st.just(0), st.just(0), st.integers(0, 2), idx)
    vlen = st.one_of(st.none(), lengths, lengths)
    sub = st.tuples(st.just('sub'), idx, cidx, st.booleans())
    op = st.one_of(
        sub,
        st.tuples(st.just('unsub'), idx, cidx),
        st.tuples(st.just('notify_all'), cidx, vlen, st.integers(0, 255)),
        st.tuples(st.just('indicate_all'), cidx, vlen, st.integers(0, 255)),
        st.tuples(st.just('notify_one'), idx, cidx, vlen, st.integers(0, 255), st.sampled_from([False, True, False])),
        st.tuples(st.just('indicate_one'), idx, cidx, vlen, st.integers(0, 255), st.sampled_from([False, True, False])),
        st.tuples(st.just('matching_all'), cidx, vlen, st.integers(0, 255)),
        st.tuples(st.just('matching_one'), idx, cidx, vlen, st.integers(0, 255), st.sampled_from([False, False, True])),
        st.tuples(st.just('write'), idx, idx, lengths, st.integers(0, 255), st.booleans()),
        st.tuples(st.just('read'), idx, idx, st.booleans()),
    )
    sub_all = st.tuples(st.just('sub_all'), cidx, st.booleans())
    ops = ([list(o) for o in draw(st.lists(st.one_of(sub, sub, sub_all), min_size=0, max_size=5 if focus is None else 2))]
           + [list(o) for o in draw(st.lists(op, min_size=0, max_size=10 if focus is None else 3))])
    all_sends = st.one_of(
        st.tuples(st.just('notify_all'), st.just(0), vlen, st.integers(0, 255)),
        st.tuples(st.just('indicate_all'), st.just(0), vlen, st.integers(0, 255)),
        st.tuples(st.just('matching_all'), st.just(0), vlen, st.integers(0, 255)),
        st.tuples(st.just('matching_all'), st.just(0), vlen, st.integers(0, 255)),
    )
    if focus == 'subscribers' or (focus is None and draw(st.integers(0, 3)) == 0):
        # several subscribers of ONE client on one characteristic (the client's subscriber sets per handle): callbacks
        # in slots 0..2, 'p' = subscribe() without a callback (the proxy's 'update' event), unsubscribing one of several,
        # all of them (unsubscribe() without a callback) or a callback that never subscribed ('z'), sends in between
        b0, c0, pn0 = draw(idx), draw(cidx), draw(st.booleans())
        bst = st.one_of(st.just(b0), st.just(b0), st.just(b0), idx)
        pnst = st.one_of(st.just(pn0), st.just(pn0), st.just(pn0), st.just(pn0), st.booleans())
        subx = st.tuples(st.just('subx'), bst, st.just(c0), st.sampled_from([0, 1, 1, 2, 2, 'p']), pnst)
        unsubx = st.tuples(st.just('unsubx'), bst, st.just(c0), st.sampled_from([0, 1, 1, 2, 2, 'p', 'z']))
        first = draw(st.sampled_from([[0, 1], [1, 2], [0, 1, 2], [1, 'p'], ['p', 2], [1], ['p', 0, 1], [2, 'p', 1]]))
        ops += [['subx', b0, c0, s, pn0] for s in first]
        ops.append(list(draw(all_sends)))
        for _ in range(draw(st.integers(1, 4))):
            step = draw(st.integers(0, 9))
            if step <= 4:  # a subscriber that is (probably) there leaves, or everybody, or a stranger
                ops.append(['unsubx', b0, c0, draw(st.sampled_from(first + first + ['p', 'p', 'p', 'z', 0, 1, 2]))])
            elif step <= 6:
                ops.append(list(draw(subx)))
            else:
                ops.append(list(draw(unsubx)))
            ops.append(list(draw(all_sends)))
    if focus == 'overlap' or (focus is None and draw(st.integers(0, 3)) == 0):
        # operations that overlap instead of following each other: 2..4 reads started together (same or different
        # bearers), and reads that are in flight on a bearer while the server notifies / indicates
        # [bearer, characteristic, prefer a value that needs a long read on that bearer]
        pair = st.tuples(idx, idx, st.sampled_from([True, True, False])).map(list)
        spread = st.tuples(idx, idx, idx).map(lambda t: [[0, t[0], True], [1, t[1], True], [2, t[2], True]])
        together = st.tuples(st.just('reads_together'), st.one_of(st.lists(pair, min_size=2, max_size=4), spread)).map(list)
        b1, c1 = draw(idx), draw(cidx)
        block = [['sub', b1, c1, draw(st.booleans())]]
        for _ in range(draw(st.integers(2, 4))):
            if draw(st.integers(0, 2)) == 0:
                block.append(draw(together))
            else:
                # [bearer, characteristic, loop turns the read is ahead of the send, prefer a value that needs a long read]
                block.append(['with_read', draw(st.one_of(st.just(b1), st.just(b1), st.just(b1), idx)), draw(idx), draw(st.integers(0, 6)),
                              draw(st.sampled_from([True, True, True, False]))])
                block.append(list(draw(all_sends)))
        ops += block
    if focus == 'churn' or (focus is None and (any(c['eatt'] for c in clients) and draw(st.integers(0, 2)) == 0 or draw(st.integers(0, 11)) == 0)):
        # one enhanced bearer goes away (closed by the client or by the server) while the connection and its other
        # bearers stay; later a new enhanced bearer is opened (it usually gets the channel identifiers of the closed one)
        c2, pn2 = draw(cidx), draw(st.booleans())
        block = [['sub_all', c2, pn2]] if draw(st.booleans()) else [['sub', draw(idx), c2, pn2]]
        block += [['close_eatt', draw(idx), draw(st.booleans())]]
        block += [list(o) for o in draw(st.lists(st.one_of(all_sends, all_sends, st.tuples(st.just('close_eatt'), idx, st.booleans())), min_size=1, max_size=3))]
        if draw(st.integers(0, 2)) > 0:
            block += [['open_eatt', draw(idx), draw(eatt_mtu_st())]]
            block += [list(o) for o in draw(st.lists(st.one_of(all_sends, all_sends, sub), min_size=1, max_size=3))]
        ops += block
    if focus in ('writes', 'writes_max'):
        # writes of every length class through every kind of bearer, each one read back (on the writing bearer or on
        # another one): [bearer, characteristic, 'v' = its value / n = its n-th user descriptor, length, seed,
        # Write Request or Write Command, bearer that reads back (None = the writing one)]
        bsel = st.one_of(st.just(0), st.just(0), idx)
        spec = st.one_of(st.sampled_from(WRITE_SPECS), st.sampled_from(WRITE_SPECS), st.sampled_from(WRITE_SPECS),
                         st.tuples(st.just('len'), lengths).map(list), st.tuples(st.just('len'), st.integers(0, MAX_VALUE + 2)).map(list))
        writev = st.tuples(st.just('writev'), bsel, st.one_of(st.just(0), idx), st.sampled_from(['v', 'v', 'v', 0, 1]), spec, st.integers(0, 255),
                           st.booleans(), st.one_of(st.none(), st.none(), bsel, idx))
        block = [list(o) for o in draw(st.lists(writev, min_size=1, max_size=6))]
        # every case also writes the largest value its bearer can take in one PDU, once with each kind of write
        first = draw(st.booleans())
        for with_response in (first, not first):
            o = list(draw(writev))
            o[4], o[6] = ['mtu', 0], with_response
            block.insert(draw(st.integers(0, len(block))), o)
        ops += block
    if focus == 'giveup' or (focus is None and draw(st.integers(0, 5)) == 0):
        # a caller gives up a read (task.cancel() after `hops` loop iterations and `ms` virtual ms: before the request
        # left, while it is outstanding, after the answer came), then the same client reads again at once:
        # [bearer, characteristic that was being read, hops, ms, how ('cancel' | 'wait_for'), the characteristics read next]
        giveup = st.tuples(st.just('read_giveup'), st.one_of(st.just(0), idx), idx, st.integers(0, 8), st.sampled_from([0, 0, 0, 1, 3, 20]),
                           st.sampled_from(['cancel', 'cancel', 'wait_for']), st.lists(idx, min_size=1, max_size=3))
        ops += [list(o) for o in draw(st.lists(giveup, min_size=1, max_size=3))]
    if draw(st.integers(0, 3)) == 0:
        # a subscribed client drops its connection and comes back (usually on the same connection handle), then the
        # server sends again: the new connection has subscribed to nothing
        sends = st.one_of(
            st.tuples(st.just('notify_all'), cidx, vlen, st.integers(0, 255)),
            st.tuples(st.just('indicate_all'), cidx, vlen, st.integers(0, 255)),
            st.tuples(st.just('matching_all'), cidx, vlen, st.integers(0, 255)),
            sub,
        )
        # (third element: the MTU the client asks for on the NEW connection; None = no exchange, it stays at 23)
        ops += [['reconnect', draw(idx), draw(st.one_of(st.none(), st.none(), mtu_st()))]] + [list(o) for o in draw(st.lists(sends, min_size=1, max_size=4))]
    return {
        'kind': 'db',
        'defaults': draw(st.sampled_from([False, False, True])),
        'delays': draw(st.sampled_from([[], [], [], [0, 1], [0, 0, 3], [2], [0, 7, 1]])),
        'server_mtu': server_mtu,
        'eatt_server_mtu': eatt_server_mtu,
        'clients': clients,
        'services': services,
        'ops': ops,
    }


# ---------------------------------------------------------------------------
# Harness A: database construction and the harness' own reading of the server's attribute list
# ---------------------------------------------------------------------------
def build_db(device, case):
    """Creates the Service/Characteristic/Descriptor objects from the description and registers
    them in description order (a service that was already registered through an includer is not
    added twice). Returns the objects and whether an include pointed forward."""
    services = case['services']
    n = len(services)
    objs: dict = {'svc': [None] * n, 'chr': {}, 'dsc': {}}
    building: set = set()

    def make(i):
        if objs['svc'][i] is not None:
            return objs['svc'][i]
        if i in building:
            raise HarnessError('C12: include cycle in a case description')
        building.add(i)
        s = services[i]
        included = [make(j % n) for j in s['includes'] if j % n != i]
        chars = []
        for ci, c in enumerate(s['chars']):
            descs = []
            for di, d in enumerate(c['descs']):
                dobj = Descriptor(UUID(d['uuid']), READABLE_WRITEABLE, pattern(*d['value']))
                objs['dsc'][(i, ci, di)] = dobj
                descs.append(dobj)
            cobj = Characteristic(UUID(c['uuid']), Characteristic.Properties(c['props'] & 0xFF), READABLE_WRITEABLE, pattern(*c['value']), descs)
            objs['chr'][(i, ci)] = cobj
            chars.append(cobj)
        objs['svc'][i] = Service(UUID(s['uuid']), chars, primary=bool(s['primary']), included_services=included)
        building.discard(i)
        return objs['svc'][i]

    for i in range(n):
        make(i)
    registered: set = set()
    forward = False

    def model_register(i):
        nonlocal forward
        for j in services[i]['includes']:
            j %= n
            if j != i and j not in registered:
                forward = True
                model_register(j)
        registered.add(i)

    for i in range(n):
        if i in registered:
            continue
        device.add_service(objs['svc'][i])
        model_register(i)
    return objs, forward


def parse_layout(attributes):
    """The tree a perfect client would see, from attribute types and declaration bytes only."""
    L: dict = {'attrs': [], 'services': [], 'problems': []}
    cur = None
    cur_char = None
    for index, a in enumerate(attributes):
        h = index + 1
        if a.handle != h:
            L['problems'].append(f'attribute #{index} has handle 0x{a.handle:04X}, expected 0x{h:04X}')
        t = u128(bytes(a.type))
        L['attrs'].append((h, t, a))
        if t in (T_PRIMARY, T_SECONDARY):
            cur = {'handle': h, 'end': h, 'primary': t == T_PRIMARY, 'uuid': bytes(a.value), 'obj': a, 'includes': [], 'chars': []}
            L['services'].append(cur)
            cur_char = None
            continue
        if cur is None:
            L['problems'].append(f'attribute 0x{h:04X} precedes every service declaration')
            continue
        cur['end'] = h
        if t == T_INCLUDE:
            cur['includes'].append({'handle': h, 'value': bytes(a.value), 'obj': a})
            if cur_char is not None:
                L['problems'].append(f'include declaration 0x{h:04X} after a characteristic of the same service')
        elif t == T_CHARACTERISTIC:
            v = bytes(a.value)
            props, vh = struct.unpack_from('<BH', v)
            cur_char = {'decl': h, 'props': props, 'vh': vh, 'uuid': v[3:], 'end': h, 'descs': [], 'value_obj': None, 'service': cur}
            cur['chars'].append(cur_char)
        elif cur_char is None:
            L['problems'].append(f'attribute 0x{h:04X} is neither a declaration nor inside a characteristic')
        else:
            cur_char['end'] = h
            if h == cur_char['vh']:
                cur_char['value_obj'] = a
            else:
                cur_char['descs'].append((h, t, a))
    return L


def check_db_against_description(case, objs, L):
    """The database the server exposes is the one it was given (grouping, order, include ranges)."""
    problems = []
    services = case['services']
    n = len(services)
    by_obj = {id(s['obj']): s for s in L['services']}
    for i, sd in enumerate(services):
        ls = by_obj.get(id(objs['svc'][i]))
        if ls is None:
            problems.append(f'service #{i} ({sd["uuid"]}) is not in the attribute list')
            continue
        if ls['primary'] != bool(sd['primary']) or u128(ls['uuid']) != u128(uuid_le(sd['uuid'])):
            problems.append(f'service #{i}: declaration says primary={ls["primary"]} uuid={hx(ls["uuid"])}')
        want_inc = []
        for j in sd['includes']:
            j %= n
            if j == i:
                continue
            t = by_obj.get(id(objs['svc'][j]))
            want_inc.append((t['handle'], t['end']) if t else None)
        got_inc = [struct.unpack_from('<HH', x['value']) if len(x['value']) >= 4 else None for x in ls['includes']]
        if want_inc != got_inc:
            problems.append(
                f'service #{i} (0x{ls["handle"]:04X}-0x{ls["end"]:04X}): include declarations reference {got_inc}, '
                f'the included services occupy {want_inc}'
            )
        want_chars = []
        for ci, c in enumerate(sd['chars']):
            dtypes = [u128(uuid_le(d['uuid'])) for d in c['descs']]
            if c['props'] & 0x30:
                dtypes.append(T_CCCD)
            want_chars.append((id(objs['chr'][(i, ci)]), c['props'] & 0xFF, u128(uuid_le(c['uuid'])), dtypes))
        got_chars = [(id(c['value_obj']), c['props'], u128(c['uuid']), [t for _h, t, _a in c['descs']]) for c in ls['chars']]
        if want_chars != got_chars:
            problems.append(
                f'service #{i} (0x{ls["handle"]:04X}-0x{ls["end"]:04X}) groups {len(got_chars)} characteristic(s) '
                f'{[(c["decl"], hx(c["uuid"])) for c in ls["chars"]]}, it was given {len(want_chars)}'
            )
    return problems + list(L['problems'])


# ---------------------------------------------------------------------------
# Harness A: one case
# ---------------------------------------------------------------------------
class _Abort(Exception):
    pass


def run_db_case(ctx, case) -> None:
    loop = vloop.new_loop()
    loop.max_iterations = 6_000_000
    S: dict = {'phase': 'setup', 'labels': set(), 'nontrivial': False, 'failed': False}
    plain = _plain(case)

    def fail(sig, what):
        S['failed'] = True
        ctx.fail(sig, what, plain)

    try:
        outcome = 'done'
        try:
            loop.complete(_drive_db(loop, case, S, fail), horizon=HORIZON_A)
        except vloop.Stalled:
            outcome = 'stalled'
        except vloop.HorizonExceeded:
            outcome = 'horizon'
        except vloop.BudgetExceeded:
            outcome = 'budget'
        except _Abort:
            pass
        if outcome != 'done':
            if S['phase'] == 'setup':
                raise HarnessError(f'C12 harness A set-up did not complete: {outcome}')
            fail(f'hang/{S["phase"].split(":")[0]}', f'{S["phase"]} neither returned nor raised ({outcome} on the virtual loop)')
        ctx.case(plain, S['nontrivial'] and not S.get('db_inconsistent'), S['labels'],
                 sample={'server_mtu': case['server_mtu'], 'clients': case['clients'],
                         'services': [(s['uuid'], s['primary'], s['includes'], [(c['uuid'], c['props'], c['value'][0], len(c['descs'])) for c in s['chars']])
                                      for s in case['services']][:4],
                         'ops': case['ops'][:6]})
    finally:
        loop.shutdown()


def _plain(case):
    d = {k: case[k] for k in ('kind', 'defaults', 'server_mtu', 'eatt_server_mtu', 'clients', 'services', 'ops')}
    d['delays'] = list(case.get('delays') or [])
    return d


async def _drive_db(loop, case, S, fail):
    labels = S['labels']
    nclients = len(case['clients'])
    any_eatt = any(c['eatt'] for c in case['clients']) or any(op and op[0] == 'open_eatt' for op in case['ops'])
    config = DeviceConfiguration()
    config.gap_service_enabled = bool(case['defaults'])
    config.gatt_service_enabled = bool(case['defaults'])
    delays = [int(x) for x in (case.get('delays') or [])]
    if any(delays):
        labels.add('hci_delays')
    w = world.World(1 + nclients, delays=delays or None, device_kwargs={'config': config})
    srv = w[0].device
    server = srv.gatt_server
    server.max_mtu = int(case['server_mtu'])
    objs, forward = build_db(srv, case)
    if forward:
        labels.add('include_registered_through_includer')
    if any(s['includes'] for s in case['services']):
        labels.add('included_service')
    if any(not s['primary'] for s in case['services']):
        labels.add('secondary_service')
    if case['defaults']:
        labels.add('default_services_in_front')
    if any_eatt:
        server.register_eatt(l2cap.LeCreditBasedChannelSpec(psm=att.EATT_PSM, mtu=int(case['eatt_server_mtu'])))
    await w.power_on()

    # ---- the database as exposed: own walk, then against the description
    L = parse_layout(server.attributes)
    problems = check_db_against_description(case, objs, L)
    if problems:
        S['db_inconsistent'] = True
        labels.add('db_inconsistent')
        fail('server/db_grouping', 'the attribute list does not group the services as given: ' + '; '.join(problems[:3]))
        raise _Abort()
    mine = {id(o) for o in objs['chr'].values()}
    my_chars = [c for s in L['services'] for c in s['chars'] if id(c['value_obj']) in mine]
    sub_chars = [c for c in my_chars if c['props'] & 0x30]

    # ---- connections and bearers
    sniffer = Sniffer(w[0].tap)
    bearers: list = []
    for k, cd in enumerate(case['clients']):
        conn_c, conn_p = await w.connect_le(1 + k, 0)
        client = conn_c.gatt_client
        mtu = 23
        if cd['mtu'] is not None:
            S['phase'] = 'request_mtu'
            got = await client.request_mtu(int(cd['mtu']))
            mtu = min(int(cd['mtu']), int(case['server_mtu']))
            if got != mtu or conn_p.att_mtu != mtu or conn_c.att_mtu != mtu:
                fail('mtu/exchange', f'client asked {cd["mtu"]}, server max {case["server_mtu"]}: request_mtu returned {got}, '
                                     f'server side uses {conn_p.att_mtu}, client side {conn_c.att_mtu}')
                raise _Abort()
            S['phase'] = 'setup'
        bearers.append({'k': k, 'j': 0, 'client': client, 'srv': conn_p, 'mtu': mtu, 'enh': False, 'conn_p': conn_p, 'conn_c': conn_c,
                        'h2c': (conn_p.handle, att.ATT_CID), 'c2h': (conn_p.handle, att.ATT_CID)})
        for j, emtu in enumerate(cd['eatt']):
            S['phase'] = 'connect_eatt'
            bearers.append(await _open_eatt(srv, case, conn_c, conn_p, k, j + 1, emtu))
            labels.add('eatt_bearer')
            S['phase'] = 'setup'
    labels.add(f'clients:{nclients}')
    if len(bearers) >= 2:
        labels.add('several_bearers')
    S['bearers'] = bearers
    S['world'] = w
    S['srv_device'] = srv
    S['eatt_registered'] = any_eatt

    # ---- structure
    for bi, b in enumerate(bearers):
        ok = await _discover_and_compare(case, S, fail, sniffer, L, b, full=not b['enh'], classify=(bi == 0))
        if not ok:
            raise _Abort()

    # ---- values: everything readable, on client 0
    b0 = bearers[0]
    for h, t, a in L['attrs']:
        if not (int(a.permissions) & 1):
            continue
        if isinstance(a.value, (bytes, bytearray)):
            expected = bytes(a.value)
        elif t == T_CCCD:
            expected = b'\x00\x00'
        else:
            continue
        if not await _read_and_compare(S, fail, b0, h, expected, 'attribute'):
            raise _Abort()
        _length_labels(labels, len(expected), b0['mtu'])
        if len(expected) > b0['mtu'] - 1:
            S['nontrivial'] = True

    # ---- and the generated characteristic values on every enhanced bearer
    for b in bearers:
        if not b['enh']:
            continue
        for lc in my_chars:
            if lc['vh'] not in b['chars']:
                continue
            expected = bytes(lc['value_obj'].value)
            if not await _read_and_compare(S, fail, b, lc['vh'], expected, 'characteristic value'):
                raise _Abort()
            labels.add('read_on_eatt')
            if len(expected) > b['mtu'] - 1:
                labels.add('long_read_on_eatt')
                S['nontrivial'] = True

    # ---- operations
    await _run_ops(loop, case, S, fail, sniffer, server, L, my_chars, sub_chars, bearers)


async def _open_eatt(srv, case, conn_c, conn_p, k, j, emtu) -> dict:
    """One more enhanced bearer on an existing connection; returns its bearer record."""
    eclient = await gatt_client.Client.connect_eatt(conn_c, l2cap.LeCreditBasedChannelSpec(psm=att.EATT_PSM, mtu=int(emtu)))
    ch = eclient.bearer
    sch = [x for x in srv.l2cap_channel_manager.le_coc_channels.get(conn_p.handle, {}).values()
           if x.source_cid == ch.destination_cid]
    if len(sch) != 1:
        raise HarnessError('C12: cannot identify the server side of an EATT bearer')
    return {'k': k, 'j': j, 'client': eclient, 'srv': sch[0], 'mtu': min(int(emtu), int(case['eatt_server_mtu'])),
            'enh': True, 'conn_p': conn_p, 'conn_c': conn_c, 'h2c': (conn_p.handle, ch.source_cid), 'c2h': (conn_p.handle, ch.destination_cid)}


def _length_labels(labels, n, mtu):
    if n == 0:
        labels.add('value_len:0')
    if n == 512:
        labels.add('value_len:512')
    if n > mtu - 1:
        labels.add('long_read')
        if n % (mtu - 1) == 0:
            labels.add('value_len:k*(mtu-1)')
        elif n % (mtu - 1) in (1, mtu - 2):
            labels.add('value_len:k*(mtu-1)+-1')
    if n == mtu - 1:
        labels.add('value_len:mtu-1')
    if n in (mtu - 2, mtu):
        labels.add('value_len:mtu-1+-1')


async def _call(S, fail, proc, coro, what=''):
    """Runs one client procedure against the well-behaved server; a raise is a violation."""
    S['phase'] = f'{proc}:{what}'
    try:
        return True, await coro
    except asyncio.CancelledError:
        raise
    except Exception as e:  # noqa: BLE001 - judged against the property
        fail(f'{proc}/raises/{type(e).__name__}', f'{proc}({what}) raised {type(e).__name__}: {str(e)[:120]}')
        return False, None


def _first_diff(got, want):
    for i, (g, x) in enumerate(zip(got, want)):
        if g != x:
            return f'entry {i}: got {_show(g)}, expected {_show(x)}'
    if len(got) != len(want):
        longer = got if len(got) > len(want) else want
        return f'{len(got)} entries, expected {len(want)} (first extra/missing: {_show(longer[min(len(got), len(want))])})'
    return ''


def _show(x):
    if isinstance(x, (bytes, bytearray)):
        return hx(x)
    if isinstance(x, (list, tuple)):
        return '(' + ', '.join(_show(y) for y in x) + ')'
    if isinstance(x, int):
        return f'0x{x:X}'
    return repr(x)


def _pu(u) -> bytes:
    return u128(bytes(u))


async def _discover_and_compare(case, S, fail, sniffer, L, b, full, classify) -> bool:
    labels = S['labels']
    client = b['client']
    where = f'client {b["k"]} bearer {b["j"]} ATT_MTU {b["mtu"]}'
    by_handle = {s['handle']: s for s in L['services']}
    by_obj = {id(s['obj']): s for s in L['services']}
    services = case['services']
    n = len(services)
    include_uuid = {}  # layout service handle -> 128-bit uuid
    for s in L['services']:
        include_uuid[s['handle']] = u128(s['uuid'])

    def responses_since(mark, opcode):
        sniffer.pump()
        return sum(1 for d, hd, cid, p in sniffer.att[mark:] if d == world.H2C and (hd, cid) == b['h2c'] and p and p[0] == opcode)

    # discover_services: primary services only, in handle order
    mark = sniffer.pump()
    ok, svcs = await _call(S, fail, 'discover_services', client.discover_services(), where)
    if not ok:
        return False
    want = [(s['handle'], s['end'], u128(s['uuid'])) for s in L['services'] if s['primary']]
    got = [(p.handle, p.end_group_handle, _pu(p.uuid)) for p in svcs]
    if got != want:
        fail('discover_services/mismatch', f'{where}: {_first_diff(got, want)}')
        return False
    if classify:
        if responses_since(mark, 0x11) >= 2:
            labels.add('multi_pdu:services')
            S['nontrivial'] = True
        if len({len(s['uuid']) for s in L['services'] if s['primary']}) >= 2:
            labels.add('mixed_uuid_widths:services')
            S['nontrivial'] = True

    b['chars'] = {}
    queue = list(svcs)
    seen: set = set()
    visited: list = []  # (service proxy, layout service, included proxies, characteristic proxies, {value handle: descriptor proxies})
    while queue:
        p = queue.pop(0)
        if p.handle in seen:
            continue
        seen.add(p.handle)
        ls = by_handle.get(p.handle)
        if ls is None or ls['end'] != p.end_group_handle:
            fail('discover_included_services/mismatch', f'{where}: an included service proxy covers 0x{p.handle:04X}-0x{p.end_group_handle:04X}, '
                                                        'which is not a service of the database')
            return False
        if True:
            mark = sniffer.pump()
            ok, inc = await _call(S, fail, 'discover_included_services', client.discover_included_services(p), where)
            if not ok:
                return False
            want_inc = []
            for x in ls['includes']:
                sh, eh = struct.unpack_from('<HH', x['value'])
                want_inc.append((sh, eh, include_uuid.get(sh, b'?')))
            got_inc = [(x.handle, x.end_group_handle, _pu(x.uuid)) for x in inc]
            if got_inc != want_inc:
                ranges_ok = [g[:2] for g in got_inc] == [x[:2] for x in want_inc]
                wide = any(len(by_handle[x[0]]['uuid']) != 2 for x in want_inc if x[0] in by_handle)
                sig = 'discover_included_services/uuid_not_16_bit' if ranges_ok and wide else 'discover_included_services/mismatch'
                fail(sig, f'{where}: service 0x{p.handle:04X}: {_first_diff(got_inc, want_inc)}')
                return False
            if classify and responses_since(mark, 0x09) >= 2:
                labels.add('multi_pdu:includes')
                S['nontrivial'] = True
            queue.extend(inc)
        mark = sniffer.pump()
        ok, chars = await _call(S, fail, 'discover_characteristics', client.discover_characteristics([], p), where)
        if not ok:
            return False
        want_c = [(c['vh'], c['end'], u128(c['uuid']), c['props']) for c in ls['chars']]
        got_c = [(c.handle, c.end_group_handle, _pu(c.uuid), int(c.properties)) for c in chars]
        if got_c != want_c:
            fail('discover_characteristics/mismatch', f'{where}: service 0x{p.handle:04X}-0x{p.end_group_handle:04X}: {_first_diff(got_c, want_c)}')
            return False
        if classify:
            if responses_since(mark, 0x09) >= 2:
                labels.add('multi_pdu:characteristics')
                S['nontrivial'] = True
            if len({len(c['uuid']) for c in ls['chars']}) >= 2:
                labels.add('mixed_uuid_widths:characteristics')
                S['nontrivial'] = True
        visited.append((p, ls, inc, chars, {}))
        for cp, lc in zip(chars, ls['chars']):
            b['chars'][lc['vh']] = cp
            if not full:
                continue
            mark = sniffer.pump()
            ok, descs = await _call(S, fail, 'discover_descriptors', client.discover_descriptors(cp), where)
            if not ok:
                return False
            want_d = [(h, t) for h, t, _a in lc['descs']]
            got_d = [(d.handle, _pu(d.type)) for d in descs]
            if got_d != want_d:
                fail('discover_descriptors/mismatch', f'{where}: characteristic 0x{cp.handle:04X}-0x{cp.end_group_handle:04X}: {_first_diff(got_d, want_d)}')
                return False
            visited[-1][4][lc['vh']] = descs
            if classify:
                if responses_since(mark, 0x05) >= 2:
                    labels.add('multi_pdu:descriptors')
                    S['nontrivial'] = True
                if len({2 if len(bytes(a.type)) == 2 else 16 for _h, _t, a in lc['descs']}) >= 2:
                    labels.add('mixed_uuid_widths:descriptors')
                    S['nontrivial'] = True
    # the tree the client keeps (Client.services, ServiceProxy.characteristics / included_services,
    # CharacteristicProxy.descriptors) is the tree its procedures returned: primary services once each, in order
    primaries = [(s['handle'], s['end'], u128(s['uuid'])) for s in L['services'] if s['primary']]

    def kept_services():
        return [(x.handle, x.end_group_handle, _pu(x.uuid)) for x in client.services]

    if kept_services() != primaries:
        fail('client_tree/services', f'{where}: Client.services after discovery: {_first_diff(kept_services(), primaries)}')
        return False
    for p, ls, inc, chars, descs_of in visited:
        if [c.handle for c in p.characteristics] != [c.handle for c in chars] or any(x is not y for x, y in zip(p.characteristics, chars)):
            fail('client_tree/characteristics', f'{where}: ServiceProxy 0x{p.handle:04X}.characteristics is not the list discover_characteristics returned')
            return False
        if [x.handle for x in getattr(p, 'included_services', [])] != [x.handle for x in inc]:
            fail('client_tree/included_services', f'{where}: ServiceProxy 0x{p.handle:04X}.included_services is not the list discover_included_services returned')
            return False
        for cp in chars:
            if cp.handle in descs_of and [d.handle for d in cp.descriptors] != [d.handle for d in descs_of[cp.handle]]:
                fail('client_tree/descriptors', f'{where}: CharacteristicProxy 0x{cp.handle:04X}.descriptors is not the list discover_descriptors returned')
                return False
    if not full:
        return True

    if classify:
        if not await _filtered_discovery(S, fail, L, b, where, visited, primaries, kept_services):
            return False

    # discover_service(uuid): every distinct primary UUID of the description, one absent UUID
    asked = []
    for i, sd in enumerate(services):
        if sd['uuid'] not in asked and sd['primary']:
            asked.append(sd['uuid'])
    asked = asked[:4] + ['A0FF']
    for us in asked:
        key = uuid_le(us) if len(us) != 8 else u128(uuid_le(us))  # bytes of the declaration value (32-bit travels as 128-bit)
        ok, found = await _call(S, fail, 'discover_service', client.discover_service(UUID(us)), f'{where} uuid {us}')
        if not ok:
            return False
        want = [(s['handle'], s['end'], u128(key)) for s in L['services'] if s['primary'] and s['uuid'] == key]
        got = [(p.handle, p.end_group_handle, _pu(p.uuid)) for p in found]
        if got != want:
            fail('discover_service/mismatch', f'{where}: uuid {us}: {_first_diff(got, want)}')
            return False
        if len(want) >= 2:
            labels.add('discover_service:several_matches')

    # discover_attributes
    mark = sniffer.pump()
    ok, attrs = await _call(S, fail, 'discover_attributes', client.discover_attributes(), where)
    if not ok:
        return False
    want = [(h, t) for h, t, _a in L['attrs']]
    got = [(a.handle, _pu(a.type)) for a in attrs]
    if got != want:
        fail('discover_attributes/mismatch', f'{where}: {_first_diff(got, want)}')
        return False
    if classify and responses_since(mark, 0x05) >= 3:
        labels.add('multi_pdu:attributes')
    return True


async def _filtered_discovery(S, fail, L, b, where, visited, primaries, kept_services) -> bool:
    """The forms of the discovery procedures that take a filter or a range: discover_services(uuids),
    discover_characteristics(uuids, service) (GATT 4.6.2: same handle ranges as the unfiltered procedure),
    discover_characteristics([], None) (every service the client knows), discover_descriptors(start, end)."""
    labels = S['labels']
    client = b['client']
    prim = [s for s in L['services'] if s['primary']]
    if prim:
        target = u128(prim[-1]['uuid'])
        ok, found = await _call(S, fail, 'discover_services', client.discover_services([UUID('A0FE'), UUID.from_bytes(prim[-1]['uuid'])]), f'{where} filter')
        if not ok:
            return False
        want = [x for x in primaries if x[2] == target]
        got = [(p.handle, p.end_group_handle, _pu(p.uuid)) for p in found]
        if got != want:
            fail('discover_services/filtered/mismatch', f'{where}: uuids=[A0FE, {hx(prim[-1]["uuid"])}]: {_first_diff(got, want)}')
            return False
        labels.add('filtered:services')
        if len(want) < len(primaries):
            labels.add('filtered:services:some_excluded')
        if kept_services() != primaries:
            fail('client_tree/services', f'{where}: Client.services after a second discover_services: {_first_diff(kept_services(), primaries)}')
            return False
        got = [(p.handle, p.end_group_handle, _pu(p.uuid)) for p in client.get_services_by_uuid(UUID.from_bytes(prim[-1]['uuid']))]
        if got != want:
            fail('client_tree/get_services_by_uuid', f'{where}: {_first_diff(got, want)}')
            return False
    # characteristics by UUID inside one service: the service with the most characteristics, the UUID of its
    # second-to-last characteristic (so that characteristics that do not match follow one that does)
    cand = sorted((v for v in visited if v[1]['chars']), key=lambda v: -len(v[1]['chars']))
    if cand:
        p, ls = cand[0][0], cand[0][1]
        pick = ls['chars'][max(0, len(ls['chars']) - 2)]
        target = u128(pick['uuid'])
        ok, found = await _call(S, fail, 'discover_characteristics', client.discover_characteristics([UUID.from_bytes(pick['uuid'])], p), f'{where} filter')
        if not ok:
            return False
        want = [(c['vh'], c['end'], u128(c['uuid']), c['props']) for c in ls['chars'] if u128(c['uuid']) == target]
        got = [(c.handle, c.end_group_handle, _pu(c.uuid), int(c.properties)) for c in found]
        if got != want:
            fail('discover_characteristics/filtered/mismatch', f'{where}: service 0x{p.handle:04X}-0x{p.end_group_handle:04X}, uuid {hx(pick["uuid"])}: {_first_diff(got, want)}')
            return False
        labels.add('filtered:characteristics')
        flags = [u128(c['uuid']) == target for c in ls['chars']]
        if any(flags[i] and not flags[i + 1] for i in range(len(flags) - 1)):
            labels.add('filtered:characteristics:followed_by_other')
    # all characteristics of every service the client knows
    if prim:
        ok, found = await _call(S, fail, 'discover_characteristics', client.discover_characteristics([], None), f'{where} all services')
        if not ok:
            return False
        want = [(c['vh'], c['end'], u128(c['uuid']), c['props']) for s in prim for c in s['chars']]
        got = [(c.handle, c.end_group_handle, _pu(c.uuid), int(c.properties)) for c in found]
        if got != want:
            fail('discover_characteristics/all_services/mismatch', f'{where}: {_first_diff(got, want)}')
            return False
        labels.add('characteristics_of_all_services')
        if cand and cand[0][1]['primary']:
            pick = cand[0][1]['chars'][0]
            want = [c['vh'] for s in prim for c in s['chars'] if u128(c['uuid']) == u128(pick['uuid'])]
            got = [c.handle for c in client.get_characteristics_by_uuid(UUID.from_bytes(pick['uuid']))]
            if got != want:
                fail('client_tree/get_characteristics_by_uuid', f'{where}: uuid {hx(pick["uuid"])}: handles {got}, expected {want}')
                return False
    # descriptors by handle range
    for _p, ls, _inc, _chars, _d in visited:
        with_descs = [c for c in ls['chars'] if c['descs']]
        if not with_descs:
            continue
        lc = with_descs[-1]
        ok, found = await _call(S, fail, 'discover_descriptors', client.discover_descriptors(None, lc['vh'] + 1, lc['end']), f'{where} range')
        if not ok:
            return False
        want = [(h, t) for h, t, _a in lc['descs']]
        got = [(d.handle, _pu(d.type)) for d in found]
        if got != want:
            fail('discover_descriptors/range/mismatch', f'{where}: 0x{lc["vh"] + 1:04X}-0x{lc["end"]:04X}: {_first_diff(got, want)}')
            return False
        labels.add('descriptors_by_range')
        break
    return True


async def _read_and_compare(S, fail, b, handle, expected, what, sig=None) -> bool:
    kind = 'eatt' if b['enh'] else 'att'
    S['phase'] = f'read_value:0x{handle:04X}'
    try:
        got = await b['client'].read_value(handle)
    except asyncio.CancelledError:
        raise
    except Exception as e:  # noqa: BLE001
        fail(f'read_value/raises/{type(e).__name__}', f'read of {what} 0x{handle:04X} ({len(expected)} bytes, {kind} bearer, ATT_MTU {b["mtu"]}) '
                                                      f'raised {type(e).__name__}: {str(e)[:100]}')
        return False
    if bytes(got) != expected:
        fail(sig or f'read_value/mismatch/{kind}', f'read of {what} 0x{handle:04X} on client {b["k"]} {kind} bearer, ATT_MTU {b["mtu"]}: '
                                            f'server value has {len(expected)} bytes ({hx(expected)}), read_value returned {len(got)} bytes ({hx(got)})')
        return False
    return True


async def _run_ops(loop, case, S, fail, sniffer, server, L, my_chars, sub_chars, bearers):
    labels = S['labels']
    subs: dict = {}  # (bearer index, value handle) -> 'n' | 'i': what the bearer's CCCD at the server says (model)
    regs: dict = {}  # (bearer index, value handle) -> {slot: kinds it subscribed with}: the client's subscribers (model)
    shaky: set = set()  # keys whose callback-less subscription ('p') may have been dropped together with the last callback
    fired: dict = {}  # (bearer index, value handle, slot) -> list of values; slot 'u' = the proxy's 'update' event
    callbacks: dict = {}

    def cb_for(bi, vh, slot=0):
        key = (bi, vh, slot)
        if key not in callbacks:
            fired[key] = []
            callbacks[key] = (lambda value, sink=fired[key]: sink.append(value))
        return callbacks[key]

    def listen(bi, vh, proxy):
        key = (bi, vh, 'u')
        if key not in fired:
            fired[key] = []
            proxy.on(proxy.EVENT_UPDATE, fired[key].append)

    def forget(bi):
        for key in [key for key in subs if key[0] == bi]:
            del subs[key]
        for key in [key for key in regs if key[0] == bi]:
            del regs[key]

    expanded = []
    for op in case['ops']:
        op = list(op)
        if op[0] == 'sub_all':  # every bearer subscribes to the same characteristic
            expanded.extend(['sub', bi, op[1], op[2]] for bi in range(len(bearers)))
        else:
            expanded.append(op)
    def alive(i):
        live = [bi for bi, x in enumerate(bearers) if not x.get('dead')]
        return live[i % len(live)]

    pending_read = None
    for op in expanded:
        name = op[0]
        with_read, pending_read = pending_read, None
        if name == 'with_read':
            pending_read = op
            continue
        if name == 'reconnect':
            # the client drops its connection and comes back: every bearer of the old connection is gone (with its
            # subscriptions); the new connection starts on the fixed bearer at the default ATT_MTU, subscribed to nothing
            k = op[1] % len(case['clients'])
            old = [bi for bi, x in enumerate(bearers) if x['k'] == k and not x.get('dead')]
            first = bearers[old[0]]
            old_handle = first['conn_p'].handle
            S['phase'] = 'reconnect'
            await first['conn_c'].disconnect()
            await asyncio.sleep(QUIET)
            for bi in old:
                bearers[bi]['dead'] = True
                forget(bi)
            conn_c, conn_p = await S['world'].connect_le(1 + k, 0)
            new_mtu = 23
            if len(op) > 2 and op[2] is not None:
                # the new connection negotiates its own ATT_MTU (nothing of the closed connection's may be left)
                S['phase'] = 'request_mtu'
                got = await conn_c.gatt_client.request_mtu(int(op[2]))
                new_mtu = min(int(op[2]), int(case['server_mtu']))
                if got != new_mtu or conn_p.att_mtu != new_mtu or conn_c.att_mtu != new_mtu:
                    fail('mtu/exchange', f'after a reconnection the client asked {op[2]}, server max {case["server_mtu"]}: request_mtu returned {got}, '
                                         f'server side uses {conn_p.att_mtu}, client side {conn_c.att_mtu}')
                    raise _Abort()
                labels.add('reconnect_new_mtu')
                S['phase'] = 'reconnect'
            nb = {'k': k, 'j': 0, 'client': conn_c.gatt_client, 'srv': conn_p, 'mtu': new_mtu, 'enh': False, 'conn_p': conn_p, 'conn_c': conn_c,
                  'h2c': (conn_p.handle, att.ATT_CID), 'c2h': (conn_p.handle, att.ATT_CID)}
            bearers.append(nb)
            labels.add('reconnect')
            if conn_p.handle == old_handle:
                labels.add('reconnect_same_handle')
            if old and any(bearers[bi]['enh'] for bi in old):
                labels.add('reconnect_after_eatt')
            if not await _discover_and_compare(case, S, fail, sniffer, L, nb, full=True, classify=False):
                raise _Abort()
            S['phase'] = 'ops'
            continue
        if name == 'close_eatt':
            # one enhanced bearer is closed (by the client or by the server); the connection and its other bearers stay
            live = [bi for bi, x in enumerate(bearers) if x['enh'] and not x.get('dead')]
            if not live:
                continue
            bi = live[op[1] % len(live)]
            b = bearers[bi]
            by_server = bool(op[2]) if len(op) > 2 else False
            S['phase'] = 'close_eatt'
            await (b['srv'] if by_server else b['client'].bearer).disconnect()
            await asyncio.sleep(QUIET)
            b['dead'] = True
            forget(bi)
            labels.add('eatt_closed')
            labels.add('eatt_closed:by_server' if by_server else 'eatt_closed:by_client')
            if any((key[0] != bi and bearers[key[0]]['k'] == b['k']) for key in subs):
                labels.add('eatt_closed:sibling_subscribed')
            S['phase'] = 'ops'
            continue
        if name == 'open_eatt':
            if not S.get('eatt_registered'):
                continue
            k = op[1] % len(case['clients'])
            fixed = [x for x in bearers if x['k'] == k and not x['enh'] and not x.get('dead')]
            if not fixed or sum(1 for x in bearers if x['k'] == k and x['enh'] and not x.get('dead')) >= 3:
                continue
            S['phase'] = 'connect_eatt'
            nb = await _open_eatt(S['srv_device'], case, fixed[-1]['conn_c'], fixed[-1]['conn_p'], k,
                                  1 + sum(1 for x in bearers if x['k'] == k and x['enh']), op[2])
            labels.add('eatt_opened_later')
            if any(x.get('dead') and x['enh'] and x['h2c'] == nb['h2c'] and x['c2h'] == nb['c2h'] for x in bearers):
                labels.add('eatt_cid_reused')
            bearers.append(nb)
            if not await _discover_and_compare(case, S, fail, sniffer, L, nb, full=False, classify=False):
                raise _Abort()
            S['phase'] = 'ops'
            continue
        if name == 'reads_together':
            # several reads started at the same moment (same bearer: the client has to queue them; different bearers:
            # the server sees the long reads interleaved)
            if not my_chars:
                continue
            items = []
            for entry in list(op[1])[:4]:
                bi = alive(int(entry[0]))
                pool_ = my_chars
                if len(entry) > 2 and entry[2]:
                    pool_ = [c for c in my_chars if len(bytes(c['value_obj'].value)) > bearers[bi]['mtu'] - 1] or my_chars
                lc = pool_[int(entry[1]) % len(pool_)]
                items.append((bi, lc, bytes(lc['value_obj'].value)))
            if len(items) < 2:
                continue
            S['phase'] = 'read_value:concurrent'
            results = await asyncio.gather(*[bearers[bi]['client'].read_value(lc['vh']) for bi, lc, _e in items], return_exceptions=True)
            bad = False
            for (bi, lc, expected), got in zip(items, results):
                b = bearers[bi]
                kind = 'eatt' if b['enh'] else 'att'
                tag = f'0x{lc["vh"]:04X} ({len(expected)} bytes) on client {b["k"]} bearer {b["j"]} (ATT_MTU {b["mtu"]}), one of {len(items)} reads started together'
                if isinstance(got, BaseException):
                    if not isinstance(got, Exception) or isinstance(got, (_Abort, HarnessError)):
                        raise got
                    fail(f'read_value/raises/{type(got).__name__}/concurrent', f'read of {tag} raised {type(got).__name__}: {str(got)[:100]}')
                    bad = True
                elif bytes(got) != expected:
                    fail(f'read_value/mismatch/{kind}/concurrent', f'read of {tag}: read_value returned {len(got)} bytes ({hx(got)}), the server value is {hx(expected)}')
                    bad = True
            if bad:
                raise _Abort()
            labels.add('concurrent_reads')
            if len({bi for bi, _l, _e in items}) < len(items):
                labels.add('concurrent_reads:same_bearer')
            if len({bi for bi, _l, e in items if len(e) > bearers[bi]['mtu'] - 1}) >= 2:
                labels.add('concurrent_reads:long_on_two_bearers')
                S['nontrivial'] = True
            S['phase'] = 'ops'
            continue
        if name in ('sub', 'unsub', 'subx', 'unsubx'):
            if not sub_chars:
                continue
            bi = alive(op[1])
            b = bearers[bi]
            reach = [c for c in sub_chars if c['vh'] in b['chars']]
            if not reach:
                continue
            lc = reach[op[2] % len(reach)]
            proxy = b['chars'][lc['vh']]
            key = (bi, lc['vh'])
            slot = op[3] if name in ('subx', 'unsubx') else 0
            cccd_now = {'n': b'\x01\x00', 'i': b'\x02\x00', None: b'\x00\x00'}
            csig = None
            if name in ('sub', 'subx'):
                prefer = bool(op[4] if name == 'subx' else op[3])
                both = (lc['props'] & 0x30) == 0x30
                kind = ('n' if prefer else 'i') if both else ('n' if lc['props'] & 0x10 else 'i')
                listen(bi, lc['vh'], proxy)
                subscriber = None if slot == 'p' else cb_for(bi, lc['vh'], slot)
                ok, _ = await _call(S, fail, 'subscribe', proxy.subscribe(subscriber, prefer_notify=prefer), f'0x{lc["vh"]:04X}')
                if not ok:
                    raise _Abort()
                r = regs.setdefault(key, {})
                if slot == 'p' and key in shaky:
                    r.pop('p', None)
                    shaky.discard(key)
                r.setdefault(slot, set()).add(kind)
                subs[key] = kind
                labels.add('subscribe:' + ('notify' if kind == 'n' else 'indicate'))
                if slot == 'p':
                    labels.add('subscribe:without_callback')
                if sum(1 for s_ in r if s_ != 'p') >= 2:
                    labels.add('several_subscribers')
                wants = [cccd_now[kind]]
            else:
                r = regs.get(key, {})
                before_kind = subs.get(key)
                if slot == 'p':
                    # unsubscribe() without a callback: every subscriber of this client for this characteristic goes
                    ok, _ = await _call(S, fail, 'unsubscribe', proxy.unsubscribe(), f'0x{lc["vh"]:04X} (all)')
                    if not ok:
                        raise _Abort()
                    if r:
                        labels.add('unsubscribe')
                        labels.add('unsubscribe:all')
                    regs.pop(key, None)
                    shaky.discard(key)
                    subs.pop(key, None)
                    wants = [cccd_now[None]]
                else:
                    ok, _ = await _call(S, fail, 'unsubscribe', proxy.unsubscribe(cb_for(bi, lc['vh'], slot)), f'0x{lc["vh"]:04X}')
                    if not ok:
                        raise _Abort()
                    if slot in r:
                        del r[slot]
                        labels.add('unsubscribe')
                        if 'p' in r:
                            shaky.add(key)
                        if not r:
                            # the last subscriber is gone: the bearer is not subscribed any more
                            regs.pop(key, None)
                            subs.pop(key, None)
                            wants = [cccd_now[None]]
                        elif before_kind is None:
                            wants = [cccd_now[None]]
                        elif any(before_kind in kinds for s_, kinds in r.items() if s_ != 'p'):
                            # another callback of this client is still subscribed for what the CCCD enables: it stays
                            wants = [cccd_now[before_kind]]
                            csig = 'unsubscribe/cccd_changed_while_subscribers_left'
                            labels.add('unsubscribe:one_of_several')
                        else:
                            # what is left is a callback-less subscription or subscribers of the other kind: either
                            wants = [cccd_now[before_kind], cccd_now[None]]
                            labels.add('unsubscribe:open_outcome')
                    else:
                        # this callback was not subscribed: nothing changes for the others
                        wants = [cccd_now[before_kind]]
                        if r:
                            csig = 'unsubscribe/cccd_changed_by_stranger'
                            labels.add('unsubscribe:not_subscribed')
            # the CCCD as seen by this bearer reflects the subscription
            cccd = [h for h, t, _a in lc['descs'] if t == T_CCCD]
            if cccd:
                if len(wants) == 1:
                    if not await _read_and_compare(S, fail, b, cccd[0], wants[0], 'CCCD', sig=csig):
                        raise _Abort()
                else:
                    ok, got = await _call(S, fail, 'read_value', b['client'].read_value(cccd[0]), f'CCCD 0x{cccd[0]:04X}')
                    if not ok:
                        raise _Abort()
                    if bytes(got) not in wants:
                        fail('read_value/mismatch/' + ('eatt' if b['enh'] else 'att'), f'CCCD 0x{cccd[0]:04X} reads {hx(got)} after an unsubscribe, expected one of {[hx(x) for x in wants]}')
                        raise _Abort()
                    if bytes(got) == cccd_now[None]:
                        subs.pop(key, None)
        elif name == 'write':
            if not my_chars:
                continue
            bi = alive(op[1])
            b = bearers[bi]
            reach = [c for c in my_chars if c['vh'] in b['chars']]
            if not reach:
                continue
            lc = reach[op[2] % len(reach)]
            n = min(int(op[3]), b['mtu'] - 3)
            value = pattern(n, int(op[4]) ^ 0x5A)
            with_response = bool(op[5])
            proxy = b['chars'].get(lc['vh'])
            ok, _ = await _call(S, fail, 'write_value', proxy.write_value(value, with_response=with_response), f'0x{lc["vh"]:04X} {n} bytes')
            if not ok:
                raise _Abort()
            if not with_response:
                await asyncio.sleep(QUIET)
            now = lc['value_obj'].value
            labels.add('write:' + ('request' if with_response else 'command'))
            if n == b['mtu'] - 3:
                labels.add('write_len:mtu-3')
            if not isinstance(now, (bytes, bytearray)) or bytes(now) != value:
                fail('write_value/not_applied/' + ('request' if with_response else 'command'),
                     f'wrote {n} bytes ({hx(value)}) to 0x{lc["vh"]:04X} (ATT_MTU {b["mtu"]}); the server value is now {hx(now) if isinstance(now, (bytes, bytearray)) else now!r}')
                raise _Abort()
        elif name == 'writev':
            # a write of a generated length class to a characteristic value or a user descriptor, then a read-back
            if not my_chars:
                continue
            bi = alive(op[1])
            b = bearers[bi]
            reach = [c for c in my_chars if c['vh'] in b['chars']]
            if not reach:
                continue
            lc = reach[int(op[2]) % len(reach)]
            handle, attribute, what = lc['vh'], lc['value_obj'], 'characteristic value'
            target = b['chars'][lc['vh']]
            if op[3] != 'v':
                user = [(h, a) for h, t, a in lc['descs'] if t != T_CCCD and isinstance(a.value, (bytes, bytearray))]
                if user:
                    handle, attribute = user[int(op[3]) % len(user)]
                    what, target = 'descriptor', handle
                    labels.add('write:descriptor')
            limit = min(b['mtu'] - 3, MAX_VALUE)
            how, d = op[4][0], int(op[4][1])
            n = max(0, min(d, b['mtu'] - 3) if how == 'len' else limit + d)
            value = pattern(n, int(op[5]) ^ 0x3C)
            with_response = bool(op[6])
            wkind = 'request' if with_response else 'command'
            rb = b if len(op) < 8 or op[7] is None else bearers[alive(int(op[7]))]
            tag = f'0x{handle:04X} ({what}) {n} bytes, Write {wkind.capitalize()}, client {b["k"]} bearer {b["j"]} ATT_MTU {b["mtu"]}'
            labels.add('writev')
            if n <= limit:
                ok, _ = await _call(S, fail, 'write_value', b['client'].write_value(target, value, with_response=with_response), tag)
                if not ok:
                    raise _Abort()
                if not with_response:
                    await asyncio.sleep(QUIET)
                now = attribute.value
                if not isinstance(now, (bytes, bytearray)) or bytes(now) != value:
                    fail('write_value/not_applied/' + wkind,
                         f'wrote {tag} ({hx(value)}); the server value is now {f"{len(now)} bytes ({hx(now)})" if isinstance(now, (bytes, bytearray)) else repr(now)}')
                    raise _Abort()
                if not await _read_and_compare(S, fail, rb, handle, value, f'{what} after a write of'):
                    raise _Abort()
                labels.add('write:' + wkind)
                labels.add('write_readback')
                if rb is not b:
                    labels.add('write_readback:other_bearer')
                if n > rb['mtu'] - 1:
                    labels.add('write_readback:long_read')
                if b['enh']:
                    labels.add('write_on_eatt')
                for cls, hit in (('0', n == 0), ('1', n == 1), ('mtu-3', n == b['mtu'] - 3), ('mtu-4', n == b['mtu'] - 4), ('511', n == MAX_VALUE - 1), ('512', n == MAX_VALUE)):
                    if hit:
                        labels.add(f'write_len:{cls}')
                        labels.add(f'write_len:{cls}:{wkind}')
                if n == MAX_VALUE and b['enh']:
                    labels.add('write_len:512:eatt')
                if n in (0, limit, limit - 1):
                    S['nontrivial'] = True
            else:
                # more than ATT_MTU-3 or more than 512 bytes: outside the statement, every outcome of the write is accepted
                # (refused, dropped, applied, truncated); afterwards the bearer still has to read what the server holds
                S['phase'] = f'write_value:{tag}'
                try:
                    await b['client'].write_value(target, value, with_response=with_response)
                except asyncio.CancelledError:
                    raise
                except Exception:  # noqa: BLE001 - accepted
                    labels.add('write_beyond:raised')
                await asyncio.sleep(QUIET)
                now = attribute.value
                labels.add('write_len:beyond')
                labels.add('write_len:beyond:' + ('max' if n > MAX_VALUE else 'mtu-3'))
                if isinstance(now, (bytes, bytearray)):
                    labels.add('write_beyond:applied' if bytes(now) == value else 'write_beyond:not_applied')
                    if len(now) <= MAX_VALUE and not await _read_and_compare(S, fail, rb, handle, bytes(now), f'{what} after an oversized write of'):
                        raise _Abort()
        elif name == 'read_giveup':
            if not my_chars:
                continue
            b = bearers[alive(op[1])]
            first = my_chars[op[2] % len(my_chars)]
            hops, ms, how = int(op[3]), int(op[4]), op[5]
            labels.add('read_giveup')
            labels.add(f'read_giveup:{how}')
            before = len(sniffer.log) if hasattr(sniffer, 'log') else None

            async def abandoned_read():
                if how == 'wait_for':
                    return await asyncio.wait_for(b['client'].read_value(first['vh']), max(ms, 0) / 1000.0 + 1e-9)
                return await b['client'].read_value(first['vh'])

            task = loop.create_task(abandoned_read())
            if how == 'cancel':
                for _ in range(hops):
                    await asyncio.sleep(0)
                if ms:
                    await asyncio.sleep(ms / 1000.0)
                task.cancel()
            try:
                got = await task
                labels.add('read_giveup:answered_first')
                if bytes(got) != bytes(first['value_obj'].value):
                    fail('read_value/mismatch/after_giveup', f'the read that was about to be given up returned {hx(got)}')
                    raise _Abort()
            except (asyncio.CancelledError, asyncio.TimeoutError, TimeoutError):
                labels.add('read_giveup:given_up')
            except _Abort:
                raise
            except Exception as e:  # noqa: BLE001 - the abandoned call may end any way it likes
                labels.add(f'read_giveup:raised:{type(e).__name__}')
            # the same client goes on at once, on the same bearer: every following read returns the exact current value
            for nxt in op[6]:
                lc = my_chars[int(nxt) % len(my_chars)]
                if lc['vh'] != first['vh']:
                    labels.add('read_giveup:then_other_characteristic')
                if not await _read_and_compare(S, fail, b, lc['vh'], bytes(lc['value_obj'].value),
                                               'characteristic value (right after another read was given up)',
                                               sig='read_value/mismatch/after_giveup'):
                    raise _Abort()
            S['nontrivial'] = True
        elif name == 'read':
            if not my_chars:
                continue
            bi = alive(op[1])
            b = bearers[bi]
            lc = my_chars[op[2] % len(my_chars)]
            expected = bytes(lc['value_obj'].value)
            if not await _read_and_compare(S, fail, b, lc['vh'], expected, 'characteristic value'):
                raise _Abort()
            _length_labels(labels, len(expected), b['mtu'])
            if b['enh']:
                labels.add('read_on_eatt')
            if len(expected) > b['mtu'] - 1:
                S['nontrivial'] = True
                if b['enh']:
                    labels.add('long_read_on_eatt')
        else:
            if not sub_chars:
                continue
            # the characteristic index counts back from the most recently subscribed one (if any)
            recent = [c for vh in reversed(list(dict.fromkeys(vh for (_bi, vh) in reversed(list(subs))))) for c in sub_chars if c['vh'] == vh]
            pool = (recent[::-1] + [c for c in sub_chars if c not in recent]) if recent else sub_chars
            if name in ('notify_all', 'indicate_all', 'matching_all'):
                lc = pool[op[1] % len(pool)]
                vlen, seed = op[2], op[3]
                target, force = None, False
            else:
                target = alive(op[1])
                lc = pool[op[2] % len(pool)]
                vlen, seed, force = op[3], op[4], bool(op[5])
            if name.startswith('matching'):
                # the API whose kind matches the latest subscription to this characteristic
                latest = [k for (_bi, vh), k in subs.items() if vh == lc['vh']]
                name = ('indicate' if latest and latest[-1] == 'i' else 'notify') + name[len('matching'):]
            indicate = name.startswith('indicate')
            want_kind = 'i' if indicate else 'n'
            attribute = lc['value_obj']
            if vlen is None:
                value = None
                full_value = bytes(attribute.value)
                labels.add('send_current_value')
            else:
                value = pattern(int(vlen), int(seed) ^ 0xA5)
                full_value = value
            # model: who must get it
            if target is None:
                api = 'indicate_subscribers' if indicate else 'notify_subscribers'
                mode = 'all'
                expected = [bi for bi in range(len(bearers)) if subs.get((bi, lc['vh'])) == want_kind]
                coro = (server.indicate_subscribers if indicate else server.notify_subscribers)(attribute, value)
            else:
                api = 'indicate_subscriber' if indicate else 'notify_subscriber'
                tb = bearers[target]
                if force:
                    mode = 'single'
                    expected = [target]
                elif tb['enh']:
                    mode = 'single'
                    expected = [target] if subs.get((target, lc['vh'])) == want_kind else []
                else:
                    mode = 'connection'
                    expected = [bi for bi, x in enumerate(bearers) if x['k'] == tb['k'] and subs.get((bi, lc['vh'])) == want_kind]
                coro = (server.indicate_subscriber if indicate else server.notify_subscriber)(tb['srv'], attribute, value, force)
            sig = f'send/{api}/{mode}'
            mark = sniffer.pump()
            before = {key: len(v) for key, v in fired.items()}
            read_task = None
            if with_read and my_chars:
                # a read (usually a long one) is in flight on some bearer while the server sends
                rb = bearers[alive(int(with_read[1]))]
                rpool = my_chars
                if len(with_read) > 4 and with_read[4]:
                    rpool = [c for c in my_chars if len(bytes(c['value_obj'].value)) > rb['mtu'] - 1] or my_chars
                rlc = rpool[int(with_read[2]) % len(rpool)]
                rexpected = bytes(rlc['value_obj'].value)
                read_task = loop.create_task(rb['client'].read_value(rlc['vh']))
                for _ in range(int(with_read[3]) if len(with_read) > 3 else 0):
                    await asyncio.sleep(0)
            S['phase'] = f'{api}:0x{lc["vh"]:04X}'
            try:
                await coro
            except asyncio.CancelledError:
                raise
            except Exception as e:  # noqa: BLE001
                if read_task is not None:
                    read_task.cancel()
                fail(f'{sig}/raises/{type(e).__name__}', f'{api}(0x{lc["vh"]:04X}, force={force}) raised {type(e).__name__}: {str(e)[:120]}')
                raise _Abort()
            at_return = sniffer.pump()
            if read_task is not None:
                rkind = 'eatt' if rb['enh'] else 'att'
                rtag = (f'0x{rlc["vh"]:04X} ({len(rexpected)} bytes) on client {rb["k"]} bearer {rb["j"]} (ATT_MTU {rb["mtu"]}) '
                        f'while the server ran {api}(0x{lc["vh"]:04X})')
                S['phase'] = f'read_value:0x{rlc["vh"]:04X} during {api}'
                try:
                    rgot = await read_task
                except asyncio.CancelledError:
                    raise
                except Exception as e:  # noqa: BLE001
                    fail(f'read_value/raises/{type(e).__name__}/during_send', f'read of {rtag} raised {type(e).__name__}: {str(e)[:100]}')
                    raise _Abort()
                if bytes(rgot) != rexpected:
                    fail(f'read_value/mismatch/{rkind}/during_send', f'read of {rtag}: read_value returned {len(rgot)} bytes ({hx(rgot)}), '
                                                                     f'the server value is {hx(rexpected)}')
                    raise _Abort()
                labels.add('read_during_send')
                if len(rexpected) > rb['mtu'] - 1:
                    labels.add('long_read_during_send')
                    if any(bearers[bi] is rb for bi in expected):
                        labels.add('long_read_during_send:on_a_target_bearer')
                        S['nontrivial'] = True
            await asyncio.sleep(QUIET)
            sniffer.pump()
            labels.add(f'send:{api}' + (':forced' if force else ''))
            if target is not None and bearers[target]['enh']:
                labels.add(f'send:{api}:eatt_target')
            if len(expected) >= 2:
                labels.add('two_subscribed_bearers')
                S['nontrivial'] = True
            if expected:
                labels.add('send_with_subscriber')
            who = f'{api}(0x{lc["vh"]:04X}, {len(full_value)} bytes' + (', current value' if value is None else '') + (', force' if force else '') + ')'
            if target is not None:
                who += f' to client {bearers[target]["k"]} bearer {bearers[target]["j"]}'
            # ---- wire
            sent: dict = {}
            confirms: dict = {}
            for pos, (d, hd, cid, p) in enumerate(sniffer.att[mark:], start=mark):
                if not p:
                    continue
                if d == world.H2C and p[0] in (0x1B, 0x1D):
                    owner = [bi for bi, x in enumerate(bearers) if x['h2c'] == (hd, cid) and not x.get('dead')]
                    sent.setdefault(owner[0] if owner else ('?', hd, cid), []).append(p)
                elif d == world.C2H and p[0] == 0x1E:
                    owner = [bi for bi, x in enumerate(bearers) if x['c2h'] == (hd, cid) and not x.get('dead')]
                    confirms.setdefault(owner[0] if owner else ('?', hd, cid), []).append(pos)
            problem = None
            vproblem = None
            for bi in expected:
                x = bearers[bi]
                tag = f'client {x["k"]} bearer {x["j"]} (subscribed)' if not force else f'client {x["k"]} bearer {x["j"]}'
                pdus = sent.get(bi, [])
                if len(pdus) != 1:
                    problem = f'{tag} was sent {len(pdus)} PDU(s), expected exactly one Handle Value {"Indication" if indicate else "Notification"}'
                    break
                p = pdus[0]
                if p[0] != (0x1D if indicate else 0x1B):
                    problem = f'{tag} was sent opcode 0x{p[0]:02X}, the API asks for a Handle Value {"Indication (0x1D)" if indicate else "Notification (0x1B)"}'
                    break
                if indicate:
                    c = confirms.get(bi, [])
                    if len(c) != 1 or c[0] >= at_return:
                        problem = f'the indication to {tag} was answered by {len(c)} confirmation(s) before the call returned (expected one)'
                        break
                want_value = full_value[: x['mtu'] - 3]
                if len(p) < 3 or int.from_bytes(p[1:3], 'little') != lc['vh'] or p[3:] != want_value:
                    vproblem = (f'{tag}, ATT_MTU {x["mtu"]}: PDU carries handle 0x{int.from_bytes(p[1:3], "little"):04X} and {len(p) - 3} value bytes, '
                                f'expected handle 0x{lc["vh"]:04X} and the first {len(want_value)} of {len(full_value)} bytes')
                if len(full_value) > x['mtu'] - 3:
                    labels.add('send_truncated')
                elif len(full_value) == x['mtu'] - 3:
                    labels.add('send_len:mtu-3')
            if problem is None:
                for bi, pdus in sent.items():
                    if bi not in expected:
                        x = bearers[bi] if isinstance(bi, int) else None
                        tag = f'client {x["k"]} bearer {x["j"]} ({"subscribed for " + {"n": "notifications", "i": "indications"}[subs[(bi, lc["vh"])]] if (bi, lc["vh"]) in subs else "not subscribed"})' if x else str(bi)
                        problem = f'{tag} was sent {len(pdus)} PDU(s) (opcode 0x{pdus[0][0]:02X}) although the model says it must get nothing'
                        break
            if problem is None and not indicate and confirms:
                problem = 'a confirmation was sent for a notification'
            if problem:
                fail(f'{sig}/delivery', f'{who}: {problem}')
                raise _Abort()
            if vproblem:
                fail(f'{sig}/value', f'{who}: {vproblem}')
                raise _Abort()
            # ---- callbacks: every subscriber the client still has for this characteristic, and nobody else
            for bi, x in enumerate(bearers):
                r = regs.get((bi, lc['vh']), {})
                want_value = full_value[: x['mtu'] - 3]
                delivered = bi in expected
                whom = f'client {x["k"]} bearer {x["j"]}'
                for key in [key for key in fired if key[0] == bi and key[1] == lc['vh']]:
                    slot = key[2]
                    new = fired[key][before.get(key, 0):]
                    name_ = "the proxy's 'update' listener" if slot == 'u' else (f'subscriber #{slot}' if slot else 'the subscriber')
                    if not delivered:
                        if new:
                            fail(f'callback/{api}/count', f'{who}: {name_} of {whom} was called although that bearer is not a target')
                            raise _Abort()
                        continue
                    if force:
                        must, may = False, True
                    elif slot == 'u':
                        must = any(want_kind in kinds for s_, kinds in r.items() if s_ != 'p') or (want_kind in r.get('p', ()) and (bi, lc['vh']) not in shaky)
                        may = bool(r)
                    else:
                        must = want_kind in r.get(slot, ())
                        may = slot in r
                    if must and len(new) != 1:
                        fail(f'callback/{api}/count', f'{who}: {name_} of {whom} was called {len(new)} time(s), expected once')
                        raise _Abort()
                    if not must and may and len(new) > 1:
                        fail(f'callback/{api}/count', f'{who}: {name_} of {whom} was called {len(new)} times')
                        raise _Abort()
                    if not may and new:
                        fail(f'callback/{api}/count', f'{who}: {name_} of {whom} was called although it is not subscribed (any more)')
                        raise _Abort()
                    if new and bytes(new[0]) != want_value:
                        fail(f'callback/{api}/value', f'{who}: {name_} of {whom} (ATT_MTU {x["mtu"]}) got {len(new[0])} bytes, '
                                                      f'expected the first {len(want_value)} of {len(full_value)}')
                        raise _Abort()
                if delivered and not force and sum(1 for s_, kinds in r.items() if s_ != 'p' and want_kind in kinds) >= 2:
                    labels.add('send_to_several_subscribers')
                if delivered and not force and r and any(k_[0] == bi and k_[1] == lc['vh'] and k_[2] not in r and k_[2] != 'u' for k_ in fired):
                    labels.add('send_after_partial_unsubscribe')
            for key, v in fired.items():
                if key[1] != lc['vh'] and len(v) != before.get(key, 0):
                    fail(f'callback/{api}/count', f'{who}: a subscriber of another characteristic (0x{key[1]:04X}) was called')
                    raise _Abort()


# ---------------------------------------------------------------------------
# Harness B: adversarial server, termination clause
# ---------------------------------------------------------------------------
PROCS = ['discover_services', 'discover_service', 'discover_included_services', 'discover_characteristics',
         'discover_descriptors', 'discover_descriptors_range', 'discover_attributes']


def sym_st():
    return st.one_of(
        st.sampled_from([['s', 0], ['s', 0], ['s', 1], ['s', -1], ['s', 2], ['a', 0], ['a', 0xFFFF], ['a', 1], ['a', 0xFFFE],
                         ['e', 0], ['e', 1], ['e', -1]]),
        st.tuples(st.just('s'), st.integers(-3, 40)).map(list),
        st.tuples(st.just('a'), st.integers(0, 0xFFFF)).map(list),
    )


def script_item_st():
    entry = st.tuples(sym_st(), sym_st(), sym_st()).map(list)
    lst = st.fixed_dictionaries({'k': st.just('list'), 'w': st.sampled_from([2, 2, 16]), 'u': st.integers(0, 7),
                                 'entries': st.lists(entry, min_size=1, max_size=4), 'short': st.sampled_from([None, None, None, 0, 1, 3]),
                                 'dup': st.sampled_from([False, False, False, True])})
    back = st.sampled_from([['s', -1], ['s', -2], ['a', 0], ['a', 1], ['a', 0xFFFF], ['e', 1]])
    stuck = st.fixed_dictionaries({'k': st.just('list'), 'w': st.sampled_from([2, 16]), 'u': st.integers(0, 7),
                                   'entries': st.lists(st.tuples(st.one_of(back, sym_st()), back, sym_st()).map(list), min_size=1, max_size=3),
                                   'short': st.none(), 'dup': st.just(False)})
    # an entry that reaches the end of the handle space, followed by entries that point back
    top = st.tuples(st.tuples(st.just('s'), st.integers(0, 3)).map(list), st.just(['a', 0xFFFF]), sym_st()).map(list)
    past_end = st.fixed_dictionaries({'k': st.just('list'), 'w': st.sampled_from([2, 16]), 'u': st.integers(0, 7),
                                      'entries': st.tuples(top, st.lists(st.tuples(back, back, sym_st()).map(list), min_size=1, max_size=2)).map(lambda t: [t[0]] + t[1]),
                                      'short': st.none(), 'dup': st.just(False)})
    return st.one_of(
        lst, lst, lst, stuck, stuck, past_end,
        st.fixed_dictionaries({'k': st.just('empty'), 'w': st.sampled_from([2, 16])}),
        st.fixed_dictionaries({'k': st.just('empty'), 'w': st.sampled_from([2, 16])}),
        st.fixed_dictionaries({'k': st.just('err'), 'code': st.one_of(st.sampled_from([0x0A, 0x01, 0x08, 0x0E, 0x80, 0xFF, 0x00]), st.integers(0, 255)),
                               'same': st.booleans()}),
        st.fixed_dictionaries({'k': st.just('wrong'), 'op': st.sampled_from([0x05, 0x07, 0x09, 0x11, 0x0B, 0x13, 0x03, 0x1B, 0x1D])}),
        st.fixed_dictionaries({'k': st.just('repeat')}),
        st.fixed_dictionaries({'k': st.just('repeat')}),
        st.fixed_dictionaries({'k': st.just('none')}),
        st.fixed_dictionaries({'k': st.just('raw'), 'data': st.binary(min_size=0, max_size=12)}),
    )


def script_case():
    rng = st.one_of(
        st.tuples(st.integers(1, 40), st.integers(0, 60)).map(lambda t: [t[0], t[0] + t[1]]),
        st.tuples(st.integers(1, 40), st.integers(0, 60)).map(lambda t: [t[0], t[0] + t[1]]),
        st.just([1, 0xFFFF]),
        st.sampled_from([[1, 0xFFFF], [0xFFF0, 0xFFFF], [0xFFFF, 0xFFFF], [0, 0], [0, 0xFFFF], [9, 3], [0xFFFE, 0xFFFF]]),
        st.tuples(st.integers(0, 0xFFFF), st.integers(0, 0xFFFF)).map(list),
    )
    # a prefix of responses that let a sane client advance, so that the adversarial part is reached
    fwd = st.tuples(st.just('s'), st.integers(0, 6)).map(list)
    progress = st.fixed_dictionaries({'k': st.just('list'), 'w': st.sampled_from([2, 16]), 'u': st.integers(0, 7),
                                      'entries': st.lists(st.tuples(fwd, fwd, fwd).map(list), min_size=1, max_size=2),
                                      'short': st.none(), 'dup': st.just(False)})
    script = st.tuples(st.lists(progress, min_size=0, max_size=3), st.lists(script_item_st(), min_size=0, max_size=6)).map(lambda t: t[0] + t[1])
    return st.fixed_dictionaries({
        'kind': st.just('script'),
        'proc': st.sampled_from(PROCS),
        'range': rng,
        'script': script,
        'tail': st.sampled_from(['last', 'notfound', 'last', 'silent', 'last']),
    })


def _resolve(sym, start, end):
    mode, n = sym[0], int(sym[1])
    if mode == 's':
        return (start + n) & 0xFFFF
    if mode == 'e':
        return (end + n) & 0xFFFF
    return n & 0xFFFF


def _uuid_bytes(w, u):
    return uuid_le(U16_POOL[u % len(U16_POOL)]) if w == 2 else uuid_le(U128_POOL[u % len(U128_POOL)])


def materialise(item, req: bytes, previous):
    """Response bytes (or None for silence) for one script item and one request. Returns
    (list of PDUs to send, set of class tags)."""
    op = req[0]
    start = int.from_bytes(req[1:3], 'little') if len(req) >= 3 else 0
    end = int.from_bytes(req[3:5], 'little') if len(req) >= 5 else 0
    k = item['k']
    tags = {k}
    if k == 'none':
        return [], tags
    if k == 'raw':
        return [bytes(item['data'])], tags
    if k == 'repeat':
        if previous:
            return [previous], tags
        return [bytes([0x01, op]) + req[1:3].ljust(2, b'\0') + b'\x0A'], {'err'}
    if k == 'err':
        code = int(item['code']) & 0xFF
        rop = op if item.get('same', True) else (op ^ 0x0C)
        if code != 0x0A:
            tags.add('err_unexpected')
        return [bytes([0x01, rop]) + struct.pack('<H', start) + bytes([code])], tags
    rsp_op = {0x10: 0x11, 0x06: 0x07, 0x08: 0x09, 0x04: 0x05}.get(op)
    if rsp_op is None:
        return [bytes([0x01, op]) + struct.pack('<H', start) + b'\x06'], {'err'}
    if k == 'wrong':
        wop = int(item['op'])
        if wop == rsp_op:
            wop = 0x0B
        return [bytes([wop]) + b'\x07\x01\x00\x02\x00\x00\xA0'], tags
    w = int(item.get('w', 2))
    type_ = req[5:] if op in (0x08, 0x10) else b''
    if k == 'empty':
        body = {0x11: bytes([4 + w]), 0x07: b'', 0x09: bytes([2 + (5 + w if type_[:2] == b'\x03\x28' else 4 + (2 if w == 2 else 0))]), 0x05: bytes([1 if w == 2 else 2])}[rsp_op]
        return [bytes([rsp_op]) + body], tags
    # well-formed list
    ub = _uuid_bytes(w, int(item.get('u', 0)))
    rows = []
    advance = None
    for e in item['entries']:
        h, a, b_ = (_resolve(e[0], start, end), _resolve(e[1], start, end), _resolve(e[2], start, end))
        if rsp_op == 0x11:
            rows.append(struct.pack('<HH', h, a) + ub)
            advance = a
        elif rsp_op == 0x07:
            rows.append(struct.pack('<HH', h, a))
            advance = a
        elif rsp_op == 0x05:
            rows.append(struct.pack('<H', h) + ub)
            advance = h
        else:
            if type_[:2] == b'\x03\x28':
                value = struct.pack('<BH', b_ & 0xFF, a) + ub
            elif type_[:2] == b'\x02\x28':
                value = struct.pack('<HH', a, b_) + (ub if w == 2 else b'')
            else:
                value = ub
            if item.get('short') is not None:
                value = value[: int(item['short'])]
            rows.append(struct.pack('<H', h) + value)
            advance = h
    if advance is not None and (advance < start or advance == 0xFFFF):
        tags.add('non_advancing')
    if rsp_op == 0x05:
        pdu = bytes([rsp_op, 1 if w == 2 else 2]) + b''.join(rows)
    elif rsp_op == 0x07:
        pdu = bytes([rsp_op]) + b''.join(rows)
    else:
        pdu = bytes([rsp_op, len(rows[0]) & 0xFF]) + b''.join(rows)
    out = [pdu]
    if item.get('dup'):
        out.append(pdu)
        tags.add('dup')
    return out, tags


def run_script_case(ctx, case) -> None:
    loop = vloop.new_loop()
    loop.max_iterations = 40_000_000
    S: dict = {'reqs': [], 'rsps': [], 'verdict': None, 'tags': set(), 'setup': False}
    plain = {k: case[k] for k in ('kind', 'proc', 'range', 'script', 'tail')}
    proc = case['proc']
    if proc not in PROCS:
        raise HarnessError(f'C12: unknown procedure {proc!r}')
    script = list(case['script'])

    async def drive():
        w = world.World(1)
        await w.power_on()
        peer = world.RawPeer(w, 9)
        await peer.start()
        conn = await peer.connect_to(w[0].device)
        client = conn.gatt_client
        S['setup'] = True
        task_box: list = []

        def on_pdu(_handle, cid, payload):
            payload = bytes(payload)
            if cid != att.ATT_CID or not payload or S['verdict']:
                return
            if payload[0] not in ATT_REQUEST_OPCODES:
                return  # confirmation, command, or the device's own server answering our raw bytes
            reqs, rsps = S['reqs'], S['rsps']
            if len(reqs) >= 2 and payload == reqs[-1] == reqs[-2] and rsps[-1] == rsps[-2] and rsps[-1]:
                S['verdict'] = 'no_progress'
            elif len(reqs) + 1 > MAX_REQUESTS:
                S['verdict'] = 'too_many'
            if S['verdict']:
                reqs.append(payload)
                if task_box:
                    task_box[0].cancel()
                return
            i = len(reqs)
            previous = next((r[-1] for r in reversed(rsps) if r), None)
            if i < len(script):
                out, tags = materialise(script[i], payload, previous)
            elif case['tail'] == 'last' and rsps:
                out, tags = (list(rsps[-1]), {'tail_repeat'})
            elif case['tail'] == 'silent':
                out, tags = [], {'none'}
            else:
                out, tags = [bytes([0x01, payload[0]]) + payload[1:3].ljust(2, b'\0') + b'\x0A'], {'tail_notfound'}
            S['tags'] |= tags
            reqs.append(payload)
            rsps.append(tuple(out))
            for pdu in out:
                peer.send(att.ATT_CID, pdu)

        peer.host.on('l2cap_pdu', on_pdu)
        s, e = int(case['range'][0]) & 0xFFFF, int(case['range'][1]) & 0xFFFF
        uuid = UUID(U16_POOL[0])
        if proc == 'discover_services':
            coro = client.discover_services()
        elif proc == 'discover_service':
            coro = client.discover_service(uuid)
        elif proc == 'discover_included_services':
            coro = client.discover_included_services(gatt_client.ServiceProxy(client, s, e, uuid, True))
        elif proc == 'discover_characteristics':
            coro = client.discover_characteristics([], gatt_client.ServiceProxy(client, s, e, uuid, True))
        elif proc == 'discover_descriptors':
            coro = client.discover_descriptors(gatt_client.CharacteristicProxy(client, s, e, uuid, 0x02))
        elif proc == 'discover_descriptors_range':
            coro = client.discover_descriptors(None, s, e)
        else:
            coro = client.discover_attributes()
        task = loop.create_task(coro)
        task_box.append(task)
        try:
            await task
            return 'returned'
        except asyncio.CancelledError:
            if S['verdict']:
                return S['verdict']
            raise
        except Exception as ex:  # noqa: BLE001 - a raise is a termination
            S['raised'] = type(ex).__name__
            return 'raised'

    try:
        try:
            outcome = loop.complete(drive(), horizon=HORIZON_B)
        except vloop.Stalled:
            outcome = 'stalled'
        except vloop.HorizonExceeded:
            outcome = 'horizon'
        except vloop.BudgetExceeded:
            outcome = 'budget'
        if not S['setup']:
            raise HarnessError(f'C12 harness B set-up did not complete: {outcome}')
        nreq = len(S['reqs'])
        tags = S['tags']
        labels = {f'proc:{proc}', f'outcome:{outcome}'} | {f'script:{t}' for t in tags}
        if outcome == 'no_progress':
            last = S['reqs'][-1]
            fail_what = (f'{proc}: request {hx(last)} was issued a third time after the server answered it twice with the same '
                         f'{hx(S["rsps"][-1][-1])} ({nreq} requests so far): the procedure makes no progress and never terminates')
            ctx.fail(f'termination/{proc}/no_progress', fail_what, plain)
        elif outcome == 'too_many':
            ctx.fail(f'termination/{proc}/too_many_requests', f'{proc} issued more than {MAX_REQUESTS} requests in one procedure', plain)
        elif outcome in ('stalled', 'horizon'):
            ctx.fail(f'termination/{proc}/hang', f'{proc} neither returned nor raised after {nreq} request(s) ({outcome} on the virtual loop, '
                                                f'beyond the {HORIZON_B:.0f} s horizon / GATT timeout)', plain)
        elif outcome == 'budget':
            labels.add('iteration_budget_hit')
        nontrivial = bool(tags & {'empty', 'non_advancing', 'repeat', 'tail_repeat', 'wrong', 'none', 'err_unexpected', 'raw', 'dup'})
        if nreq >= 3:
            labels.add('requests:3+')
        ctx.case(plain, nontrivial, labels, sample={'proc': proc, 'range': case['range'], 'tail': case['tail'],
                                                    'script': [i['k'] for i in script], 'requests': nreq, 'outcome': outcome})
    finally:
        loop.shutdown()


# ---------------------------------------------------------------------------
def run(ctx) -> None:
    vloop.selftest()
    ctx.hyp('db', lambda c: run_db_case(ctx, c), db_case(), max_examples=ctx.n(220, 6400))
    for focus in ('subscribers', 'overlap', 'churn'):
        ctx.hyp(f'db_{focus}', lambda c: run_db_case(ctx, c), db_case(focus), max_examples=ctx.n(45, 1600))
    for focus in ('writes', 'writes_max'):
        ctx.hyp(f'db_{focus}', lambda c: run_db_case(ctx, c), db_case(focus), max_examples=ctx.n(20, 800))
    ctx.hyp('db_giveup', lambda c: run_db_case(ctx, c), db_case('giveup'), max_examples=ctx.n(40, 1600))
    ctx.hyp('script', lambda c: run_script_case(ctx, c), script_case(), max_examples=ctx.n(1200, 32000))
    for label, n in (
        ('clients:2', 5), ('clients:3', 3), ('eatt_bearer', 5), ('included_service', 10), ('secondary_service', 10),
        ('include_registered_through_includer', 5), ('long_read', 10), ('value_len:0', 5), ('value_len:512', 3),
        ('script:empty', 10), ('script:non_advancing', 10), ('script:err_unexpected', 8), ('script:wrong', 5),
        ('script:repeat', 5), ('script:tail_repeat', 10), ('two_subscribed_bearers', 5), ('send_with_subscriber', 10),
        ('send_truncated', 5), ('mixed_uuid_widths:services', 10), ('mixed_uuid_widths:characteristics', 10),
        ('mixed_uuid_widths:descriptors', 10), ('multi_pdu:services', 10), ('multi_pdu:characteristics', 10),
        ('multi_pdu:descriptors', 10), ('write:request', 3), ('write:command', 3), ('subscribe:notify', 10),
        ('subscribe:indicate', 10), ('send:indicate_subscriber:eatt_target', 3), ('send:notify_subscriber:eatt_target', 3),
        ('hci_delays', 10), ('read_on_eatt', 10), ('long_read_on_eatt', 3), ('reconnect', 10), ('reconnect_same_handle', 5),
        # extension: filtered / ranged discovery, the client's subscriber sets, overlapping operations, bearer churn
        ('filtered:services:some_excluded', 10), ('filtered:characteristics:followed_by_other', 10), ('characteristics_of_all_services', 10),
        ('descriptors_by_range', 10), ('several_subscribers', 10), ('send_to_several_subscribers', 8), ('send_after_partial_unsubscribe', 5),
        ('unsubscribe:one_of_several', 5), ('unsubscribe:all', 2), ('unsubscribe:not_subscribed', 3), ('subscribe:without_callback', 3),
        ('concurrent_reads', 10), ('concurrent_reads:same_bearer', 5), ('concurrent_reads:long_on_two_bearers', 2), ('read_during_send', 10),
        ('long_read_during_send:on_a_target_bearer', 4), ('eatt_closed:by_client', 5), ('eatt_closed:by_server', 5),
        ('eatt_closed:sibling_subscribed', 5), ('eatt_opened_later', 5), ('eatt_cid_reused', 3), ('reconnect_new_mtu', 5),
        # extension: writes of every length class up to the largest attribute value, read back
        ('writev', 20), ('write_readback', 20), ('write_len:512:request', 3), ('write_len:512:command', 3), ('write_len:mtu-3:request', 8),
        ('write_len:mtu-3:command', 8), ('write_len:0', 2), ('write_len:beyond', 1), ('write:descriptor', 3), ('write_on_eatt', 2),
        ('write_readback:other_bearer', 3),
        # a caller gives up a read, the client reads on
        ('read_giveup', 30), ('read_giveup:given_up', 15), ('read_giveup:then_other_characteristic', 10), ('read_giveup:wait_for', 5),
    ):
        ctx.floor(label, n)
    for p in PROCS:
        ctx.floor(f'proc:{p}', 10)


def replay(ctx, case) -> None:
    if case.get('kind') == 'db':
        run_db_case(ctx, case)
    elif case.get('kind') == 'script':
        run_script_case(ctx, case)
    else:
        raise ValueError(case.get('kind'))
