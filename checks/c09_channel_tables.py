"""
C09 - L2CAP channel tables stay exact; closed identifiers are reusable.

Operation histories (plain data) are interpreted against the real stack:

* world: one central and 1..3 peripherals (full Devices on vlib.world.World, LE links or BR/EDR
  links), L2CAP servers on 1..3 PSMs per kind on every device, generated order-preserving HCI
  delays. Every operation (open LE credit-based / enhanced credit-based / classic, open to an
  unserved PSM, close and abort from either end, both ends closing the same channel, drain with
  unsent data, cut the link from either end, reconnect) is *started* as a task and followed by a generated amount of virtual
  time ("wait"): 0..34 ms leaves it in flight while the next operation (possibly on another
  link, possibly a link cut) is issued, -1 runs to quiescence where the invariants are checked.
* raw: one Device and a vlib.world.RawPeer that does the credit-based signalling by hand on
  CID 5 with its own CID choices (different from the CIDs Bumble allocates), re-uses CIDs after
  closing, refuses, stays mute, and is cut off.

The oracle compares the ChannelManager tables with the channels *reported open* by the channel
objects the harness has been handed (open results, server callbacks), a small history model
(what must be open / closed), and the completion of every started task. While operations are in
flight on some links, the links on which nothing was started since the last quiescence are checked
as well (their tables and channels must not move: independence).
"""

from __future__ import annotations

import asyncio
import collections

from hypothesis import strategies as st

from bumble import l2cap
from vlib import vloop, world

PROPERTY = 'C09'
LEVEL = 'exploration'
RULE = (
    'world: histories of open(le|enh x n|classic, link, end, psm)/open-to-unserved-psm/close(channel, end)/'
    'close-by-both-ends(channel, gap)/abort(channel, end)/drain(channel, end, bytes)/cut(link | link of the last op, end)/'
    'reconnect(link) over 1 central + 1..3 '
    'peripherals (LE links, LE links also carrying classic channels, or BR/EDR links), 1..3 served PSMs per '
    'kind on every device, per-device order-preserving HCI delays; each op is started as a task and followed '
    'by a generated wait (0..34 ms = left in flight, -1 = run to quiescence, invariants checked; links without '
    'an operation since the last quiescence are checked also while others are busy). '
    'raw: histories of raw-peer open (own CID from a pool, LE credit-based or enhanced x n, duplicates, '
    'unserved PSM)/raw close/DUT open (answered with a pool CID, refused, or never answered)/DUT close/DUT '
    'abort/cut(end)/reconnect against one Device. non-trivial = an open after a close/refusal/abort on the '
    'same connection, or operations in flight on two links at once, or a link cut with an operation pending, '
    'or (raw) a CID re-used after close; distinct by (configuration, operation sequence).'
)
ASSUMPTIONS = [
    'hang = task still pending after 1900 virtual seconds of quiescence (Bumble has no L2CAP signalling timeout)',
    'operations are only issued on links whose two ends are alive when the operation starts (a cut may be in flight)',
    'channel.abort() is a local teardown: the other end legitimately stays open (an "orphan"); while an orphan '
    'exists on a link, credit-based opens on that link may be refused (source CID already allocated) and a '
    'close of the orphan may stay pending until the link goes away',
    'a drain on an open channel whose peer never returns credits may stay pending while channel and link live',
    'receivers install no sink, so no credits are returned: unsent data stays unsent until close/cut',
    'exhaustion of the 64 LE dynamic CIDs is a legitimate refusal',
]
SHRINK_KEYS = ('ops',)

QUIESCE = 1900.0
LE_PSMS = [0x80, 0x81, 0x82]
CL_PSMS = [0x1001, 0x1003, 0x1005]
LE_UNSERVED = 0xF0
CL_UNSERVED = 0x10F1
WAITS = [-1, -1, -1, -1, 0, 0, 1, 2, 3, 5, 8, 13, 21, 34]
LE_CIDS = 0x7F - 0x40 + 1

LeState = l2cap.LeCreditBasedChannel.State
ClState = l2cap.ClassicChannel.State


def le_spec(psm):
    return l2cap.LeCreditBasedChannelSpec(psm=psm, max_credits=2, mtu=256, mps=32)


def report(obj) -> str:
    """What the channel object itself reports: 'open' | 'closed' | 'limbo' (in transition)."""
    if isinstance(obj, l2cap.LeCreditBasedChannel):
        if obj.state == LeState.CONNECTED:
            return 'open'
        if obj.state in (LeState.CONNECTING, LeState.DISCONNECTING):
            return 'limbo'
        return 'closed'
    if obj.state == ClState.OPEN:
        return 'open'
    if obj.state == ClState.CLOSED:
        return 'closed'
    return 'limbo'


def is_le(obj) -> bool:
    return isinstance(obj, l2cap.LeCreditBasedChannel)


def exc_name(exc) -> str:
    if isinstance(exc, l2cap.L2capError):
        return f'L2capError:{exc.error_name or exc.error_code}'
    if isinstance(exc, asyncio.CancelledError):
        return 'CancelledError'
    text = str(exc)[:60]
    return f'{type(exc).__name__}:{text}' if text else type(exc).__name__


class _Stop(Exception):
    """Case ended early (a violation was recorded)."""


# ---------------------------------------------------------------------------
# world variant
# ---------------------------------------------------------------------------
class Link:
    def __init__(self, idx):
        self.idx = idx
        self.epoch = 0
        self.conns = [None, None]
        self.alive = [False, False]
        self.cut_started = False
        self.abort_seen = False  # an abort() left (or may have left) an orphan end on this connection
        self.dirty = False  # an operation was started on this link since the last quiescence
        self.history = set()  # 'close' | 'refusal' | 'abort' seen on this connection (for labels)

    @property
    def up(self):
        return self.alive[0] and self.alive[1]


class End:
    """One end of a channel: a Bumble channel object on one device."""

    def __init__(self, obj, link, epoch, side):
        self.obj = obj
        self.link = link
        self.epoch = epoch
        self.side = side
        self.chan = None
        self.aborted = False
        self.close_started = False


class Chan:
    """A logical channel (client end + server end)."""

    def __init__(self, kind, link, epoch):
        self.kind = kind
        self.link = link
        self.epoch = epoch
        self.ends = [None, None]
        self.expect_open = False
        self.close_ok = False
        self.racy = False  # closed (by the peer or the link) before the open was reported to the opener

    def other(self, side):
        return self.ends[1 - side]


class Op:
    def __init__(self, step, what, task, link, side, **kw):
        self.step = step
        self.what = what
        self.task = task
        self.link = link
        self.epoch = link.epoch if link is not None else 0
        self.side = side
        self.processed = False
        self.__dict__.update(kw)


def world_ops(max_ops):
    link = st.integers(0, 2)
    side = st.integers(0, 1)
    wait = st.sampled_from(WAITS)
    kind = st.sampled_from(['le', 'le', 'enh', 'cl'])
    sel = st.integers(0, 5)
    open_op = st.tuples(st.just('open'), kind, link, side, st.integers(0, 2), st.integers(1, 3), wait)
    op = st.one_of(
        open_op,
        open_op,
        open_op,
        open_op,
        st.tuples(st.just('refuse'), kind, link, side, wait),
        st.tuples(st.just('close'), sel, side, wait),
        st.tuples(st.just('close'), sel, side, wait),
        st.tuples(st.just('close'), sel, side, wait),
        st.tuples(st.just('abort'), sel, side, wait),
        # both ends close the same channel, the second `gap` ms after the first
        st.tuples(st.just('close_both'), sel, side, st.sampled_from([0, 0, 1, 2, 3, 5]), wait),
        st.tuples(st.just('abort'), sel, side, wait),
        st.tuples(st.just('drain'), sel, side, st.sampled_from([8, 40, 300]), wait),
        # link -1 = the link of the operation started last
        st.tuples(st.just('cut'), st.sampled_from([-1, -1, 0, 1, 2]), side, wait),
        st.tuples(st.just('reconnect'), link),
    )
    return st.tuples(open_op, st.lists(op, min_size=3, max_size=max_ops - 1)).map(lambda t: [t[0]] + t[1])


def world_cases(max_ops):
    delays = st.lists(st.sampled_from([0, 1, 2, 3, 5]), max_size=4)
    return st.fixed_dictionaries(
        {
            'transport': st.sampled_from(['le', 'le', 'le+cl', 'classic']),
            'nper': st.integers(1, 3),
            'npsm': st.integers(1, 3),
            'delays': st.lists(delays, min_size=4, max_size=4),
            'ops': world_ops(max_ops),
        }
    )


def _plain(x):
    if isinstance(x, (list, tuple)):
        return [_plain(v) for v in x]
    return x


def run_world_case(ctx, case) -> None:
    transport = case['transport']
    nper = int(case['nper'])
    npsm = int(case['npsm'])
    delays = [list(d) for d in case['delays']]
    ops = [_plain(o) for o in case['ops']]
    loop = vloop.new_loop()
    loop.max_iterations = 400_000
    labels = set()
    flags = {'nontrivial': False}
    cur = {'step': -1}
    evq: collections.deque = collections.deque()
    links = [Link(i) for i in range(nper)]
    conn_map: dict = {}  # id(Connection) -> (link, epoch, side)
    ends: list[End] = []
    chans: list[Chan] = []
    pending: list[Op] = []
    st_ = {}

    def fail(sig, what):
        c = {'kind': 'world', 'transport': transport, 'nper': nper, 'npsm': npsm, 'delays': delays,
             'ops': ops[: cur['step'] + 1]}
        ctx.fail(sig, what, c)
        raise _Stop()

    def node_of(link, side):
        return 0 if side == 0 else link.idx + 1

    def manager(node):
        return st_['w'][node].device.l2cap_channel_manager

    # -- set-up ----------------------------------------------------------------
    def on_server_channel(node, ch):
        evq.append(('server', node, ch))

    async def connect(link):
        w = st_['w']
        if transport == 'classic':
            cc, cp = await w.connect_classic(0, link.idx + 1)
        else:
            cc, cp = await w.connect_le(0, link.idx + 1)
        link.epoch += 1
        link.conns = [cc, cp]
        link.alive = [True, True]
        link.cut_started = False
        link.abort_seen = False
        link.history = set()
        for side, c in enumerate((cc, cp)):
            conn_map[id(c)] = (link, link.epoch, side, c)
            c.on('disconnection', lambda reason, link=link, epoch=link.epoch, side=side: evq.append(('down', link, epoch, side)))

    async def setup():
        n = 1 + nper
        w = world.World(n, delays=[delays[i % len(delays)] for i in range(n)], classic=(transport == 'classic'))
        st_['w'] = w
        await w.power_on()
        for i, node in enumerate(w.nodes):
            for k in range(npsm):
                if transport != 'classic':
                    node.device.create_l2cap_server(le_spec(LE_PSMS[k]), handler=lambda ch, i=i: on_server_channel(i, ch))
                if transport != 'le':
                    node.device.create_l2cap_server(
                        l2cap.ClassicChannelSpec(psm=CL_PSMS[k]), handler=lambda ch, i=i: on_server_channel(i, ch)
                    )
        for link in links:
            await connect(link)

    # -- event processing --------------------------------------------------------
    def orphan_on(link, peer_side) -> bool:
        for e in ends:
            if e.link is link and e.epoch == link.epoch and e.side == peer_side and is_le(e.obj):
                if report(e.obj) == 'closed':
                    continue
                partner = e.chan.other(e.side) if e.chan else None
                if partner is None or report(partner.obj) != 'open':
                    return True
        return False

    def cids_in_use(link, side) -> int:
        m = manager(node_of(link, side))
        return len(m.channels.get(link.conns[side].handle, {}))

    def handle_event(ev):
        if ev[0] == 'down':
            _, link, epoch, side = ev
            if link.epoch == epoch:
                link.alive[side] = False
            return
        if ev[0] == 'server':
            _, node, ch = ev
            info = conn_map.get(id(ch.connection))
            if info is None:
                fail('model/server_channel_on_unknown_connection', 'a server callback delivered a channel of a connection the harness never saw')
            link, epoch, side, _c = info
            e = End(ch, link, epoch, side)
            c = Chan('cl' if not is_le(ch) else 'le?', link, epoch)
            c.ends[side] = e
            e.chan = c
            ends.append(e)
            chans.append(c)
            return
        op = ev[1]
        op.processed = True
        if op in pending:
            pending.remove(op)
        task = op.task
        exc = None
        if task.cancelled():
            exc = asyncio.CancelledError()
        elif task.exception() is not None:
            exc = task.exception()
        link = op.link
        same_epoch = link is not None and link.epoch == op.epoch
        if op.what == 'open':
            if exc is None:
                result = task.result()
                objs = result if isinstance(result, list) else [result]
                if op.kind == 'enh' and len(objs) != op.n:
                    fail('open/enh_wrong_count', f'enhanced open of {op.n} channels returned {len(objs)}')
                for obj in objs:
                    e = End(obj, link, op.epoch, op.side)
                    ends.append(e)
                    # the server end: created by the peer's server callback on this connection
                    match = None
                    for s in ends:
                        if (s.link is link and s.epoch == op.epoch and s.side == 1 - op.side and s.chan is not None
                                and s.chan.ends[op.side] is None and is_le(s.obj) == is_le(obj)
                                and s.obj.source_cid == obj.destination_cid
                                and s.obj.destination_cid == obj.source_cid):
                            match = s
                    if match is None:
                        if same_epoch and link.up and not link.cut_started:
                            fail('model/server_end_not_found', f'{op.kind} open succeeded but the peer created no channel with the matching CID pair')
                        c = Chan(op.kind, link, op.epoch)
                        chans.append(c)
                    else:
                        c = match.chan
                        c.kind = op.kind
                    c.ends[op.side] = e
                    e.chan = c
                    c.expect_open = same_epoch and link.up and not link.cut_started
                    if report(obj) != 'open' or (match is not None and (match.close_started or match.aborted)):
                        c.racy = True
                        labels.add('closed_before_open_returned')
                labels.add(f'open_ok:{op.kind}')
            else:
                excused = None
                if not same_epoch or not link.up or link.cut_started:
                    excused = 'link_cut'
                elif op.kind != 'cl' and (op.orphan_seen or orphan_on(link, 1 - op.side)):
                    excused = 'orphan_at_peer'
                elif op.kind != 'cl' and max(cids_in_use(link, 0), cids_in_use(link, 1)) + op.n > LE_CIDS:
                    excused = 'cid_exhaustion'
                if excused is None:
                    hist = '+'.join(sorted(op.history)) or 'fresh'
                    fail(f'open_failed/{op.kind}/{exc_name(exc)}',
                         f'{op.kind} open to a served PSM on a live link failed with {exc!r} (earlier on this connection: {hist}; '
                         f'{op.others_in_flight} operation(s) in flight on other links)')
                labels.add(f'open_excused:{excused}')
        elif op.what == 'refuse':
            if exc is None:
                fail(f'refuse/succeeded/{op.kind}', 'an open to a PSM nobody serves succeeded')
            if same_epoch:
                link.history.add('refusal')
            labels.add('refused')
        elif op.what == 'close':
            if exc is None:
                op.end.chan.close_ok = True
                labels.add('close_ok')
            if same_epoch:
                link.history.add('close')
        elif op.what == 'abort':
            if exc is not None:
                fail(f'abort_raises/{op.end.chan.kind}/{exc_name(exc)}', f'channel.abort() raised {exc!r}')
            if same_epoch:
                link.history.add('abort')
        elif op.what == 'drain':
            labels.add('drain_done')
        elif op.what == 'cut':
            pass

    def reap():
        while evq:
            handle_event(evq.popleft())

    # -- invariants at quiescence --------------------------------------------------
    def situation(e: End) -> str:
        if not (e.link.epoch == e.epoch and e.link.up):
            return 'after_link_down'
        if e.chan and e.chan.racy:
            return 'closed_before_open_returned'
        if e.aborted:
            return 'after_abort'
        if e.chan and any(x is not None and x.close_started for x in e.chan.ends):
            return 'after_close'
        return 'other'

    def is_orphan(e: End) -> bool:
        partner = e.chan.other(e.side) if e.chan else None
        return partner is None or report(partner.obj) != 'open'

    def kind_of(e: End) -> str:
        if e.chan and e.chan.kind != 'le?':
            return e.chan.kind
        return 'le' if is_le(e.obj) else 'cl'

    def check_quiescent(clean_only=False):
        """Invariants at quiescence. With clean_only (called while operations are in flight): only the
        links on which nothing was started since the last quiescence - their tables must not move."""
        if clean_only:
            def fail_(sig, what):
                fail('independence/' + sig, what + ' [link with no operation since the last quiescence, '
                     'while operations are in flight on another link]')
        else:
            fail_ = fail
        # (a) links: a started cut must have brought both ends down
        for link in links:
            if not clean_only and link.cut_started and (link.alive[0] or link.alive[1]):
                fail('link/cut_incomplete', 'a link disconnection was started but an end never reported the disconnection')
        # (b) waiters
        for op in list(pending):
            if op.task.done() or clean_only:
                continue
            link = op.link
            link_up = link is not None and link.epoch == op.epoch and link.up
            if op.what in ('open', 'refuse'):
                fail(f'waiter/open_pending/{op.kind}/{"live" if link_up else "link_down"}',
                     f'{op.kind} open still pending at quiescence ({"link alive" if link_up else "its link is gone"})')
            if op.what == 'close':
                e = op.end
                other = e.chan.other(e.side)
                if link_up and (other is None or other.aborted):
                    labels.add('close_of_orphan_pending')
                    continue
                both = other is not None and other.close_started
                sit = 'link_down' if not link_up else ('collision' if both else 'live')
                fail(f'waiter/close_pending/{kind_of(e)}/{sit}',
                     f'channel.disconnect() still pending at quiescence ({sit}; channel reports {report(e.obj)})')
            if op.what == 'drain':
                e = op.end
                if link_up and report(e.obj) == 'open':
                    labels.add('drain_pending_on_open_channel')
                    continue
                sit = 'link_down' if not link_up else 'channel_closed'
                fail(f'waiter/drain_pending/{sit}', f'drain() still pending at quiescence after {sit} (channel reports {report(e.obj)})')
            if op.what in ('cut', 'abort'):
                fail(f'waiter/{op.what}_pending', f'{op.what} did not finish')
        # (c) reported state against the history
        for c in chans:
            link = c.link
            if clean_only and link.dirty:
                continue
            link_up = link.epoch == c.epoch and link.up
            for e in c.ends:
                if e is None:
                    continue
                r = report(e.obj)
                if not link_up:
                    if r == 'open':
                        fail_(f'state/open_on_dead_link/{kind_of(e)}', 'a channel still reports open after its link went away')
                    continue
                touched = any(x is not None and (x.aborted or x.close_started) for x in c.ends)
                if c.close_ok and r == 'open':
                    fail_(f'state/open_after_close/{kind_of(e)}', 'a disconnect() of the channel completed but an end still reports open')
                if c.expect_open and not touched and None not in c.ends and r != 'open':
                    fail_(f'state/not_open/{kind_of(e)}', f'a successfully opened, untouched channel on a live link reports {e.obj.state.name}')
        # (d) tables
        w = st_['w']
        for node in range(1 + nper):
            m = manager(node)
            live = {}
            for link in links:
                side = 0 if node == 0 else 1
                if (node == 0 or link.idx + 1 == node) and link.alive[side]:
                    live[link.conns[side].handle] = (link, side)
            for name in ('channels', 'le_coc_channels', 'pending_credit_based_connections'):
                for h, entries in getattr(m, name).items():
                    if h not in live and entries and not clean_only:
                        fail(f'tables/dead_link_entry/{name}', f'{name} still holds {len(entries)} entr(y/ies) for a connection that is gone')
            for h, (link, side) in live.items():
                if clean_only and link.dirty:
                    continue
                mine = [e for e in ends if e.link is link and e.epoch == link.epoch and e.side == side]
                by_obj = {id(e.obj): e for e in mine}
                for name in ('channels', 'le_coc_channels'):
                    table = getattr(m, name).get(h, {})
                    seen = set()
                    for cid, obj in table.items():
                        e = by_obj.get(id(obj))
                        if e is None:
                            fail_(f'tables/unknown_entry/{name}/{"le" if is_le(obj) else "cl"}',
                                 f'{name} holds a channel (state {obj.state.name}) that was never reported to the application as open')
                        seen.add(id(obj))
                        r = report(obj)
                        if r == 'closed':
                            fail_(f'tables/stale_entry/{name}/{kind_of(e)}/{situation(e)}',
                                 f'{name} still holds a channel that reports {obj.state.name}')
                        want = obj.source_cid if name == 'channels' else obj.destination_cid
                        if cid != want:
                            fail_(f'tables/key_mismatch/{name}/{kind_of(e)}',
                                 f'{name} files a channel under CID {cid}, but its {"source" if name == "channels" else "destination"} CID is {want}')
                    for e in mine:
                        if name == 'le_coc_channels' and (not is_le(e.obj) or is_orphan(e)):
                            # an orphan's remote CID may legitimately be re-used by the peer for a new channel
                            continue
                        if report(e.obj) == 'open' and id(e.obj) not in seen:
                            fail_(f'tables/missing_entry/{name}/{kind_of(e)}', f'an open channel is missing from {name}')
                # CIDs in use unique per connection
                local = [e.obj.source_cid for e in mine if report(e.obj) == 'open']
                if len(local) != len(set(local)):
                    fail_('cid/duplicate_local', f'two open channels of one connection share a local CID: {sorted(local)}')
                remote = [e.obj.destination_cid for e in mine if report(e.obj) == 'open' and is_le(e.obj) and not is_orphan(e)]
                if len(remote) != len(set(remote)):
                    fail_('cid/duplicate_remote', f'two open credit-based channels of one connection share a remote CID: {sorted(remote)}')
            # (e) pending-request tables
            if not clean_only and not any(not op.task.done() and op.what in ('open', 'refuse') for op in pending):
                if m.le_coc_requests:
                    fail('pending/le_coc_requests', f'le_coc_requests holds {len(m.le_coc_requests)} request(s) while no open is pending')
                if any(v for v in m.pending_credit_based_connections.values()):
                    fail('pending/pending_credit_based_connections', 'pending_credit_based_connections not empty while no open is pending')
        del w

    # -- operations ------------------------------------------------------------------
    def usable(idx):
        if idx < 0:
            link = cur.get('last_link')
            return link if link is not None and link.up else None
        ups = [link for link in links if link.up]
        return ups[idx % len(ups)] if ups else None

    def pick_end(sel, side, want_le=False):
        cands = []
        for c in chans:
            e = c.ends[side]
            if e is None or not (c.link.epoch == c.epoch and c.link.up):
                continue
            if want_le and not is_le(e.obj):
                continue
            if report(e.obj) == 'open' and not e.close_started and not e.aborted:
                cands.append(e)
        if not cands:
            return None
        return cands[sel % len(cands)]

    def start(step, what, coro, link, side, **kw):
        task = loop.create_task(coro)
        cur['last_link'] = link
        link.dirty = True
        op = Op(step, what, task, link, side, **kw)
        pending.append(op)
        task.add_done_callback(lambda _t, op=op: evq.append(('done', op)))
        return op

    def in_flight_elsewhere(link):
        return sum(1 for op in pending if not op.task.done() and op.link is not None and op.link is not link)

    def in_flight_on(link):
        return sum(1 for op in pending if not op.task.done() and op.link is link and op.what != 'cut')

    def do_op(step, op):
        what = op[0]
        if what in ('open', 'refuse'):
            kind = op[1]
            if transport == 'classic':
                kind = 'cl'
            elif transport == 'le' and kind == 'cl':
                kind = 'le'
            link = usable(op[2])
            if link is None:
                labels.add('noop')
                return -1
            side = op[3]
            conn = link.conns[side]
            if what == 'open':
                psm_i, n, wait = op[4] % npsm, op[5], op[6]
                if kind != 'enh':
                    n = 1
            else:
                psm_i, n, wait = None, 1, op[4]
            if kind == 'cl':
                psm = CL_PSMS[psm_i] if what == 'open' else CL_UNSERVED
                coro = conn.create_l2cap_channel(l2cap.ClassicChannelSpec(psm=psm))
            else:
                psm = LE_PSMS[psm_i] if what == 'open' else LE_UNSERVED
                if kind == 'le':
                    coro = conn.create_l2cap_channel(le_spec(psm))
                else:
                    coro = conn.device.l2cap_channel_manager.create_enhanced_credit_based_channels(conn, le_spec(psm), n)
            others = in_flight_elsewhere(link)
            if others:
                labels.add('concurrent_two_links')
                flags['nontrivial'] = True
            if what == 'open':
                for h in link.history:
                    labels.add(f'reopen_after_{h}')
                    flags['nontrivial'] = True
                labels.add(f'kind:{kind}')
                if kind == 'cl' and transport == 'le+cl':
                    labels.add('classic_over_le')
                labels.add('open_by_central' if side == 0 else 'open_by_peripheral')
            start(step, what, coro, link, side, kind=kind, n=n, history=set(link.history), others_in_flight=others,
                  orphan_seen=(kind != 'cl' and orphan_on(link, 1 - side)))
            return wait
        if what == 'close_both':
            sel, side, gap, wait = op[1], op[2], op[3], op[4]
            e = pick_end(sel, side)
            if e is None or e.chan.other(side) is None or report(e.chan.other(side).obj) != 'open':
                labels.add('noop')
                return -1
            other = e.chan.other(side)
            for k, x in enumerate((e, other)):
                if k == 1:
                    loop.run_for(gap / 1000.0)
                    reap()
                    if report(x.obj) != 'open' or x.close_started or x.aborted:
                        labels.add('close_both_too_late')
                        return wait
                    labels.add('close_collision')
                x.close_started = True
                start(step, 'close', x.obj.disconnect(), x.link, x.side, end=x)
            return wait
        if what in ('close', 'abort', 'drain'):
            sel, side = op[1], op[2]
            wait = op[-1]
            e = pick_end(sel, side, want_le=(what == 'drain'))
            if e is None:
                labels.add('noop')
                return -1
            link = e.link
            if in_flight_elsewhere(link):
                labels.add('concurrent_two_links')
                flags['nontrivial'] = True
            if what == 'close':
                e.close_started = True
                other = e.chan.other(e.side)
                if other is not None and other.close_started and not other.aborted:
                    labels.add('close_collision')
                labels.add('close_by_central' if side == 0 else 'close_by_peripheral')
                start(step, 'close', e.obj.disconnect(), link, side, end=e)
            elif what == 'abort':
                e.aborted = True
                link.abort_seen = True
                for o in pending:
                    if o.link is link and o.what == 'open' and not o.task.done():
                        o.orphan_seen = True

                async def do_abort(obj=e.obj):
                    obj.abort()

                labels.add('abort')
                start(step, 'abort', do_abort(), link, side, end=e)
            else:
                size = op[3]

                async def do_drain(obj=e.obj, size=size):
                    obj.write(bytes(size))
                    await obj.drain()

                labels.add('drain_unsent' if size > 64 else 'drain_small')
                start(step, 'drain', do_drain(), link, side, end=e)
            return wait
        if what == 'cut':
            link = usable(op[1])
            if link is None:
                labels.add('noop')
                return -1
            side, wait = op[2], op[3]
            if in_flight_on(link):
                labels.add('cut_with_pending_op')
                flags['nontrivial'] = True
            if any(report(e.obj) == 'open' for e in ends if e.link is link and e.epoch == link.epoch):
                labels.add('cut_with_open_channels')
            labels.add('cut_by_central' if side == 0 else 'cut_by_peripheral')
            link.cut_started = True
            start(step, 'cut', link.conns[side].disconnect(), link, side)
            return wait
        if what == 'reconnect':
            downs = [link for link in links if not (link.alive[0] or link.alive[1])
                     and not any(not o.task.done() for o in pending if o.link is link and o.what == 'cut')]
            if not downs:
                labels.add('noop')
                return -1
            link = downs[op[1] % len(downs)]
            try:
                loop.complete(connect(link), horizon=120.0)
            except (vloop.Stalled, vloop.HorizonExceeded, vloop.BudgetExceeded) as e:
                fail(f'link/reconnect_failed/{type(e).__name__}', 'could not re-establish a link after its disconnection')
            except _Stop:
                raise
            except Exception as e:  # noqa: BLE001
                fail(f'link/reconnect_failed/{type(e).__name__}', f'could not re-establish a link after its disconnection: {e!r}')
            labels.add('reconnect')
            link.dirty = True
            return -1
        raise ValueError(what)

    # -- main ---------------------------------------------------------------------
    try:
        try:
            loop.complete(setup(), horizon=600.0)
        except (vloop.Stalled, vloop.HorizonExceeded) as e:
            from vlib.runner import HarnessError

            raise HarnessError(f'C09 world set-up did not complete: {type(e).__name__}') from e
        labels.add(f'links:{nper}')
        labels.add(f'transport:{transport}')
        if any(any(d) for d in delays[: 1 + nper]):
            labels.add('delayed')
        try:
            reap()
            for step, op in enumerate(ops):
                cur['step'] = step
                wait = do_op(step, op)
                if wait < 0:
                    loop.run_for(QUIESCE)
                    if loop.budget_hit:
                        labels.add('iteration_budget_hit')
                        break
                    reap()
                    check_quiescent()
                    for link in links:
                        link.dirty = False
                else:
                    loop.run_for(wait / 1000.0)
                    if loop.budget_hit:
                        labels.add('iteration_budget_hit')
                        break
                    reap()
                    if any(link.dirty for link in links) and any(not link.dirty and link.up for link in links):
                        labels.add('independence_checked')
                        check_quiescent(clean_only=True)
            else:
                loop.run_for(QUIESCE)
                if not loop.budget_hit:
                    reap()
                    check_quiescent()
        except _Stop:
            labels.add('violation')
        ctx.case(('w', transport, nper, npsm, delays[: 1 + nper], ops), flags['nontrivial'], labels,
                 sample={'world': [transport, nper, npsm, delays[: 1 + nper], ops[:10]]})
    finally:
        loop.shutdown()


# ---------------------------------------------------------------------------
# raw-peer variant
# ---------------------------------------------------------------------------
POOL = [0x40, 0x41, 0x42, 0x55, 0x7F]
RES_LE_OK = l2cap.L2CAP_LE_Credit_Based_Connection_Response.Result.CONNECTION_SUCCESSFUL
RES_ENH_OK = l2cap.L2CAP_Credit_Based_Connection_Response.Result.ALL_CONNECTIONS_SUCCESSFUL


def raw_ops(max_ops):
    cidx = st.integers(0, len(POOL) - 1)
    psm = st.integers(0, 2)
    sel = st.integers(0, 5)
    op = st.one_of(
        st.tuples(st.just('ropen'), cidx, psm),
        st.tuples(st.just('ropen'), cidx, psm),
        st.tuples(st.just('ropen_enh'), st.lists(cidx, min_size=1, max_size=3, unique=True), psm),
        st.tuples(st.just('rrefuse'), cidx),
        st.tuples(st.just('rclose'), sel),
        st.tuples(st.just('rclose'), sel),
        st.tuples(st.just('dopen'), st.sampled_from(['le', 'le', 'enh']), st.integers(1, 3), cidx),
        st.tuples(st.just('dopen_refused'), st.sampled_from(['le', 'enh'])),
        st.tuples(st.just('dopen_mute'), st.sampled_from(['le', 'enh'])),
        st.tuples(st.just('dclose'), sel),
        st.tuples(st.just('dabort'), sel),
        st.tuples(st.just('cut'), st.integers(0, 1)),
        st.just(('reconnect',)),
    )
    return st.fixed_dictionaries({'npsm': st.integers(1, 3), 'ops': st.lists(op, min_size=2, max_size=max_ops)})


def run_raw_case(ctx, case) -> None:
    npsm = int(case['npsm'])
    ops = [_plain(o) for o in case['ops']]
    loop = vloop.new_loop()
    loop.max_iterations = 400_000
    labels = set()
    flags = {'nontrivial': False}
    cur = {'step': -1}
    S: dict = {'alive': False, 'mode': 'answer', 'next_cidx': 0, 'ident': 0}
    model: list[dict] = []  # open channels: raw (peer CID), dut (DUT CID), obj (DUT object or None)
    server_objs: list = []
    pending: list = []  # (what, task)
    used_cids: set = set()  # raw CIDs that were used and closed on this connection (for the re-use label)
    inbox: list = []

    def fail(sig, what):
        ctx.fail(sig, what, {'kind': 'raw', 'npsm': npsm, 'ops': ops[: cur['step'] + 1]})
        raise _Stop()

    def ident():
        S['ident'] = S['ident'] % 255 + 1
        return S['ident']

    def raw_cids():
        return {c['raw'] for c in model}

    def free_pool_cid(start):
        for k in range(len(POOL)):
            cid = POOL[(start + k) % len(POOL)]
            if cid not in raw_cids():
                return cid
        for cid in range(0x43, 0x7F):
            if cid not in raw_cids():
                return cid
        return None

    def on_raw_pdu(handle, cid, payload):
        if cid != l2cap.L2CAP_LE_SIGNALING_CID:
            return
        try:
            frame = l2cap.L2CAP_Control_Frame.from_bytes(bytes(payload))
        except Exception:  # noqa: BLE001
            return
        peer = S['peer']
        if isinstance(frame, l2cap.L2CAP_LE_Credit_Based_Connection_Request):
            if S['mode'] == 'mute':
                return
            if S['mode'] == 'refuse':
                peer.send(5, bytes(l2cap.L2CAP_LE_Credit_Based_Connection_Response(
                    identifier=frame.identifier, destination_cid=0, mtu=23, mps=23, initial_credits=0,
                    result=l2cap.L2CAP_LE_Credit_Based_Connection_Response.Result.CONNECTION_REFUSED_LE_PSM_NOT_SUPPORTED)))
                return
            cid_ = free_pool_cid(S['next_cidx'])
            model.append({'raw': cid_, 'dut': frame.source_cid, 'obj': None, 'by': 'dut'})
            peer.send(5, bytes(l2cap.L2CAP_LE_Credit_Based_Connection_Response(
                identifier=frame.identifier, destination_cid=cid_, mtu=64, mps=32, initial_credits=2, result=RES_LE_OK)))
        elif isinstance(frame, l2cap.L2CAP_Credit_Based_Connection_Request):
            if S['mode'] == 'mute':
                return
            if S['mode'] == 'refuse':
                peer.send(5, bytes(l2cap.L2CAP_Credit_Based_Connection_Response(
                    identifier=frame.identifier, destination_cid=[], mtu=64, mps=64, initial_credits=0,
                    result=l2cap.L2CAP_Credit_Based_Connection_Response.Result.ALL_CONNECTIONS_REFUSED_SPSM_NOT_SUPPORTED)))
                return
            dcids = []
            for k, scid in enumerate(frame.source_cid):
                cid_ = free_pool_cid(S['next_cidx'] + k)
                model.append({'raw': cid_, 'dut': scid, 'obj': None, 'by': 'dut'})
                dcids.append(cid_)
            peer.send(5, bytes(l2cap.L2CAP_Credit_Based_Connection_Response(
                identifier=frame.identifier, destination_cid=dcids, mtu=64, mps=64, initial_credits=2, result=RES_ENH_OK)))
        elif isinstance(frame, l2cap.L2CAP_Disconnection_Request):
            # DUT closes: destination = our CID, source = its CID
            for c in list(model):
                if c['raw'] == frame.destination_cid and c['dut'] == frame.source_cid:
                    model.remove(c)
                    used_cids.add(c['raw'])
            peer.send(5, bytes(l2cap.L2CAP_Disconnection_Response(
                identifier=frame.identifier, destination_cid=frame.destination_cid, source_cid=frame.source_cid)))
        else:
            inbox.append(frame)

    async def connect():
        peer = S['peer']
        dev = S['w'][0].device
        conn = await peer.connect_to(dev)
        S['conn'] = conn
        S['alive'] = True
        S['ident'] = 0
        used_cids.clear()
        conn.on('disconnection', lambda reason: S.update(alive=False))

    async def setup():
        w = world.World(1)
        S['w'] = w
        await w.power_on()
        peer = world.RawPeer(w, 9)
        S['peer'] = peer
        await peer.start()
        peer.host.on('l2cap_pdu', on_raw_pdu)
        for k in range(npsm):
            w[0].device.create_l2cap_server(le_spec(LE_PSMS[k]), handler=server_objs.append)
        await connect()

    def quiesce():
        loop.run_for(QUIESCE)

    def take_response(cls, identifier):
        for f in list(inbox):
            if isinstance(f, cls) and f.identifier == identifier:
                inbox.remove(f)
                return f
        return None

    def dut_obj_for(dut_cid):
        conn = S['conn']
        for obj in server_objs:
            if obj.connection is conn and obj.source_cid == dut_cid and report(obj) != 'closed':
                return obj
        return None

    def check():
        m = S['w'][0].device.l2cap_channel_manager
        conn = S['conn']
        # waiters
        for what, task in list(pending):
            if task.done():
                pending.remove((what, task))
                continue
            if what == 'dopen_mute' and S['alive']:
                continue
            fail(f'waiter/{what}_pending/{"live" if S["alive"] else "link_down"}',
                 f'DUT {what} still pending at quiescence ({"link alive" if S["alive"] else "link is gone"})')
        h = conn.handle
        if not S['alive']:
            for name in ('channels', 'le_coc_channels', 'pending_credit_based_connections'):
                for hh, entries in getattr(m, name).items():
                    if entries:
                        fail(f'tables/dead_link_entry/{name}', f'{name} still holds {len(entries)} entr(y/ies) for a connection that is gone')
            for c in model:
                if c['obj'] is not None and report(c['obj']) == 'open':
                    fail('state/open_on_dead_link/le', 'a channel still reports open after its link went away')
        else:
            mute_pending = any(w_ == 'dopen_mute' and not t.done() for w_, t in pending)
            want_local = sorted(c['dut'] for c in model)
            want_remote = sorted(c['raw'] for c in model)
            if len(set(want_local)) != len(want_local):
                fail('cid/duplicate_local', f'DUT uses one local CID for two open channels: {want_local}')
            if len(set(want_remote)) != len(want_remote):
                fail('cid/duplicate_remote', f'DUT accepted two open channels with one remote CID: {want_remote}')
            have_local = sorted(cid for cid, o in m.channels.get(h, {}).items() if not (mute_pending and report(o) != 'open'))
            have_remote = sorted(m.le_coc_channels.get(h, {}))
            if have_local != want_local:
                extra = set(have_local) - set(want_local)
                sig = 'tables/stale_entry/channels' if extra else 'tables/missing_entry/channels'
                fail(f'{sig}/raw', f'channels has local CIDs {[hex(x) for x in have_local]}, open channels have {[hex(x) for x in want_local]}')
            if have_remote != want_remote:
                extra = set(have_remote) - set(want_remote)
                table = m.le_coc_channels.get(h, {})
                if any(cid != o.destination_cid for cid, o in table.items()):
                    fail('tables/key_mismatch/le_coc_channels/raw',
                         f'le_coc_channels keys {[hex(x) for x in have_remote]} but the open channels\' peer CIDs are {[hex(x) for x in want_remote]}')
                sig = 'tables/stale_entry/le_coc_channels' if extra else 'tables/missing_entry/le_coc_channels'
                fail(f'{sig}/raw', f'le_coc_channels has peer CIDs {[hex(x) for x in have_remote]}, open channels have {[hex(x) for x in want_remote]}')
            for name in ('channels', 'le_coc_channels', 'pending_credit_based_connections'):
                for hh, entries in getattr(m, name).items():
                    if hh != h and entries:
                        fail(f'tables/dead_link_entry/{name}', f'{name} still holds entries for a connection that is gone')
        if not any(not t.done() for _w, t in pending):
            if m.le_coc_requests:
                fail('pending/le_coc_requests', f'le_coc_requests holds {len(m.le_coc_requests)} request(s) while no open is pending')
            if any(v for v in m.pending_credit_based_connections.values()):
                fail('pending/pending_credit_based_connections', 'pending_credit_based_connections not empty while no open is pending')

    def do_op(op):
        what = op[0]
        peer = S['peer']
        if what == 'reconnect':
            if S['alive']:
                labels.add('noop')
                return
            model.clear()
            try:
                loop.complete(connect(), horizon=120.0)
            except (vloop.Stalled, vloop.HorizonExceeded, vloop.BudgetExceeded) as e:
                fail(f'link/reconnect_failed/{type(e).__name__}', 'could not re-establish the link')
            labels.add('reconnect')
            return
        if not S['alive']:
            labels.add('noop')
            return
        conn = S['conn']
        dev = S['w'][0].device
        if what in ('ropen', 'rrefuse'):
            cid = POOL[op[1]]
            psm = LE_PSMS[op[2] % npsm] if what == 'ropen' else LE_UNSERVED
            dup = cid in raw_cids()
            i = ident()
            if what == 'ropen' and not dup and cid in used_cids:
                labels.add('raw_cid_reuse')
                flags['nontrivial'] = True
            peer.send(5, bytes(l2cap.L2CAP_LE_Credit_Based_Connection_Request(
                identifier=i, le_psm=psm, source_cid=cid, mtu=64, mps=32, initial_credits=2)))
            quiesce()
            rsp = take_response(l2cap.L2CAP_LE_Credit_Based_Connection_Response, i)
            if rsp is None:
                fail(f'raw/no_response/{what}', 'no LE Credit Based Connection Response to the peer\'s request')
            if what == 'rrefuse':
                if rsp.result == RES_LE_OK:
                    fail('refuse/succeeded/le', 'a request for a PSM nobody serves was accepted')
                labels.add('refused')
            elif dup:
                labels.add('raw_duplicate_cid')
                if rsp.result == RES_LE_OK:
                    model.append({'raw': cid, 'dut': rsp.destination_cid, 'obj': dut_obj_for(rsp.destination_cid), 'by': 'raw'})
            else:
                if rsp.result != RES_LE_OK:
                    fail(f'open_failed/raw_le/{l2cap.L2CAP_LE_Credit_Based_Connection_Response.Result(rsp.result).name}',
                         f'peer request with free source CID 0x{cid:02X} to a served PSM refused '
                         f'({"CID used before on this connection" if cid in used_cids else "fresh CID"})')
                if rsp.destination_cid in {c['dut'] for c in model}:
                    fail('cid/duplicate_local', f'DUT allocated local CID 0x{rsp.destination_cid:02X} which is already in use')
                model.append({'raw': cid, 'dut': rsp.destination_cid, 'obj': dut_obj_for(rsp.destination_cid), 'by': 'raw'})
                labels.add('raw_open_ok')
            return
        if what == 'ropen_enh':
            cids = [POOL[k] for k in op[1]]
            psm = LE_PSMS[op[2] % npsm]
            dup = any(c in raw_cids() for c in cids)
            i = ident()
            if not dup and any(c in used_cids for c in cids):
                labels.add('raw_cid_reuse')
                flags['nontrivial'] = True
            peer.send(5, bytes(l2cap.L2CAP_Credit_Based_Connection_Request(
                identifier=i, spsm=psm, mtu=64, mps=64, initial_credits=2, source_cid=cids)))
            quiesce()
            rsp = take_response(l2cap.L2CAP_Credit_Based_Connection_Response, i)
            if rsp is None:
                fail('raw/no_response/ropen_enh', 'no Credit Based Connection Response to the peer\'s request')
            if dup:
                labels.add('raw_duplicate_cid')
                if rsp.result == RES_ENH_OK:
                    for scid, dcid in zip(cids, rsp.destination_cid):
                        model.append({'raw': scid, 'dut': dcid, 'obj': dut_obj_for(dcid), 'by': 'raw'})
                return
            if rsp.result != RES_ENH_OK or len(rsp.destination_cid) != len(cids):
                fail(f'open_failed/raw_enh/{l2cap.L2CAP_Credit_Based_Connection_Response.Result(rsp.result).name}',
                     f'peer enhanced request with free source CIDs {[hex(c) for c in cids]} to a served PSM refused')
            for scid, dcid in zip(cids, rsp.destination_cid):
                if dcid in {c['dut'] for c in model}:
                    fail('cid/duplicate_local', f'DUT allocated local CID 0x{dcid:02X} which is already in use')
                model.append({'raw': scid, 'dut': dcid, 'obj': dut_obj_for(dcid), 'by': 'raw'})
            labels.add('raw_open_enh_ok')
            return
        if what == 'rclose':
            if not model:
                labels.add('noop')
                return
            c = model[op[1] % len(model)]
            i = ident()
            peer.send(5, bytes(l2cap.L2CAP_Disconnection_Request(identifier=i, destination_cid=c['dut'], source_cid=c['raw'])))
            quiesce()
            rsp = take_response(l2cap.L2CAP_Disconnection_Response, i)
            if rsp is None:
                fail('raw/no_response/rclose', 'no Disconnection Response to the peer\'s request for an open channel')
            model.remove(c)
            used_cids.add(c['raw'])
            labels.add('raw_close')
            return
        if what in ('dopen', 'dopen_refused', 'dopen_mute'):
            kind = op[1]
            n = op[2] if (what == 'dopen' and kind == 'enh') else 1
            S['mode'] = {'dopen': 'answer', 'dopen_refused': 'refuse', 'dopen_mute': 'mute'}[what]
            S['next_cidx'] = op[3] if what == 'dopen' else 0
            if kind == 'le':
                coro = conn.create_l2cap_channel(le_spec(LE_PSMS[0]))
            else:
                coro = dev.l2cap_channel_manager.create_enhanced_credit_based_channels(conn, le_spec(LE_PSMS[0]), n)
            if used_cids:
                flags['nontrivial'] = True
                labels.add('dut_reopen_after_close')
            before = len(model)
            task = loop.create_task(coro)
            quiesce()
            S['mode'] = 'answer'
            if what == 'dopen_mute':
                pending.append((what, task))
                labels.add('dut_open_unanswered')
                return
            if not task.done():
                fail(f'waiter/{what}_pending/live', 'DUT open still pending although the peer answered')
            exc = asyncio.CancelledError() if task.cancelled() else task.exception()
            if what == 'dopen_refused':
                if exc is None:
                    fail('refuse/succeeded/dut', 'DUT open succeeded although the peer refused it')
                labels.add('refused')
                return
            if exc is not None:
                del model[before:]
                fail(f'open_failed/dut_{kind}/{exc_name(exc)}', f'DUT {kind} open accepted by the peer failed with {exc!r}')
            result = task.result()
            objs = result if isinstance(result, list) else [result]
            for obj in objs:
                for c in model[before:]:
                    if c['dut'] == obj.source_cid:
                        c['obj'] = obj
            labels.add(f'dut_open_ok:{kind}')
            return
        if what in ('dclose', 'dabort'):
            cands = [c for c in model if c['obj'] is not None and report(c['obj']) == 'open']
            if not cands:
                labels.add('noop')
                return
            c = cands[op[1] % len(cands)]
            if what == 'dclose':
                task = loop.create_task(c['obj'].disconnect())
                pending.append(('dclose', task))
                quiesce()
                labels.add('dut_close')
            else:
                try:
                    c['obj'].abort()
                except Exception as e:  # noqa: BLE001
                    fail(f'abort_raises/le/{exc_name(e)}', f'channel.abort() raised {e!r}')
                # the raw peer drops its end as well (its own policy), so the CID pair is free again
                model.remove(c)
                used_cids.add(c['raw'])
                quiesce()
                labels.add('dut_abort')
            return
        if what == 'cut':
            if any(w_ == 'dopen_mute' and not t.done() for w_, t in pending):
                labels.add('cut_with_pending_op')
                flags['nontrivial'] = True
            if model:
                labels.add('cut_with_open_channels')
            if op[1] == 0:
                task = loop.create_task(conn.disconnect())
                pending.append(('cut', task))
                labels.add('cut_by_dut')
            else:
                from bumble import hci

                loop.create_task(peer.host.send_command(hci.HCI_Disconnect_Command(connection_handle=peer.handle, reason=0x13)))
                labels.add('cut_by_peer')
            quiesce()
            if S['alive']:
                fail('link/cut_incomplete', 'the DUT never reported the disconnection')
            model_objs = [c['obj'] for c in model if c['obj'] is not None]
            model.clear()
            for obj in model_objs:
                if report(obj) == 'open':
                    fail('state/open_on_dead_link/le', 'a channel still reports open after its link went away')
            return
        raise ValueError(what)

    try:
        try:
            loop.complete(setup(), horizon=600.0)
        except (vloop.Stalled, vloop.HorizonExceeded) as e:
            from vlib.runner import HarnessError

            raise HarnessError(f'C09 raw set-up did not complete: {type(e).__name__}') from e
        labels.add('raw')
        try:
            for step, op in enumerate(ops):
                cur['step'] = step
                do_op(op)
                if loop.budget_hit:
                    labels.add('iteration_budget_hit')
                    break
                check()
        except _Stop:
            labels.add('violation')
        ctx.case(('r', npsm, ops), flags['nontrivial'], labels, sample={'raw': [npsm, ops[:10]]})
    finally:
        loop.shutdown()


# ---------------------------------------------------------------------------
def run(ctx) -> None:
    vloop.selftest()
    max_ops = ctx.pick(15, 40)
    ctx.hyp('world', lambda c: run_world_case(ctx, c), world_cases(max_ops), max_examples=ctx.n(1100, 36000))
    ctx.hyp('raw', lambda c: run_raw_case(ctx, c), raw_ops(max_ops), max_examples=ctx.n(400, 12000))
    for label in (
        'reopen_after_close', 'reopen_after_refusal', 'reopen_after_abort', 'concurrent_two_links',
        'cut_with_pending_op', 'cut_by_central', 'cut_by_peripheral', 'close_by_central', 'close_by_peripheral',
        'kind:le', 'kind:enh', 'kind:cl', 'transport:classic', 'links:2', 'links:3', 'drain_unsent', 'reconnect',
        'raw_cid_reuse', 'dut_open_unanswered', 'abort', 'close_collision', 'independence_checked',
        'closed_before_open_returned',
    ):
        ctx.floor(label, 10)


def replay(ctx, case) -> None:
    if case['kind'] == 'world':
        run_world_case(ctx, case)
    elif case['kind'] == 'raw':
        run_raw_case(ctx, case)
    else:
        raise ValueError(case['kind'])
